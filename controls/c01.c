/* controls for C01: R01j (letters are read-only between reading and rendering) */
struct msa_seq { char *seq; unsigned char *s; int len; };
struct msa { struct msa_seq **sequences; int numseq; };
static void bad_r01j_overwrites_letters(struct msa *m)
{
        int i, j;
        for (i = 0; i < m->numseq; i++) {
                for (j = 0; j < m->sequences[i]->len; j++) {
                        if (m->sequences[i]->seq[j] == 'J') {
                                m->sequences[i]->seq[j] = 'X';          /* the input letter is gone */
                        }
                        m->sequences[i]->s[j] = 1;
                }
        }
}
static void ok_r01j_codes_only(struct msa *m)
{
        int i, j;
        for (i = 0; i < m->numseq; i++) {
                for (j = 0; j < m->sequences[i]->len; j++) {
                        m->sequences[i]->s[j] = (unsigned char)(m->sequences[i]->seq[j] & 31);
                }
        }
}
void ctl_render(struct msa *m) { (void) m; }
void ctl_run(struct msa *m)
{
        bad_r01j_overwrites_letters(m);
        ok_r01j_codes_only(m);
        ctl_render(m);
}
