/* controls for R03d / R16: hidden order carriers reachable from a root */
#include <stdlib.h>
#include <stdint.h>
#include <time.h>
struct item { int len; struct item *next; };
int ctl_uses_rand(int n) { return rand() % n; }
int ctl_ptr_order(struct item *a, struct item *b) { return a < b ? -1 : 1; }
unsigned ctl_ptr_hash(struct item *a) { return (unsigned)((uintptr_t)a >> 4) % 97u; }
long ctl_clock(void) { return (long)time(NULL); }
int ctl_clean(struct item *a, struct item *b) { return a->len - b->len; }
int f00(int x){return x;} int f01(int x){return x;} int f02(int x){return x;} int f03(int x){return x;}
int ctl_root(struct item *a, struct item *b)
{
        return ctl_uses_rand(3) + ctl_ptr_order(a, b) + (int)ctl_ptr_hash(a) + (int)ctl_clock() + ctl_clean(a, b);
}
