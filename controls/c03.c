/* controls for R03d / R16: hidden order carriers reachable from a root */
#include <stdlib.h>
#include <stdint.h>
#include <time.h>
struct item { int len; struct item *next; };
int ctl_uses_rand(int n) { return rand() % n; }
int ctl_ptr_order(struct item *a, struct item *b) { return a->next < b->next ? -1 : 1; }   /* two pointer values loaded from data */
int ctl_ptr_same(char *base, int n) { char *p = base; char *end = base + n; int c = 0; while(p < end){ c += *p++; } return c; }   /* positions in one array: silent */
unsigned ctl_ptr_hash(struct item *a) { return (unsigned)((uintptr_t)a >> 4) % 97u; }
long ctl_clock(void) { return (long)time(NULL); }
int ctl_clean(struct item *a, struct item *b) { return a->len - b->len; }
int f00(int x){return x;} int f01(int x){return x;} int f02(int x){return x;} int f03(int x){return x;}
int ctl_root(struct item *a, struct item *b)
{
        return ctl_uses_rand(3) + ctl_ptr_order(a, b) + (int)ctl_ptr_hash(a) + (int)ctl_clock() + ctl_clean(a, b) + ctl_ptr_same((char*)a, 2);
}
