/* Positive / negative controls for the C05 rules.  Self-contained: no kalign headers.
 * Each function named bad_* must make its rule fire, each ok_* must leave it silent. */
#include <stdlib.h>
#include <ctype.h>
#define OK 0
#define FAIL 1
void error(const char *loc, const char *fmt, ...);
#define ERROR_MSG(...) do { error("x", __VA_ARGS__); goto ERROR; } while (0)
#define RUN(EXP) do { if ((EXP) != OK) { ERROR_MSG("failed"); } } while (0)

struct tab { int freq[128]; signed char code[128]; };
struct rec { int *gaps; int len; };

/* R05a ------------------------------------------------------------------ */
int bad_r05a_unguarded(struct tab *t, const char *line, int n)
{
        for (int i = 0; i < n; i++) {
                t->freq[(int)line[i]]++;               /* byte 0x80 -> index -128 */
        }
        return OK;
}
int bad_r05a_unsigned_only(struct tab *t, const char *line, int n)
{
        for (int i = 0; i < n; i++) {
                t->freq[(unsigned char)line[i]]++;     /* byte 0x80 -> index 128 */
        }
        return OK;
}
int ok_r05a_continue_guard(struct tab *t, const char *line, int n)
{
        for (int i = 0; i < n; i++) {
                if ((unsigned char)line[i] > 127) {
                        continue;
                }
                t->freq[(int)line[i]]++;
        }
        return OK;
}
int ok_r05a_range_guard(struct tab *t, const char *line, int n)
{
        for (int i = 0; i < n; i++) {
                if (line[i] >= 0 && line[i] < 128) {
                        t->freq[(int)line[i]]++;
                }
        }
        return OK;
}
int ok_r05a_isalpha_guard(struct tab *t, const char *line, int n)
{
        for (int i = 0; i < n; i++) {
                if (isalpha((int)line[i])) {
                        t->freq[(int)line[i]]++;
                }
        }
        return OK;
}
int ok_r05a_literal(struct tab *t)
{
        char letters[4] = "ACGT";
        for (int i = 0; i < 4; i++) {
                t->code[(int)letters[i]] = (signed char)i;
        }
        return OK;
}
int bad_r05a_guard_invalidated(struct tab *t, const char *line, int n)
{
        for (int i = 0; i < n - 1; i++) {
                if ((unsigned char)line[i] > 127) {
                        continue;
                }
                i++;                                    /* the guard spoke about another byte */
                t->freq[(int)line[i]]++;
        }
        return OK;
}

/* R05e ------------------------------------------------------------------ */
int bad_r05e_cursor(struct rec **recs, const char **lines, int n)
{
        struct rec *cur = NULL;
        for (int i = 0; i < n; i++) {
                if (lines[i][0] == '>') {
                        cur = recs[i];
                } else if (isalpha((int)lines[i][0])) {
                        if (!cur) {
                                ERROR_MSG("no record yet");
                        }
                        cur->len++;
                } else {
                        cur->gaps[cur->len]++;          /* NULL when a gap line comes first */
                }
        }
        return OK;
ERROR:
        return FAIL;
}
int ok_r05e_cursor(struct rec **recs, const char **lines, int n)
{
        struct rec *cur = NULL;
        for (int i = 0; i < n; i++) {
                if (lines[i][0] == '>') {
                        cur = recs[i];
                } else {
                        if (!cur) {
                                ERROR_MSG("no record yet");
                        }
                        cur->gaps[cur->len]++;
                }
        }
        return OK;
ERROR:
        return FAIL;
}

/* R05i ------------------------------------------------------------------ */
void free_rec(struct rec *r);
int check_rec(struct rec *r);
int bad_r05i_publish_then_free(struct rec **out)
{
        struct rec *r = NULL;
        r = malloc(sizeof(struct rec));
        *out = r;
        RUN(check_rec(*out));
        return OK;
ERROR:
        if (r) {
                free_rec(r);                            /* the caller frees *out again */
        }
        return FAIL;
}
int ok_r05i_publish_then_forget(struct rec **out)
{
        struct rec *r = NULL;
        r = malloc(sizeof(struct rec));
        *out = r;
        r = NULL;
        RUN(check_rec(*out));
        return OK;
ERROR:
        if (r) {
                free_rec(r);
        }
        return FAIL;
}

/* R05d ------------------------------------------------------------------ */
int may_fail_by_input(const char *name)
{
        if (name[0] == 0) {
                ERROR_MSG("empty name");
        }
        return OK;
ERROR:
        return FAIL;
}
int bad_r05d_dropped(const char *name)
{
        may_fail_by_input(name);
        return OK;
}
int ok_r05d_checked(const char *name)
{
        RUN(may_fail_by_input(name));
        return OK;
ERROR:
        return FAIL;
}

/* R05j ------------------------------------------------------------------ */
struct gbuf { int *items; int n; int cap; };
int grow(struct gbuf *g);
int ok_r05j_append(struct gbuf *g, const int *src, int m)
{
        for (int i = 0; i < m; i++) {
                g->items[g->n] = src[i];
                g->n++;
                if (g->n == g->cap) {
                        RUN(grow(g));
                }
        }
        return OK;
ERROR:
        return FAIL;
}
int bad_r05j_hoisted(struct gbuf *g, const int *src, int m)
{
        if (g->n + m >= g->cap) {
                RUN(grow(g));                           /* grows by a fixed step only */
        }
        for (int i = 0; i < m; i++) {
                g->items[g->n] = src[i];
                g->n++;
        }
        return OK;
ERROR:
        return FAIL;
}

/* R05k ------------------------------------------------------------------ */
struct owner { char *row; };
int do_io(void);
int bad_r05k_free_alias(struct owner **o, int n)
{
        char *cur = NULL;
        for (int i = 0; i < n; i++) {
                cur = o[i]->row;
        }
        RUN(do_io());
        return OK;
ERROR:
        if (cur) {
                free(cur);                              /* o[n-1]->row is freed again by its owner */
        }
        return FAIL;
}
int ok_r05k_moved(struct owner *o)
{
        char *cur = NULL;
        cur = o->row;
        o->row = NULL;                                  /* ownership moved to the local */
        RUN(do_io());
        free(cur);
        return OK;
ERROR:
        free(cur);
        return FAIL;
}

/* R05l ------------------------------------------------------------------ */
int ok_r05l_terminated_copy(const char *line, int n, char **out)
{
        char *tmp = NULL;
        int i;
        tmp = malloc(sizeof(char) * (n + 1));
        for (i = 0; i < n; i++) {
                tmp[i] = line[i];
        }
        tmp[i] = 0;
        *out = tmp;
        return OK;
}
int bad_r05l_terminator_past_end(const char *line, int n, char **out)
{
        char *tmp = NULL;
        int i;
        tmp = malloc(sizeof(char) * n);          /* no room for the terminator */
        for (i = 0; i < n; i++) {
                tmp[i] = line[i];
        }
        tmp[i] = 0;
        *out = tmp;
        return OK;
}
int bad_r05l_loop_one_too_far(int n, int **out)
{
        int *v = NULL;
        v = malloc(sizeof(int) * n);
        for (int i = 0; i <= n; i++) {
                v[i] = 0;
        }
        *out = v;
        return OK;
}

/* R05t ------------------------------------------------------------------ */
#include <stdarg.h>
#include <stdio.h>
int bad_r05t_twice(char *buf, int n, const char *fmt, ...)
{
        va_list ap;
        int w;
        va_start(ap, fmt);
        w = vsnprintf(buf, n, fmt, ap);
        if (w >= n) {
                w = vsnprintf(buf, n, fmt, ap);   /* ap already consumed */
        }
        va_end(ap);
        return w;
}

int ok_r05t_restart(char *buf, int n, const char *fmt, ...)
{
        va_list ap;
        int w;
        va_start(ap, fmt);
        w = vsnprintf(buf, n, fmt, ap);
        va_end(ap);
        if (w >= n) {
                va_start(ap, fmt);
                w = vsnprintf(buf, n, fmt, ap);
                va_end(ap);
        }
        return w;
}

int ok_r05t_copy(char *buf, int n, const char *fmt, ...)
{
        va_list ap, ap2;
        int w;
        va_start(ap, fmt);
        va_copy(ap2, ap);
        w = vsnprintf(buf, n, fmt, ap);
        if (w >= n) {
                w = vsnprintf(buf, n, fmt, ap2);
        }
        va_end(ap2);
        va_end(ap);
        return w;
}
