/* Controls for R07e (max-plus sibling agreement of DP recurrences).  Self-contained.
 * ok_r07e_{a,b,c}_fwd: one recurrence written three ways (scalar penalties; profile columns; nested MAX) - must agree.
 * bad_r07e_{a,b,c}_fwd: c charges the extension penalty where its siblings charge the open penalty - must be reported. */
#include <float.h>
#define MAX(a, b) (((a) > (b)) ? (a) : (b))
#define MAX3(a, b, c) MAX(MAX(a, b), c)
struct states { float a; float ga; float gb; };
struct aln_param { float gpo; float gpe; float tgpe; float **subm; };
struct aln_mem { struct states *f; struct aln_param *ap; const float *prof1; const unsigned char *seq1; const unsigned char *seq2;
                 int starta; int enda; int startb; int endb; int len_b; int sip; };

#define KERNEL_SCALAR(NAME, OPEN_IN_A)                                                     \
int NAME(struct aln_mem *m)                                                                \
{                                                                                          \
        struct states *s = m->f;                                                           \
        const float gpo = m->ap->gpo, gpe = m->ap->gpe, tgpe = m->ap->tgpe;                \
        float *subp; float pa, pga, pgb, ca; int i, j;                                     \
        for (i = m->starta; i < m->enda; i++) {                                            \
                subp = m->ap->subm[m->seq1[i]];                                            \
                pa = s[m->startb].a; pga = s[m->startb].ga; pgb = s[m->startb].gb;         \
                if (m->startb) { s[m->startb].gb = MAX(pgb - gpe, pa - gpo); }             \
                else { s[m->startb].gb = MAX(pgb, pa) - tgpe; }                            \
                for (j = m->startb + 1; j < m->endb; j++) {                                \
                        ca = s[j].a;                                                       \
                        pa = MAX3(pa, pga - OPEN_IN_A, pgb - gpo);                         \
                        pa += subp[m->seq2[j]];                                            \
                        s[j].a = pa;                                                       \
                        pga = s[j].ga;                                                     \
                        pgb = s[j].gb;                                                     \
                        s[j].gb = MAX(pgb - gpe, ca - gpo);                                \
                        pa = ca;                                                           \
                }                                                                          \
        }                                                                                  \
        return 0;                                                                          \
}

KERNEL_SCALAR(ok_r07e_a_fwd, gpo)
KERNEL_SCALAR(bad_r07e_a_fwd, gpo)
KERNEL_SCALAR(bad_r07e_b_fwd, gpo)
KERNEL_SCALAR(bad_r07e_c_fwd, gpe)

/* same recurrence, penalties read from profile columns (negated, pre-scaled) */
int ok_r07e_b_fwd(struct aln_mem *m)
{
        struct states *s = m->f;
        const float *prof1 = m->prof1;
        const float open = m->ap->gpo * (float)m->sip;
        float pa, pga, pgb, ca; int i, j;
        for (i = m->starta; i < m->enda; i++) {
                prof1 += 64;
                pa = s[m->startb].a; pga = s[m->startb].ga; pgb = s[m->startb].gb;
                if (m->startb) { s[m->startb].gb = MAX(pgb + prof1[28], pa + prof1[27]); }
                else { s[m->startb].gb = MAX(pgb, pa) + prof1[29]; }
                for (j = m->startb + 1; j < m->endb; j++) {
                        ca = s[j].a;
                        pa = MAX3(pa, pga - open, pgb + prof1[-37]);
                        pa += prof1[32 + m->seq2[j]];
                        s[j].a = pa;
                        pga = s[j].ga;
                        pgb = s[j].gb;
                        s[j].gb = MAX(pgb + prof1[28], ca + prof1[27]);
                        pa = ca;
                }
        }
        return 0;
}

/* same recurrence, the three-way maximum factored differently and the border test inverted */
int ok_r07e_c_fwd(struct aln_mem *m)
{
        struct states *s = m->f;
        const float gpo = m->ap->gpo, gpe = m->ap->gpe, tgpe = m->ap->tgpe;
        const int left_is_terminal = (m->startb == 0);
        float *subp; float pa, pga, pgb, ca, best; int i, j;
        for (i = m->starta; i < m->enda; i++) {
                subp = m->ap->subm[m->seq1[i]];
                pa = s[m->startb].a; pga = s[m->startb].ga; pgb = s[m->startb].gb;
                if (left_is_terminal) { s[m->startb].gb = MAX(pgb - tgpe, pa - tgpe); }
                else { s[m->startb].gb = MAX(pa - gpo, pgb - gpe); }
                for (j = m->startb + 1; j < m->endb; j++) {
                        ca = s[j].a;
                        best = MAX(pga, pgb) - gpo;
                        pa = MAX(best, pa) + subp[m->seq2[j]];
                        s[j].a = pa;
                        pga = s[j].ga;
                        pgb = s[j].gb;
                        s[j].gb = MAX(ca - gpo, pgb - gpe);
                        pa = ca;
                }
        }
        return 0;
}
