/* controls for C16: process-wide state and per-call objects */
#include <stdlib.h>
#define OK 0
#define FAIL 1
void error(const char *loc, const char *fmt, ...);
#define ERROR_MSG(...) do { error("x", __VA_ARGS__); goto ERROR; } while (0)
#define RUN(EXP) do { if ((EXP) != OK) { ERROR_MSG("failed"); } } while (0)
static int calls;
static const int ctl_table[4] = {1, 2, 3, 4};
int ctl_counter(void) { calls++; return calls; }
int ctl_const_table(int i) { return ctl_table[i & 3]; }
int ctl_cache(int x) { static int last; int r = last; last = x; return r; }
int step(char *b);
int bad_r16d_leak_on_error(int n)
{
        char *buf = NULL;
        buf = malloc(n);
        RUN(step(buf));
        free(buf);
        return OK;
ERROR:
        return FAIL;                                    /* buf is still allocated */
}
int ok_r16d_released(int n)
{
        char *buf = NULL;
        buf = malloc(n);
        RUN(step(buf));
        free(buf);
        return OK;
ERROR:
        if (buf) {
                free(buf);
        }
        return FAIL;
}

/* R16g: an owning local overwritten while it still holds its object */
struct cand { float score; };
struct cand *next_cand(int i);
float bad_r16g_best_overwritten(int n)
{
        struct cand *best = NULL, *c = NULL;
        float s;
        int i;
        for (i = 0; i < n; i++) {
                c = next_cand(i);
                if (!best) {
                        best = c;
                } else if (best->score > c->score) {
                        best = c;                       /* the previous best is lost */
                } else {
                        free(c);
                }
        }
        s = best->score;
        free(best);
        return s;
}
float ok_r16g_best_swapped(int n)
{
        struct cand *best = NULL, *c = NULL, *tmp = NULL;
        float s;
        int i;
        for (i = 0; i < n; i++) {
                c = next_cand(i);
                if (!best) {
                        best = c;
                } else if (best->score > c->score) {
                        tmp = best;
                        best = c;
                        free(tmp);
                } else {
                        free(c);
                }
        }
        s = best->score;
        free(best);
        return s;
}

/* R16h: errno read without a failed call */
#include <errno.h>
#include <sys/stat.h>
int bad_r16h_stale_errno(const char *name)
{
        struct st_dummy { int x; } d; struct stat sb;
        (void) d;
        stat(name, &sb);
        if (errno == ENOENT) {                          /* stat may have succeeded: errno is whatever it was before */
                return 0;
        }
        return 1;
}
int ok_r16h_failure_branch(const char *name)
{
        struct stat sb;
        if (stat(name, &sb) != 0) {
                if (errno == ENOENT) {
                        return 0;
                }
                return -1;
        }
        return 1;
}
