// kfacts — engine A of the kalign static verifier.
//
// A libTooling front end that emits *facts*, never verdicts: for one translation
// unit it serialises, as JSON,
//   * the macros defined in non-system files (name, body text, location),
//   * record types with their fields, file-scope variables, function prototypes,
//   * for every function defined in a non-system file: the full statement /
//     expression tree with resolved declarations, canonical types, constant
//     values, macro-expansion provenance and OpenMP directives, and
//   * clang's CFG of the function (blocks, elements as AST node ids, edges).
// All rules live in /verif/kcheck (Python) and work on this resolved program.
//
// usage: kfacts <out.json> <file.c> -- <compile flags>
#include "clang/AST/ASTConsumer.h"
#include "clang/AST/ASTContext.h"
#include "clang/AST/Expr.h"
#include "clang/AST/OpenMPClause.h"
#include "clang/AST/StmtOpenMP.h"
#include "clang/Analysis/CFG.h"
#include "clang/Frontend/CompilerInstance.h"
#include "clang/Frontend/FrontendAction.h"
#include "clang/Lex/Lexer.h"
#include "clang/Lex/MacroInfo.h"
#include "clang/Lex/PPCallbacks.h"
#include "clang/Lex/Preprocessor.h"
#include "clang/Tooling/CompilationDatabase.h"
#include "clang/Tooling/Tooling.h"
#include "llvm/Support/JSON.h"
#include "llvm/Support/raw_ostream.h"
#include <map>
#include <string>

using namespace clang;
namespace json = llvm::json;

static std::string OutPath;

namespace {

struct Dumper {
  ASTContext &Ctx;
  SourceManager &SM;
  const LangOptions &LO;
  std::map<const Stmt *, int> StmtIds;
  std::map<const Decl *, int> DeclIds;
  int NextStmt = 0, NextDecl = 0;

  Dumper(ASTContext &C) : Ctx(C), SM(C.getSourceManager()), LO(C.getLangOpts()) {}

  int declId(const Decl *D) {
    D = D->getCanonicalDecl();
    auto It = DeclIds.find(D);
    if (It != DeclIds.end()) return It->second;
    return DeclIds[D] = NextDecl++;
  }

  std::string fileLoc(SourceLocation L) {
    if (L.isInvalid()) return "";
    PresumedLoc P = SM.getPresumedLoc(SM.getExpansionLoc(L));
    if (P.isInvalid()) return "";
    return std::string(P.getFilename()) + ":" + std::to_string(P.getLine()) + ":" +
           std::to_string(P.getColumn());
  }

  bool inUserFile(SourceLocation L) {
    if (L.isInvalid()) return false;
    SourceLocation E = SM.getExpansionLoc(L);
    return !SM.isInSystemHeader(E) && !SM.isInSystemMacro(L) &&
           SM.getFileID(E).isValid() &&
           !SM.isWrittenInBuiltinFile(E) && !SM.isWrittenInCommandLineFile(E) &&
           !SM.isWrittenInScratchSpace(E);
  }

  std::string ty(QualType T) {
    if (T.isNull()) return "";
    return T.getCanonicalType().getAsString();
  }

  json::Array macroChain(SourceLocation L, bool &IsArg) {
    json::Array A;
    IsArg = L.isMacroID() && SM.isMacroArgExpansion(L);
    int Guard = 0;
    while (L.isMacroID() && Guard++ < 32) {
      A.push_back(Lexer::getImmediateMacroName(L, SM, LO).str());
      L = SM.getImmediateMacroCallerLoc(L);
    }
    return A;
  }

  json::Value node(const Stmt *S) {
    if (!S) return nullptr;
    json::Object O;
    int Id = NextStmt++;
    StmtIds[S] = Id;
    O["id"] = Id;
    O["k"] = S->getStmtClassName();
    O["loc"] = fileLoc(S->getBeginLoc());
    std::string EndL = fileLoc(S->getEndLoc());
    if (!EndL.empty()) O["end"] = EndL;
    if (S->getBeginLoc().isMacroID()) {
      bool IsArg = false;
      O["mac"] = macroChain(S->getBeginLoc(), IsArg);
      if (IsArg) O["marg"] = true;
    }
    if (const auto *E = dyn_cast<Expr>(S)) {
      O["ty"] = ty(E->getType());
      if (!E->isValueDependent() && !E->getType().isNull() &&
          E->getType()->isIntegralOrEnumerationType() && !isa<InitListExpr>(E)) {
        Expr::EvalResult R;
        if (E->EvaluateAsInt(R, Ctx, Expr::SE_NoSideEffects))
          O["cv"] = (int64_t)R.Val.getInt().getExtValue();
      }
    }

    // kind-specific attributes ------------------------------------------------
    bool GenericChildren = true;
    if (const auto *D = dyn_cast<DeclRefExpr>(S)) {
      const ValueDecl *VD = D->getDecl();
      O["name"] = VD->getNameAsString();
      O["did"] = declId(VD);
      if (const auto *PV = dyn_cast<ParmVarDecl>(VD)) {
        O["dk"] = "Parm";
        O["pi"] = (int)PV->getFunctionScopeIndex();
      } else if (const auto *V = dyn_cast<VarDecl>(VD)) {
        O["dk"] = "Var";
        if (V->hasGlobalStorage()) O["g"] = true;
        if (V->isFileVarDecl()) O["fs"] = true;
      } else if (isa<FunctionDecl>(VD)) {
        O["dk"] = "Fn";
      } else if (isa<EnumConstantDecl>(VD)) {
        O["dk"] = "Enum";
      } else {
        O["dk"] = "Other";
      }
    } else if (const auto *M = dyn_cast<MemberExpr>(S)) {
      O["field"] = M->getMemberDecl()->getNameAsString();
      if (const auto *FD = dyn_cast<FieldDecl>(M->getMemberDecl())) {
        O["rec"] = FD->getParent()->getNameAsString();
        O["fi"] = (int)FD->getFieldIndex();
      }
      O["arrow"] = M->isArrow();
    } else if (const auto *I = dyn_cast<IntegerLiteral>(S)) {
      O["v"] = (int64_t)I->getValue().getLimitedValue();
    } else if (const auto *C = dyn_cast<CharacterLiteral>(S)) {
      O["v"] = (int64_t)C->getValue();
    } else if (const auto *F = dyn_cast<FloatingLiteral>(S)) {
      O["v"] = F->getValueAsApproximateDouble();
    } else if (const auto *St = dyn_cast<StringLiteral>(S)) {
      O["s"] = St->getBytes().str();
    } else if (const auto *B = dyn_cast<BinaryOperator>(S)) {
      O["op"] = B->getOpcodeStr().str();
    } else if (const auto *U = dyn_cast<UnaryOperator>(S)) {
      O["op"] = UnaryOperator::getOpcodeStr(U->getOpcode()).str();
      O["postfix"] = U->isPostfix();
    } else if (const auto *C = dyn_cast<CastExpr>(S)) {
      O["ck"] = C->getCastKindName();
    } else if (const auto *UE = dyn_cast<UnaryExprOrTypeTraitExpr>(S)) {
      O["trait"] = (int)UE->getKind();
      if (UE->isArgumentType()) O["of"] = ty(UE->getArgumentType());
      else O["of"] = ty(UE->getArgumentExpr()->getType());
    } else if (const auto *G = dyn_cast<GenericSelectionExpr>(S)) {
      GenericChildren = false;
      json::Array C;
      if (!G->isResultDependent()) C.push_back(node(G->getResultExpr()));
      O["c"] = std::move(C);
    } else if (const auto *L = dyn_cast<LabelStmt>(S)) {
      O["label"] = L->getDecl()->getNameAsString();
    } else if (const auto *Go = dyn_cast<GotoStmt>(S)) {
      O["label"] = Go->getLabel()->getNameAsString();
    } else if (const auto *DS = dyn_cast<DeclStmt>(S)) {
      GenericChildren = false;
      json::Array Ds;
      for (const Decl *D : DS->decls()) {
        json::Object DO;
        DO["dkind"] = D->getDeclKindName();
        if (const auto *V = dyn_cast<VarDecl>(D)) {
          DO["name"] = V->getNameAsString();
          DO["did"] = declId(V);
          DO["ty"] = ty(V->getType());
          DO["loc"] = fileLoc(V->getLocation());
          if (V->isStaticLocal()) DO["static"] = true;
          if (V->getType().isConstQualified()) DO["const"] = true;
          if (const auto *AT = Ctx.getAsConstantArrayType(V->getType()))
            DO["arr"] = (int64_t)AT->getSize().getLimitedValue();
          if (V->hasInit()) DO["init"] = node(V->getInit());
        }
        Ds.push_back(std::move(DO));
      }
      O["decls"] = std::move(Ds);
    }

    if (const auto *CE = dyn_cast<CallExpr>(S)) {
      if (const FunctionDecl *FD = CE->getDirectCallee()) {
        O["callee"] = FD->getNameAsString();
        if (FD->getBuiltinID()) O["builtin"] = true;
      }
    }

    // control statements get named roles (clang's child layout is variable)
    if (const auto *If = dyn_cast<IfStmt>(S)) {
      GenericChildren = false;
      O["cond"] = node(If->getCond());
      O["then"] = node(If->getThen());
      O["else"] = node(If->getElse());
    } else if (const auto *W = dyn_cast<WhileStmt>(S)) {
      GenericChildren = false;
      O["cond"] = node(W->getCond());
      O["body"] = node(W->getBody());
    } else if (const auto *Do = dyn_cast<DoStmt>(S)) {
      GenericChildren = false;
      O["body"] = node(Do->getBody());
      O["cond"] = node(Do->getCond());
    } else if (const auto *Fo = dyn_cast<ForStmt>(S)) {
      GenericChildren = false;
      O["init"] = node(Fo->getInit());
      O["cond"] = node(Fo->getCond());
      O["inc"] = node(Fo->getInc());
      O["body"] = node(Fo->getBody());
    } else if (const auto *Sw = dyn_cast<SwitchStmt>(S)) {
      GenericChildren = false;
      O["cond"] = node(Sw->getCond());
      O["body"] = node(Sw->getBody());
    } else if (const auto *Ca = dyn_cast<CaseStmt>(S)) {
      GenericChildren = false;
      O["lhs"] = node(Ca->getLHS());
      O["sub"] = node(Ca->getSubStmt());
    } else if (const auto *De = dyn_cast<DefaultStmt>(S)) {
      GenericChildren = false;
      O["sub"] = node(De->getSubStmt());
    } else if (const auto *La = dyn_cast<LabelStmt>(S)) {
      GenericChildren = false;
      O["sub"] = node(La->getSubStmt());
    } else if (const auto *Co = dyn_cast<ConditionalOperator>(S)) {
      GenericChildren = false;
      O["cond"] = node(Co->getCond());
      O["then"] = node(Co->getTrueExpr());
      O["else"] = node(Co->getFalseExpr());
    } else if (const auto *OD = dyn_cast<OMPExecutableDirective>(S)) {
      GenericChildren = false;
      O["omp"] = llvm::omp::getOpenMPDirectiveName(OD->getDirectiveKind()).str();
      json::Array Cl;
      for (const OMPClause *C : OD->clauses()) {
        if (!C) continue;
        json::Object CO;
        CO["kind"] = llvm::omp::getOpenMPClauseName(C->getClauseKind()).str();
        CO["implicit"] = C->isImplicit();
        json::Array CE;
        for (const Stmt *Ch : const_cast<OMPClause *>(C)->children())
          if (Ch) CE.push_back(node(Ch));
        CO["exprs"] = std::move(CE);
        Cl.push_back(std::move(CO));
      }
      O["clauses"] = std::move(Cl);
      const Stmt *B = OD->hasAssociatedStmt() ? OD->getAssociatedStmt() : nullptr;
      while (const auto *CS = dyn_cast_or_null<CapturedStmt>(B)) B = CS->getCapturedStmt();
      O["body"] = node(B);
    }

    if (GenericChildren) {
      json::Array C;
      for (const Stmt *Ch : S->children()) C.push_back(node(Ch));
      if (!C.empty()) O["c"] = std::move(C);
    }
    return json::Value(std::move(O));
  }

  json::Value cfg(const FunctionDecl *FD) {
    CFG::BuildOptions BO;
    BO.setAllAlwaysAdd();
    BO.AddEHEdges = false;
    std::unique_ptr<CFG> G = CFG::buildCFG(FD, FD->getBody(), &Ctx, BO);
    if (!G) return nullptr;
    json::Object O;
    O["entry"] = (int)G->getEntry().getBlockID();
    O["exit"] = (int)G->getExit().getBlockID();
    json::Array Bs;
    for (const CFGBlock *B : *G) {
      json::Object BOb;
      BOb["id"] = (int)B->getBlockID();
      json::Array El;
      for (const CFGElement &E : *B) {
        if (auto CS = E.getAs<CFGStmt>()) {
          auto It = StmtIds.find(CS->getStmt());
          if (It != StmtIds.end()) El.push_back(It->second);
          else if (const auto *DS = dyn_cast<DeclStmt>(CS->getStmt())) {
            // CFG splits "int a, b;" into synthetic single-decl statements
            if (DS->isSingleDecl())
              El.push_back("d" + std::to_string(declId(DS->getSingleDecl())));
          }
        }
      }
      BOb["el"] = std::move(El);
      if (const Stmt *T = B->getTerminatorStmt()) {
        auto It = StmtIds.find(T);
        if (It != StmtIds.end()) BOb["term"] = It->second;
      }
      if (const Stmt *L = B->getLabel()) {
        auto It = StmtIds.find(L);
        if (It != StmtIds.end()) BOb["label"] = It->second;
      }
      json::Array Su;
      for (auto SI = B->succ_begin(); SI != B->succ_end(); ++SI) {
        // edges clang proves infeasible (the back edge of do{}while(0)) are dropped
        if (const CFGBlock *SB = SI->getReachableBlock()) Su.push_back((int)SB->getBlockID());
        else Su.push_back(nullptr);
      }
      BOb["succ"] = std::move(Su);
      if (B->hasNoReturnElement()) BOb["noreturn"] = true;
      Bs.push_back(std::move(BOb));
    }
    O["blocks"] = std::move(Bs);
    return json::Value(std::move(O));
  }
};

struct MacroRec : PPCallbacks {
  Preprocessor &PP;
  json::Array &Out;
  MacroRec(Preprocessor &P, json::Array &O) : PP(P), Out(O) {}
  void MacroDefined(const Token &Name, const MacroDirective *MD) override {
    SourceManager &SM = PP.getSourceManager();
    SourceLocation L = Name.getLocation();
    if (L.isInvalid() || SM.isInSystemHeader(L) || SM.isWrittenInBuiltinFile(L)) return;
    bool CmdLine = SM.isWrittenInCommandLineFile(L);
    const MacroInfo *MI = MD->getMacroInfo();
    json::Object O;
    O["name"] = Name.getIdentifierInfo()->getName().str();
    PresumedLoc P = SM.getPresumedLoc(L);
    O["loc"] = P.isValid() ? (std::string(P.getFilename()) + ":" + std::to_string(P.getLine()))
                           : std::string();
    O["cmdline"] = CmdLine;
    O["fnlike"] = MI->isFunctionLike();
    std::string Body;
    for (const Token &T : MI->tokens()) {
      if (!Body.empty() && T.hasLeadingSpace()) Body += " ";
      Body += PP.getSpelling(T);
    }
    O["body"] = Body;
    Out.push_back(std::move(O));
  }
};

struct Consumer : ASTConsumer {
  json::Array &Macros;
  std::string MainFile;
  Consumer(json::Array &M, std::string F) : Macros(M), MainFile(std::move(F)) {}

  void HandleTranslationUnit(ASTContext &Ctx) override {
    Dumper D(Ctx);
    json::Object Root;
    Root["main"] = MainFile;
    json::Array Records, Globals, Protos, Funcs, Enums;
    for (const Decl *Dl : Ctx.getTranslationUnitDecl()->decls()) {
      if (!D.inUserFile(Dl->getLocation())) continue;
      if (const auto *RD = dyn_cast<RecordDecl>(Dl)) {
        if (!RD->isCompleteDefinition()) continue;
        json::Object O;
        O["name"] = RD->getNameAsString();
        O["loc"] = D.fileLoc(RD->getLocation());
        O["union"] = RD->isUnion();
        json::Array Fs;
        for (const FieldDecl *F : RD->fields()) {
          json::Object FO;
          FO["name"] = F->getNameAsString();
          FO["ty"] = D.ty(F->getType());
          FO["fi"] = (int)F->getFieldIndex();
          FO["loc"] = D.fileLoc(F->getLocation());
          if (const auto *AT = Ctx.getAsConstantArrayType(F->getType()))
            FO["arr"] = (int64_t)AT->getSize().getLimitedValue();
          Fs.push_back(std::move(FO));
        }
        O["fields"] = std::move(Fs);
        Records.push_back(std::move(O));
      } else if (const auto *ED = dyn_cast<EnumDecl>(Dl)) {
        json::Object O;
        O["name"] = ED->getNameAsString();
        json::Array Cs;
        for (const EnumConstantDecl *C : ED->enumerators()) {
          json::Object CO;
          CO["name"] = C->getNameAsString();
          CO["v"] = (int64_t)C->getInitVal().getExtValue();
          Cs.push_back(std::move(CO));
        }
        O["consts"] = std::move(Cs);
        Enums.push_back(std::move(O));
      } else if (const auto *VD = dyn_cast<VarDecl>(Dl)) {
        json::Object O;
        O["name"] = VD->getNameAsString();
        O["did"] = D.declId(VD);
        O["ty"] = D.ty(VD->getType());
        O["loc"] = D.fileLoc(VD->getLocation());
        O["const"] = VD->getType().isConstQualified() ||
                     (VD->getType()->isArrayType() &&
                      Ctx.getBaseElementType(VD->getType()).isConstQualified());
        O["static"] = VD->getStorageClass() == SC_Static;
        O["extern"] = VD->getStorageClass() == SC_Extern;
        O["def"] = VD->isThisDeclarationADefinition() != VarDecl::DeclarationOnly;
        if (VD->hasInit()) O["init"] = D.node(VD->getInit());
        Globals.push_back(std::move(O));
      } else if (const auto *FD = dyn_cast<FunctionDecl>(Dl)) {
        json::Object O;
        O["name"] = FD->getNameAsString();
        O["did"] = D.declId(FD);
        O["loc"] = D.fileLoc(FD->getLocation());
        O["ret"] = D.ty(FD->getReturnType());
        O["static"] = FD->getStorageClass() == SC_Static || !FD->isExternallyVisible();
        O["inline"] = FD->isInlineSpecified();
        json::Array Ps;
        for (const ParmVarDecl *P : FD->parameters()) {
          json::Object PO;
          PO["name"] = P->getNameAsString();
          PO["ty"] = D.ty(P->getType());
          PO["did"] = D.declId(P);
          Ps.push_back(std::move(PO));
        }
        O["params"] = std::move(Ps);
        if (FD->doesThisDeclarationHaveABody()) {
          O["end"] = D.fileLoc(FD->getEndLoc());
          O["body"] = D.node(FD->getBody());
          O["cfg"] = D.cfg(FD);
          Funcs.push_back(std::move(O));
        } else {
          Protos.push_back(std::move(O));
        }
      }
    }
    Root["records"] = std::move(Records);
    Root["enums"] = std::move(Enums);
    Root["globals"] = std::move(Globals);
    Root["protos"] = std::move(Protos);
    Root["functions"] = std::move(Funcs);
    Root["macros"] = std::move(Macros);
    std::error_code EC;
    llvm::raw_fd_ostream OS(OutPath, EC);
    if (EC) {
      llvm::errs() << "kfacts: cannot write " << OutPath << ": " << EC.message() << "\n";
      exit(3);
    }
    OS << json::Value(std::move(Root)) << "\n";
  }
};

struct Action : ASTFrontendAction {
  json::Array Macros;
  std::unique_ptr<ASTConsumer> CreateASTConsumer(CompilerInstance &CI, StringRef File) override {
    CI.getPreprocessor().addPPCallbacks(
        std::make_unique<MacroRec>(CI.getPreprocessor(), Macros));
    return std::make_unique<Consumer>(Macros, File.str());
  }
};

} // namespace

int main(int argc, const char **argv) {
  if (argc < 4) {
    llvm::errs() << "usage: kfacts <out.json> <file.c> -- <flags>\n";
    return 2;
  }
  OutPath = argv[1];
  std::string File = argv[2];
  std::vector<std::string> Flags;
  int i = 3;
  if (std::string(argv[i]) == "--") ++i;
  for (; i < argc; ++i) Flags.push_back(argv[i]);
  clang::tooling::FixedCompilationDatabase DB(".", Flags);
  clang::tooling::ClangTool Tool(DB, {File});
  int RC = Tool.run(clang::tooling::newFrontendActionFactory<Action>().get());
  return RC ? 3 : 0;
}
