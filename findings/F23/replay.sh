#!/bin/bash
# F23 (C14): the same nucleotide sequences, spelled with T and with U, get a different kind and a different gap pattern.
# usage: replay.sh <kalign binary>     exit 1 = the defect shows (as on the pinned tree), 0 = it does not
k=${1:-/repo/_build/src/kalign}; d=$(dirname "$0"); t=$(mktemp -d)
$k -i $d/t.fa -f fasta -o $t/t.out < /dev/null > /dev/null 2> $t/t.log; $k -i $d/u.fa -f fasta -o $t/u.out < /dev/null > /dev/null 2> $t/u.log
grep -h "Detected" $t/t.log $t/u.log
python3 - $t <<'PY'
import sys
def pat(f):
    r=[]
    for l in open(f):
        if l.startswith('>'): r.append('')
        else: r[-1]+=''.join('-' if c=='-' else 'x' for c in l.strip())
    return r
a,b=pat(sys.argv[1]+'/t.out'),pat(sys.argv[1]+'/u.out')
print("same gap pattern:",a==b)
sys.exit(0 if a==b else 1)
PY
rc=$?; rm -rf $t; exit $rc
