#!/bin/bash
# F24 (C13): a third of the residues are a protein-only letter (Z, B or X), the rest are A/C/G/T/N: kalign detects DNA.
# L.fa is the control (a third L => protein).  usage: replay.sh <kalign binary>; exit 1 = the defect shows, 0 = it does not
k=${1:-/repo/_build/src/kalign}; d=$(dirname "$0"); rc=0
for v in Z B X L; do
  r=$($k -i $d/$v.fa -f fasta -o /dev/null < /dev/null 2>&1 | grep -io "detected [a-z]* sequences")
  echo "$v.fa: $r"
  case "$r" in *rotein*) ;; *) rc=1;; esac
done
exit $rc
