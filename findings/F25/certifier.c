/*
 * C07 demonstration harness.
 *
 * Generates pairs (a,b) where b is derived from a by substitutions and
 * internal indels, computes the optimum alignment with an independent
 * full-matrix three-state DP (kalign's scoring model: an internal gap of
 * length L costs 2*gpo + (L-1)*gpe, gap-in-a and gap-in-b may not be adjacent),
 * certifies that the optimum is unique by a margin (every (cell,state) that is
 * not on the optimal path has forward+backward score <= optimum - MARGIN, where
 * alternatives get the most favourable terminal gap pricing), and then
 * requires kalign to return exactly that alignment.
 *
 * Only cases whose optimum has no terminal gaps are used, so that the optimum's
 * own score does not depend on terminal gap pricing.
 *
 * usage: harness type gpo gpe tgpe ncases seed minlen maxlen ambfrac copiesA copiesB threads maxindel [verbose]
 *   type: dna | dnai | prot ; gpo/gpe/tgpe are passed to kalign() as user penalties.
 *
 * NOTE: kalign's Hirschberg meetup prices a gap-in-b that is split at a middle
 * row with tgpe instead of gpe whenever the sub-problem touches column 0; to
 * keep the reference model exact the demos use tgpe == gpe.
 * exit 0: all certified cases reproduced, 1: at least one violation, 2: setup problem
 */
#include <stdio.h>
#include <stdlib.h>
#include <string.h>
#include <float.h>
#include <math.h>

#include "kalign/kalign.h"

#define NEG (-1.0e30)
#define MARGIN 1.0

static const char prot_letters[] = "ARNDCQEGHILKMFPSTWYVBZX";
static const int corblosum[23][23] = {
        /*A  R  N  D  C  Q  E  G  H  I  L  K  M  F  P  S  T  W  Y  V  B  Z  X*/
        {5,-1,-1,-2,-2,-1,-1,0,-2,-1,-1,-1,0,-2,-1,1,0,-2,-2,0,-2,-1,0},
        {-1,6,0,-1,-3,1,1,-2,0,-2,-2,3,-1,-3,-1,-1,-1,-1,-1,-2,0,1,-1},
        {-1,0,6,2,-3,1,0,0,0,-3,-3,0,-2,-2,-1,1,0,-2,-1,-2,4,0,-1},
        {-2,-1,2,7,-3,1,2,-1,-1,-3,-3,0,-3,-3,-1,0,-1,-3,-2,-3,5,2,-1},
        {-2,-3,-3,-3,12,-3,-4,-3,-2,-2,-3,-3,-2,-1,-3,-2,-2,-3,-2,-2,-3,-3,-2},
        {-1,1,1,1,-3,5,2,-2,0,-2,-2,1,0,-2,-1,0,0,-1,-1,-2,1,3,0},
        {-1,1,0,2,-4,2,6,-2,-1,-3,-3,1,-2,-3,0,0,-1,-2,-2,-2,1,4,-1},
        {0,-2,0,-1,-3,-2,-2,7,-2,-4,-4,-2,-3,-3,-2,0,-2,-3,-3,-3,-1,-2,-1},
        {-2,0,0,-1,-2,0,-1,-2,10,-3,-3,0,-2,-2,-2,-1,-1,-2,1,-3,0,0,-1},
        {-1,-2,-3,-3,-2,-2,-3,-4,-3,5,2,-2,2,0,-3,-2,-1,-1,-1,3,-3,-2,-1},
        {-1,-2,-3,-3,-3,-2,-3,-4,-3,2,5,-2,3,1,-3,-3,-2,0,-1,1,-3,-2,-1},
        {-1,3,0,0,-3,1,1,-2,0,-2,-2,5,-1,-3,-1,0,0,-2,-2,-2,0,1,-1},
        {0,-1,-2,-3,-2,0,-2,-3,-2,2,3,-1,6,1,-2,-1,-1,0,-1,1,-2,-1,0},
        {-2,-3,-2,-3,-1,-2,-3,-3,-2,0,1,-3,1,7,-3,-2,-2,2,3,0,-3,-3,-1},
        {-1,-1,-1,-1,-3,-1,0,-2,-2,-3,-3,-1,-2,-3,9,0,-1,-2,-2,-2,-1,-1,-1},
        {1,-1,1,0,-2,0,0,0,-1,-2,-3,0,-1,-2,0,4,2,-2,-2,-1,0,0,0},
        {0,-1,0,-1,-2,0,-1,-2,-1,-1,-2,0,-1,-2,-1,2,5,-1,-1,0,0,0,0},
        {-2,-1,-2,-3,-3,-1,-2,-3,-2,-1,0,-2,0,2,-2,-2,-1,13,3,-2,-2,-2,-1},
        {-2,-1,-1,-2,-2,-1,-2,-3,1,-1,-1,-2,-1,3,-2,-2,-1,3,9,-1,-2,-2,-1},
        {0,-2,-2,-3,-2,-2,-2,-3,-3,3,1,-2,1,0,-2,-1,0,-2,-1,4,-3,-2,-1},
        {-2,0,4,5,-3,1,1,-1,0,-3,-3,0,-2,-3,-1,0,0,-2,-2,-3,4,1,-1},
        {-1,1,0,2,-3,3,4,-2,0,-2,-2,1,-1,-3,-1,0,0,-2,-2,-2,1,4,-1},
        {0,-1,-1,-1,-2,0,-1,-1,-1,-1,-1,-1,0,-1,-1,0,0,-1,-1,-1,-1,-1,-1},
};

static int is_prot;
static int maxindel = 4;
static double GPO, GPE, TGPE;

static int code_of(char c)
{
        if(is_prot){
                const char* p = strchr(prot_letters, c);
                return (int)(p - prot_letters);
        }
        switch(c){
        case 'A': return 0;
        case 'C': return 1;
        case 'G': return 2;
        case 'T': return 3;
        default:  return 4; /* N */
        }
}

static double sc(char x, char y)
{
        int i = code_of(x);
        int j = code_of(y);
        if(is_prot){
                return (double) corblosum[i][j];
        }
        return (i == j) ? 5.0 : -4.0;
}

static unsigned long long rng_state;
static unsigned int rnd(void)
{
        rng_state ^= rng_state << 13;
        rng_state ^= rng_state >> 7;
        rng_state ^= rng_state << 17;
        return (unsigned int)(rng_state >> 11);
}
static int rnd_int(int n) { return (int)(rnd() % (unsigned int)n); }
static double rnd_u(void) { return (double)(rnd() % 1000000u) / 1000000.0; }

struct mat {
        int n, m;
        double* M;
        double* GA;
        double* GB;
};
#define IDX(x,i,j) ((i) * ((x)->m + 1) + (j))

static double max2(double a, double b) { return a > b ? a : b; }
static double max3(double a, double b, double c) { return max2(max2(a,b),c); }

static void fill(struct mat* x, const char* a, int n, const char* b, int m)
{
        int i,j;
        x->n = n; x->m = m;
        x->M  = malloc(sizeof(double) * (n+1) * (m+1));
        x->GA = malloc(sizeof(double) * (n+1) * (m+1));
        x->GB = malloc(sizeof(double) * (n+1) * (m+1));
        for(i = 0; i <= n;i++){
                for(j = 0; j <= m;j++){
                        x->M[IDX(x,i,j)] = NEG;
                        x->GA[IDX(x,i,j)] = NEG;
                        x->GB[IDX(x,i,j)] = NEG;
                }
        }
        x->M[IDX(x,0,0)] = 0.0;
        for(j = 1; j <= m;j++){
                x->GA[IDX(x,0,j)] = -TGPE * j;
        }
        for(i = 1; i <= n;i++){
                x->GB[IDX(x,i,0)] = -TGPE * i;
        }
        for(i = 1; i <= n;i++){
                for(j = 1; j <= m;j++){
                        double cga = (i-1 == 0) ? 0.0 : GPO;
                        double cgb = (j-1 == 0) ? 0.0 : GPO;
                        x->M[IDX(x,i,j)] = sc(a[i-1],b[j-1]) + max3(x->M[IDX(x,i-1,j-1)],
                                                                    x->GA[IDX(x,i-1,j-1)] - cga,
                                                                    x->GB[IDX(x,i-1,j-1)] - cgb);
                        if(i == n){
                                x->GA[IDX(x,i,j)] = max2(x->GA[IDX(x,i,j-1)], x->M[IDX(x,i,j-1)]) - TGPE;
                        }else{
                                x->GA[IDX(x,i,j)] = max2(x->GA[IDX(x,i,j-1)] - GPE, x->M[IDX(x,i,j-1)] - GPO);
                        }
                        if(j == m){
                                x->GB[IDX(x,i,j)] = max2(x->GB[IDX(x,i-1,j)], x->M[IDX(x,i-1,j)]) - TGPE;
                        }else{
                                x->GB[IDX(x,i,j)] = max2(x->GB[IDX(x,i-1,j)] - GPE, x->M[IDX(x,i-1,j)] - GPO);
                        }
                }
        }
}

static void free_mat(struct mat* x)
{
        free(x->M); free(x->GA); free(x->GB);
}

static void reverse(const char* s, int n, char* out)
{
        int i;
        for(i = 0; i < n;i++){
                out[i] = s[n-1-i];
        }
        out[n] = 0;
}

/* returns 1 if certified (unique by MARGIN, no terminal gaps); fills ra/rb with the optimum */
static int reference(const char* a, int n, const char* b, int m, char* ra, char* rb, double* opt, double* margin)
{
        struct mat F, R;
        char* ar = malloc(n+1);
        char* br = malloc(m+1);
        unsigned char* on = calloc((size_t)(n+1)*(m+1), 1); /* bit0 M, bit1 GA, bit2 GB */
        int i,j,state,len,ok;
        double best, alt;
        char* ta = malloc(n+m+2);
        char* tb = malloc(n+m+2);

        reverse(a,n,ar);
        reverse(b,m,br);
        fill(&F,a,n,b,m);
        fill(&R,ar,n,br,m);

        best = max3(F.M[IDX(&F,n,m)], F.GA[IDX(&F,n,m)], F.GB[IDX(&F,n,m)]);
        ok = 1;
        if(F.M[IDX(&F,n,m)] != best){
                ok = 0; /* optimum ends in a terminal gap */
        }
        /* traceback (only meaningful if unique; uniqueness is checked below) */
        i = n; j = m; state = 0; len = 0;
        while(ok && (i > 0 || j > 0)){
                if(state == 0){
                        double cga = (i-1 == 0) ? 0.0 : GPO;
                        double cgb = (j-1 == 0) ? 0.0 : GPO;
                        double v = F.M[IDX(&F,i,j)] - sc(a[i-1],b[j-1]);
                        on[IDX(&F,i,j)] |= 1;
                        ta[len] = a[i-1]; tb[len] = b[j-1]; len++;
                        i--; j--;
                        if(i == 0 && j == 0){
                                break;
                        }
                        if(i == 0 || j == 0){
                                ok = 0; /* leading terminal gap */
                                break;
                        }
                        if(v == F.M[IDX(&F,i,j)]){
                                state = 0;
                        }else if(v == F.GA[IDX(&F,i,j)] - cga){
                                state = 1;
                        }else if(v == F.GB[IDX(&F,i,j)] - cgb){
                                state = 2;
                        }else{
                                fprintf(stderr,"traceback error\n");
                                exit(2);
                        }
                }else if(state == 1){
                        double v = F.GA[IDX(&F,i,j)];
                        on[IDX(&F,i,j)] |= 2;
                        ta[len] = '-'; tb[len] = b[j-1]; len++;
                        j--;
                        if(j == 0){ ok = 0; break; }
                        if(v == F.GA[IDX(&F,i,j)] - GPE){
                                state = 1;
                        }else{
                                state = 0;
                        }
                }else{
                        double v = F.GB[IDX(&F,i,j)];
                        on[IDX(&F,i,j)] |= 4;
                        ta[len] = a[i-1]; tb[len] = '-'; len++;
                        i--;
                        if(i == 0){ ok = 0; break; }
                        if(v == F.GB[IDX(&F,i,j)] - GPE){
                                state = 2;
                        }else{
                                state = 0;
                        }
                }
        }
        alt = NEG;
        if(ok){
                double through_max = NEG;
                for(i = 0; i <= n;i++){
                        for(j = 0; j <= m;j++){
                                double t;
                                if(i >= 1 && j >= 1){
                                        t = F.M[IDX(&F,i,j)] + R.M[IDX(&R,n-i+1,m-j+1)] - sc(a[i-1],b[j-1]);
                                        through_max = max2(through_max,t);
                                        if(!(on[IDX(&F,i,j)] & 1)){
                                                alt = max2(alt,t);
                                        }
                                }
                                if(j >= 1){
                                        t = F.GA[IDX(&F,i,j)] + R.GA[IDX(&R,n-i,m-j+1)];
                                        if(i == 0 || i == n){
                                                t += TGPE;
                                        }
                                        through_max = max2(through_max,t);
                                        if(!(on[IDX(&F,i,j)] & 2)){
                                                alt = max2(alt,t);
                                        }
                                }
                                if(i >= 1){
                                        t = F.GB[IDX(&F,i,j)] + R.GB[IDX(&R,n-i+1,m-j)];
                                        if(j == 0 || j == m){
                                                t += TGPE;
                                        }
                                        through_max = max2(through_max,t);
                                        if(!(on[IDX(&F,i,j)] & 4)){
                                                alt = max2(alt,t);
                                        }
                                }
                        }
                }
                if(fabs(through_max - best) > 1e-6){
                        fprintf(stderr,"internal consistency error: %f vs %f\n", through_max, best);
                        exit(2);
                }
                if(best - alt < MARGIN){
                        ok = 0;
                }
        }
        if(ok){
                for(i = 0; i < len;i++){
                        ra[i] = ta[len-1-i];
                        rb[i] = tb[len-1-i];
                }
                ra[len] = 0;
                rb[len] = 0;
                *opt = best;
                *margin = best - alt;
        }
        free_mat(&F); free_mat(&R);
        free(ar); free(br); free(on); free(ta); free(tb);
        return ok;
}

static char rand_res(double ambfrac)
{
        if(is_prot){
                if(rnd_u() < ambfrac){
                        return 'X';
                }
                return prot_letters[rnd_int(20)];
        }
        if(rnd_u() < ambfrac){
                return 'N';
        }
        return "ACGT"[rnd_int(4)];
}

/* derive b from a: substitutions plus a few internal indels */
static int derive(const char* a, int n, char* b, double ambfrac)
{
        int i, m = 0;
        int nindel = 1 + rnd_int(3);
        int pos[3], len[3], del[3];
        for(i = 0; i < nindel;i++){
                pos[i] = 4 + rnd_int(n - 8 - maxindel);
                len[i] = 1 + rnd_int(maxindel);
                del[i] = rnd_int(2);
        }
        for(i = 0; i < n;i++){
                int k, skip = 0;
                for(k = 0; k < nindel;k++){
                        if(del[k] && i >= pos[k] && i < pos[k] + len[k] && i < n - 4){
                                skip = 1;
                        }
                        if(!del[k] && i == pos[k]){
                                int q;
                                for(q = 0; q < len[k];q++){
                                        b[m++] = rand_res(ambfrac);
                                }
                        }
                }
                if(skip){
                        continue;
                }
                if(rnd_u() < 0.12){
                        b[m++] = rand_res(ambfrac);
                }else{
                        b[m++] = a[i];
                }
        }
        b[m] = 0;
        return m;
}

int main(int argc, char* argv[])
{
        int ncases, minlen, maxlen, ca, cb, threads, verbose = 0;
        int type;
        double ambfrac;
        int c, used = 0, bad = 0;
        if(argc < 14){
                fprintf(stderr,"usage: %s type gpo gpe tgpe ncases seed minlen maxlen ambfrac copiesA copiesB threads maxindel [verbose]\n", argv[0]);
                return 2;
        }
        if(!strcmp(argv[1],"prot")){
                is_prot = 1; type = KALIGN_TYPE_PROTEIN;
        }else if(!strcmp(argv[1],"dna")){
                is_prot = 0; type = KALIGN_TYPE_DNA;
        }else if(!strcmp(argv[1],"dnai")){
                is_prot = 0; type = KALIGN_TYPE_DNA_INTERNAL;
        }else{
                return 2;
        }
        GPO = atof(argv[2]);
        GPE = atof(argv[3]);
        TGPE = atof(argv[4]);
        ncases = atoi(argv[5]);
        rng_state = 88172645463325252ULL ^ (unsigned long long) atoll(argv[6]) * 2654435761ULL;
        minlen = atoi(argv[7]);
        maxlen = atoi(argv[8]);
        ambfrac = atof(argv[9]);
        ca = atoi(argv[10]);
        cb = atoi(argv[11]);
        threads = atoi(argv[12]);
        maxindel = atoi(argv[13]);
        if(argc > 14){
                verbose = atoi(argv[14]);
        }

        for(c = 0; c < ncases;c++){
                int n = minlen + rnd_int(maxlen - minlen + 1);
                char* a = malloc(n+1);
                char* b = malloc(n+8+3*maxindel);
                char* ra = malloc(2*n+64);
                char* rb = malloc(2*n+64);
                int m,i;
                double opt, margin;
                for(i = 0; i < n;i++){
                        a[i] = rand_res(ambfrac);
                }
                a[n] = 0;
                m = derive(a,n,b,ambfrac);
                if(reference(a,n,b,m,ra,rb,&opt,&margin)){
                        char* seqs[8];
                        int lens[8];
                        char** aln = NULL;
                        int aln_len = 0;
                        int ns = 0;
                        int fail = 0;
                        for(i = 0; i < ca;i++){ seqs[ns] = a; lens[ns] = n; ns++; }
                        for(i = 0; i < cb;i++){ seqs[ns] = b; lens[ns] = m; ns++; }
                        if(kalign(seqs,lens,ns,threads,type,(float)GPO,(float)GPE,(float)TGPE,&aln,&aln_len) != 0){
                                fprintf(stderr,"kalign failed\n");
                                return 2;
                        }
                        used++;
                        for(i = 0; i < ca;i++){
                                if(strcmp(aln[i],ra)){ fail = 1; }
                        }
                        for(i = 0; i < cb;i++){
                                if(strcmp(aln[ca+i],rb)){ fail = 1; }
                        }
                        if(fail){
                                bad++;
                                if(bad <= 3 || verbose){
                                        fprintf(stdout,"VIOLATION case %d (optimum %.1f, certified margin %.1f)\n", c, opt, margin);
                                        fprintf(stdout,"  expected a: %s\n  expected b: %s\n", ra, rb);
                                        fprintf(stdout,"  kalign   a: %s\n  kalign   b: %s\n", aln[0], aln[ca]);
                                }
                        }
                        for(i = 0; i < ns;i++){
                                free(aln[i]);
                        }
                        free(aln);
                }
                free(a); free(b); free(ra); free(rb);
        }
        fprintf(stdout,"%s: %d certified cases out of %d generated, %d violations\n", argv[1], used, ncases, bad);
        if(used == 0){
                return 2;
        }
        return bad ? 1 : 0;
}
