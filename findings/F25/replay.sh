#!/bin/bash
# F25 (C07): two proteins whose optimal alignment under the default protein parameters (gpo 5.5, gpe 2, tgpe 1, CorBLOSUM66)
# is unique by a margin of 1.0 (certified by an independent full-matrix three-state DP, see DESIGN section 4); kalign places
# the two-column gap of `a` one column to the left because the meet-in-the-middle step prices the gb->gb candidate of every
# column with tgpe (1) instead of gpe (2) whenever the rectangle starts at column 0.
# usage: replay.sh <kalign binary>;  exit 1 = kalign does not return optimum.afa (as on the pinned tree), 0 = it does
k=${1:-/repo/_build/src/kalign}; d=$(dirname "$0"); t=$(mktemp -d)
$k -i $d/pair.fa -f fasta -o $t/out.afa -n 1 < /dev/null > /dev/null 2>&1
python3 - $t/out.afa $d/optimum.afa <<'PY'
import sys
def rows(f):
    r={}
    for l in open(f):
        if l.startswith('>'): n=l[1:].strip(); r[n]=''
        else: r[n]+=l.strip()
    return r
a,b=rows(sys.argv[1]),rows(sys.argv[2])
print("kalign :",a.get('a')); print("optimum:",b['a'])
sys.exit(0 if a==b else 1)
PY
rc=$?; rm -rf $t; exit $rc
