#!/bin/bash
# F26 (C16): an input that makes a reader fail (residues before the first '>' line) - kalign_read_input returns FAIL and
# leaves the stopwatch it created allocated (DECLARE_TIMER hides an esl_stopwatch_Create()).  usage: replay.sh <kalign binary>
# exit 1 = valgrind reports the stopwatch as definitely lost (as on the pinned tree), 0 = it does not
k=${1:-/repo/_build/src/kalign}; d=$(dirname "$0"); t=$(mktemp -d)
valgrind --leak-check=full --show-leak-kinds=definite $k -i $d/seq_before_name.fa -o /dev/null < /dev/null > $t/log 2>&1
grep -A6 "definitely lost" $t/log | grep -q "esl_stopwatch_Create"; lost=$?
grep -A8 "definitely lost in loss record" $t/log | grep "esl_stopwatch_Create\|kalign_read_input\|kalign_run\|definitely" | head -6
rm -rf $t
[ $lost -eq 0 ] && exit 1 || exit 0
