#!/bin/bash
# F27 (C04): the same three records given as one file, as A.fa (one record) + B.fa (two records), and as B.fa + A.fa.
# kalign_read_input judged the number of records after every file: "A.fa B.fa" was refused ("Only 1 sequence was found"),
# the other two splits were aligned.  usage: replay.sh <kalign binary>
# exit 1 = the split with the single-record file first is refused (as on the pinned tree), 0 = it gives the alignment of the one-file input
k=${1:-/repo/_build/src/kalign}; d=$(dirname "$0"); t=$(mktemp -d)
cat $d/A.fa $d/B.fa > $t/AB.fa
$k $t/AB.fa -o $t/one.fa < /dev/null > $t/l1 2>&1 || { echo "one-file run failed"; rm -rf $t; exit 2; }
$k $d/A.fa $d/B.fa -o $t/split.fa < /dev/null > $t/l2 2>&1; rc=$?
if [ $rc -ne 0 ]; then grep ERROR $t/l2 | head -2; echo "A.fa B.fa: refused (exit $rc)"; rm -rf $t; exit 1; fi
cmp -s $t/one.fa $t/split.fa || { echo "A.fa B.fa: alignment differs from the one-file run"; rm -rf $t; exit 1; }
echo "A.fa B.fa: same alignment as the one-file run"; rm -rf $t; exit 0
