#!/bin/bash
# F28 (C06): kalignfmt - the tool that converts an alignment from one format to another - could not write anything: the reformat
# path never rendered the rows, and kalign_write_msa refuses an msa that is not ALN_STATUS_FINAL.
# usage: replay.sh <directory holding the kalign and kalignfmt binaries>
# exit 1 = a conversion is refused or does not reproduce the alignment (as on the pinned tree), 0 = msf -> clu -> fasta -> msf gives back the rows
b=${1:-/repo/_build/src}; d=$(dirname "$0"); t=$(mktemp -d)
$b/kalignfmt -i $d/aln.msf -f clu -o $t/a.clu < /dev/null > $t/l1 2>&1 || { grep ERROR $t/l1 | head -2; echo "msf -> clu refused"; rm -rf $t; exit 1; }
$b/kalignfmt -i $t/a.clu -f fasta -o $t/a.fa < /dev/null > $t/l2 2>&1 || { echo "clu -> fasta refused"; rm -rf $t; exit 1; }
$b/kalignfmt -i $t/a.fa -f msf -o $t/a.msf < /dev/null > $t/l3 2>&1 || { echo "fasta -> msf refused"; rm -rf $t; exit 1; }
if diff <(grep -v "MSF:" $d/aln.msf) <(grep -v "MSF:" $t/a.msf) > /dev/null; then echo "msf -> clu -> fasta -> msf reproduces the file (date line aside)"; rm -rf $t; exit 0; fi
echo "the round trip changed the alignment"; rm -rf $t; exit 1
