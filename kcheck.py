#!/usr/bin/env python3
"""kcheck — static verifier for the kalign properties (DESIGN.md).

  python3 kcheck.py <ID> [--tier quick|thorough]     decide property <ID> on /repo's working tree
  python3 kcheck.py --replay <replays/x.json>        re-run the rule of a recorded violation
exit 0 = all rule instances hold, 1 = violation (VIOLATION line), 2 = analysis broken.
"""
import argparse
import importlib
import json
import os
import sys
import traceback

sys.path.insert(0, os.path.dirname(os.path.abspath(__file__)))
from kcheck import build  # noqa: E402
from kcheck.build import AnalysisBroken  # noqa: E402
from kcheck.model import Program  # noqa: E402
from kcheck.report import Check  # noqa: E402

QUICK_CONFIGS = ["omp+avx2"]
ALL_CONFIGS = ["omp+avx2", "omp", "serial+avx2", "serial"]


def load_programs(work, tier, repo=None):
    repo = repo or build.REPO
    progs = {}
    for cfg in (QUICK_CONFIGS if tier == "quick" else ALL_CONFIGS):
        units = build.extract(work, repo=repo, config=cfg)
        progs[cfg] = Program(units, cfg, repo)
    return progs


def refound_selftest(ck, mod, work):
    """thorough tier: every defect that was repaired by a `fix:` commit must be reported again by its rule when the
    fix is reverted in a scratch copy of the current tree (rules are live, not just silent).  A fix whose reverse
    patch no longer applies to the current tree is skipped with a note."""
    import re
    import shutil
    import subprocess
    from kcheck.report import KNOWN
    entries = []
    if os.path.exists(KNOWN):
        for line in open(KNOWN):
            m = re.match(r"fixed:\s+property=(\S+)\s+([0-9a-f]{7,40})\s+(R\d+\w*)", line.strip())
            if m and m.group(1) == ck.prop:
                entries.append((m.group(2), m.group(3)))
    for commit, rule in entries:
        copy = os.path.join(work.path, "revert-%s" % commit)
        os.makedirs(copy)
        for sub in ("lib", "src", "README.md", "CMakeLists.txt"):
            src = os.path.join(build.REPO, sub)
            if os.path.isdir(src):
                shutil.copytree(src, os.path.join(copy, sub))
            elif os.path.exists(src):
                shutil.copy(src, os.path.join(copy, sub))
        diff = subprocess.run(["git", "-C", build.REPO, "show", "--format=", commit, "--", "lib", "src"],
                              stdout=subprocess.PIPE, stderr=subprocess.PIPE)
        if diff.returncode != 0 or not diff.stdout:
            ck.info("selftest", "fix %s: commit not available in /repo's history; skipped" % commit)
            continue
        ap = subprocess.run(["patch", "-R", "-p1", "-s", "-f", "-d", copy], input=diff.stdout, stdout=subprocess.PIPE, stderr=subprocess.PIPE)
        if ap.returncode != 0:
            ck.info("selftest", "fix %s: reverse patch does not apply to the current tree; skipped" % commit)
            shutil.rmtree(copy, ignore_errors=True)
            continue
        units = build.extract(work, repo=copy, config="omp+avx2")
        prog = Program(units, "omp+avx2", copy)
        sub = Check(ck.prop, ck.tier, ck.seed)
        sub.known = {}
        sub.work = work
        try:
            mod.run(sub, {"omp+avx2": prog})
        except Exception as e:       # noqa
            sub.broken.append(str(e))
        fired = any(v["rule"] == rule for v in sub.violations)
        ck.controls.append((rule, "revert of fix %s" % commit, fired, True))
        ck.inst("selftest", "fix %s" % commit, "with the fix reverted in a scratch copy, rule %s reports: %s" % (
            rule, [v["key"] for v in sub.violations if v["rule"] == rule][:3]), "omp+avx2")
        if not fired:
            ck.broken.append("self-test: rule %s no longer reports the defect repaired by %s when that fix is reverted" % (rule, commit))
        shutil.rmtree(copy, ignore_errors=True)


def seed_selftest(ck, mod, work):
    """thorough tier: every confirmed seeded change of this property that the property's own check reports (seeded/*/meta.json,
    written by tools/seed_matrix.py) is applied to a scratch copy of the current tree and must be reported again by one of the
    rules recorded for it.  A patch that no longer applies to the current tree is skipped with a note."""
    import glob
    import re
    import shutil
    import subprocess
    for d in sorted(glob.glob(os.path.join(build.VERIF, "seeded", "C*"))):
        try:
            meta = json.load(open(os.path.join(d, "meta.json")))
        except Exception:
            continue
        if meta.get("property") != ck.prop or not meta.get("detected_by_own_property_check"):
            continue
        rules = set()
        for x in meta.get("detected_by", []):
            m = re.match(r"%s\((.*)\)" % ck.prop, x)
            if m:
                rules |= set(m.group(1).split(","))
        sid = os.path.basename(d)
        copy = os.path.join(work.path, "seed-%s" % sid)
        os.makedirs(copy)
        for sub in ("lib", "src", "README.md", "CMakeLists.txt"):
            src = os.path.join(build.REPO, sub)
            if os.path.isdir(src):
                shutil.copytree(src, os.path.join(copy, sub))
            elif os.path.exists(src):
                shutil.copy(src, os.path.join(copy, sub))
        ap = subprocess.run(["patch", "-p1", "-s", "-f", "-d", copy, "-i", os.path.join(d, "patch.diff")], stdout=subprocess.PIPE, stderr=subprocess.PIPE)
        if ap.returncode != 0:
            ck.info("selftest", "seed %s: patch does not apply to the current tree; skipped" % sid)
            shutil.rmtree(copy, ignore_errors=True)
            continue
        try:
            units = build.extract(work, repo=copy, config="omp+avx2")
            prog = Program(units, "omp+avx2", copy)
            sub = Check(ck.prop, ck.tier, ck.seed)
            sub.known = {}
            sub.work = work
            mod.run(sub, {"omp+avx2": prog})
        except Exception as e:       # noqa
            sub = Check(ck.prop, ck.tier, ck.seed)
            sub.broken.append(str(e))
        fired = sorted({v["rule"] for v in sub.violations} & rules) if rules else sorted({v["rule"] for v in sub.violations})
        ck.controls.append(("seed", sid, bool(fired), True))
        ck.inst("selftest", "seed %s" % sid, "with the seeded change applied to a scratch copy: reported by %s" % (fired or "nothing"), "omp+avx2")
        if not fired:
            ck.broken.append("self-test: seeded change %s (recorded as reported by %s) is no longer reported" % (sid, sorted(rules)))
        shutil.rmtree(copy, ignore_errors=True)


def run_property(pid, tier, seed):
    mod = importlib.import_module("kcheck.rules.%s" % pid.lower())
    ck = Check(pid, tier, seed)
    work = build.Workdir()
    try:
        progs = load_programs(work, tier)
        ck.configs = list(progs)
        ck.work = work
        explanation = mod.run(ck, progs)
        if tier == "thorough":
            ck.rule("selftest", "every defect repaired by a fix: commit is reported again by its rule when the fix is reverted in a scratch copy, and every confirmed seeded change of this property is reported again when applied to a scratch copy")
            refound_selftest(ck, mod, work)
            seed_selftest(ck, mod, work)
        return ck.finish(explanation)
    finally:
        work.cleanup()


def main():
    ap = argparse.ArgumentParser()
    ap.add_argument("prop", nargs="?")
    ap.add_argument("--tier", default=os.environ.get("VERIF_TIER", "quick"), choices=["quick", "thorough"])
    ap.add_argument("--replay")
    a = ap.parse_args()
    seed = int(os.environ.get("VERIF_SEED", "0") or 0)
    try:
        if a.replay:
            r = json.load(open(a.replay))
            print("replaying %s rule %s: %s at %s" % (r["property"], r["rule"], r["message"], r["site"]))
            return run_property(r["property"], "quick", seed)
        if not a.prop:
            ap.error("property id required")
        return run_property(a.prop.upper(), a.tier, seed)
    except AnalysisBroken as e:
        print("ANALYSIS-BROKEN: %s" % e, file=sys.stderr)
        return 2
    except Exception:
        traceback.print_exc()
        print("ANALYSIS-BROKEN: internal error in the checker (see traceback)", file=sys.stderr)
        return 2


if __name__ == "__main__":
    sys.exit(main())
