#!/usr/bin/env python3
"""kcheck — static verifier for the kalign properties (DESIGN.md).

  python3 kcheck.py <ID> [--tier quick|thorough]     decide property <ID> on /repo's working tree
  python3 kcheck.py --replay <replays/x.json>        re-run the rule of a recorded violation
exit 0 = all rule instances hold, 1 = violation (VIOLATION line), 2 = analysis broken.
"""
import argparse
import importlib
import json
import os
import sys
import traceback

sys.path.insert(0, os.path.dirname(os.path.abspath(__file__)))
from kcheck import build  # noqa: E402
from kcheck.build import AnalysisBroken  # noqa: E402
from kcheck.model import Program  # noqa: E402
from kcheck.report import Check  # noqa: E402

QUICK_CONFIGS = ["omp+avx2"]
ALL_CONFIGS = ["omp+avx2", "omp", "serial+avx2", "serial"]


def load_programs(work, tier, repo=None):
    repo = repo or build.REPO
    progs = {}
    for cfg in (QUICK_CONFIGS if tier == "quick" else ALL_CONFIGS):
        units = build.extract(work, repo=repo, config=cfg)
        progs[cfg] = Program(units, cfg, repo)
    return progs


def run_property(pid, tier, seed):
    mod = importlib.import_module("kcheck.rules.%s" % pid.lower())
    ck = Check(pid, tier, seed)
    work = build.Workdir()
    try:
        progs = load_programs(work, tier)
        ck.configs = list(progs)
        ck.work = work
        explanation = mod.run(ck, progs)
        return ck.finish(explanation)
    finally:
        work.cleanup()


def main():
    ap = argparse.ArgumentParser()
    ap.add_argument("prop", nargs="?")
    ap.add_argument("--tier", default=os.environ.get("VERIF_TIER", "quick"), choices=["quick", "thorough"])
    ap.add_argument("--replay")
    a = ap.parse_args()
    seed = int(os.environ.get("VERIF_SEED", "0") or 0)
    try:
        if a.replay:
            r = json.load(open(a.replay))
            print("replaying %s rule %s: %s at %s" % (r["property"], r["rule"], r["message"], r["site"]))
            return run_property(r["property"], "quick", seed)
        if not a.prop:
            ap.error("property id required")
        return run_property(a.prop.upper(), a.tier, seed)
    except AnalysisBroken as e:
        print("ANALYSIS-BROKEN: %s" % e, file=sys.stderr)
        return 2
    except Exception:
        traceback.print_exc()
        print("ANALYSIS-BROKEN: internal error in the checker (see traceback)", file=sys.stderr)
        return 2


if __name__ == "__main__":
    sys.exit(main())
