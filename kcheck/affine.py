"""Affine comparison of heap allocation sizes with the indexes used on them (rule R05l).

Sizes and indexes are turned into linear forms over canonical expression texts; loop induction
variables are replaced by their bound; fields/locals with a single linear definition in the
function are substituted.  A site is *decided* only when all symbolic atoms cancel; otherwise it
is reported as undecided (never as a violation).
"""
from .util import local_defs, const_value


class Lin:
    __slots__ = ("c", "t")

    def __init__(self, c=0, t=None):
        self.c = c
        self.t = dict(t or {})

    def add(self, o, k=1):
        r = Lin(self.c + k * o.c, self.t)
        for a, v in o.t.items():
            r.t[a] = r.t.get(a, 0) + k * v
            if r.t[a] == 0:
                del r.t[a]
        return r

    def scale(self, k):
        return Lin(self.c * k, {a: v * k for a, v in self.t.items() if v * k != 0})

    def is_const(self):
        return not self.t

    def div(self, k):
        if self.c % k or any(v % k for v in self.t.values()):
            return None
        return Lin(self.c // k, {a: v // k for a, v in self.t.items()})

    def __repr__(self):
        parts = ["%s%s" % ("" if v == 1 else "%d*" % v, a) for a, v in sorted(self.t.items())]
        if self.c or not parts:
            parts.append(str(self.c))
        return " + ".join(parts)


def lin(n, subst=None, depth=0):
    """linear form of expression n or None"""
    n = n.strip(casts=True)
    if n.cv is not None and n.k != "DeclRefExpr":
        return Lin(n.cv)
    k = n.k
    if k == "BinaryOperator":
        op = n.d["op"]
        a = lin(n.kids[0], subst, depth)
        b = lin(n.kids[1], subst, depth)
        if a is None or b is None:
            return None
        if op == "+":
            return a.add(b)
        if op == "-":
            return a.add(b, -1)
        if op == "*":
            if a.is_const():
                return b.scale(a.c)
            if b.is_const():
                return a.scale(b.c)
            return None
        return None
    if k == "UnaryOperator" and n.d["op"] == "-":
        a = lin(n.kids[0], subst, depth)
        return a.scale(-1) if a is not None else None
    if k in ("DeclRefExpr", "MemberExpr", "ArraySubscriptExpr"):
        txt = n.text()
        if subst and k == "ArraySubscriptExpr" and txt not in subst:
            # element of an array reached through a local alias assigned once (const int* nsip = msa->nsip): name it by the
            # aliased path, so that nsip[a] and msa->nsip[a] are the same atom
            b = n.kids[0].strip(casts=True)
            al = subst.get(b.text()) if b.k == "DeclRefExpr" else None
            if al is not None and al.c == 0 and len(al.t) == 1 and list(al.t.values()) == [1]:
                txt = "%s[%s]" % (next(iter(al.t)), n.kids[1].text())
        if subst and txt in subst and depth < 3:
            s = subst[txt]
            if s is not None:
                return s
        return Lin(0, {txt: 1})
    if k == "CallExpr" and n.callee in ("strlen", "strnlen"):
        return Lin(0, {n.text(): 1})
    return None


def single_defs(F):
    """text -> Lin for locals / member lvalues assigned exactly once in F with a linear RHS and never
    incremented; used to substitute e.g. seq->alloc_len = len[i] + 1."""
    cnt = {}
    rhs = {}
    for n in F.body.walk():
        tgt = None
        r = None
        if n.k == "BinaryOperator" and n.d["op"] == "=":
            tgt = n.kids[0].strip()
            r = n.kids[1]
        elif n.k == "CompoundAssignOperator" or (n.k == "UnaryOperator" and n.d["op"] in ("++", "--")):
            tgt = n.kids[0].strip()
        elif n.k == "DeclStmt":
            for kid in n.kids:
                if kid.role == "declinit":
                    t = kid.decl["name"]
                    cnt[t] = cnt.get(t, 0) + 1
                    rhs[t] = kid
            continue
        elif n.k == "UnaryOperator" and n.d["op"] == "&":
            tgt = n.kids[0].strip()
        if tgt is not None and tgt.k == "MemberExpr":
            # fields of objects that came in through a parameter have an incoming value: an assignment
            # later in the function must not be substituted into earlier uses
            roots = [r for r in tgt.find("DeclRefExpr")]
            if any(r.d.get("dk") == "Parm" or r.d.get("g") for r in roots):
                t = tgt.text()
                cnt[t] = cnt.get(t, 0) + 2
                continue
        if tgt is not None and tgt.k in ("DeclRefExpr", "MemberExpr"):
            t = tgt.text()
            cnt[t] = cnt.get(t, 0) + 1
            rhs[t] = r
    out = {}
    for t, c in cnt.items():
        if c == 1 and rhs.get(t) is not None:
            l = lin(rhs[t])
            if l is not None and t not in l.t:
                out[t] = l
    # second pass: definitions written in terms of other once-assigned locals / aliases (n_a = nsip[a]; nsip = msa->nsip)
    for _ in range(2):
        nxt = {}
        for t in out:
            l = lin(rhs[t], {k: v for k, v in out.items() if k != t})
            nxt[t] = l if l is not None and t not in l.t else out[t]
        out = nxt
    return out


def induction_bound(loop):
    """for(i = a; i < B; i++) / i <= B  ->  (var text, did, Lin upper bound inside the body, Lin value after normal exit)"""
    if loop.k != "ForStmt":
        return None
    cond = loop.child("cond")
    inc = loop.child("inc")
    if cond is None or inc is None:
        return None
    c = cond.strip()
    i0 = inc.strip()
    if not (i0.k == "UnaryOperator" and i0.d["op"] == "++"):
        return None
    v = i0.kids[0].strip()
    if v.k != "DeclRefExpr":
        return None
    if c.k != "BinaryOperator" or c.d["op"] not in ("<", "<="):
        return None
    l = c.kids[0].strip(casts=True)
    if not (l.k == "DeclRefExpr" and l.d["did"] == v.d["did"]):
        return None
    return v, c.d["op"], c.kids[1]


def alloc_sites(F):
    """yield (target lvalue text, size expr node, call node, macro) for malloc/realloc calls in F"""
    for c in F.body.find("CallExpr"):
        if c.callee not in ("malloc", "realloc", "calloc", "_mm_malloc"):
            continue
        size = c.args[0] if c.callee in ("malloc", "_mm_malloc") else c.args[-1]
        # the assignment that receives the result
        p, ch = c.up(casts=True)
        tgt = None
        if p is not None and p.k == "BinaryOperator" and p.d["op"] == "=":
            tgt = p.kids[0].strip()
        elif p is not None and p.k == "DeclStmt":
            continue
        if tgt is None:
            continue
        if tgt.k == "DeclRefExpr" and tgt.d["name"] == "tmpp":
            # MREALLOC: p = tmpp inside the same expansion
            root = c
            while root.parent is not None and root.parent.mac[-1:] == c.mac[-1:] and root.parent.loc == c.loc:
                root = root.parent
            for a in root.find("BinaryOperator"):
                if a.d["op"] == "=" and a.kids[1].strip(casts=True).k == "DeclRefExpr" and \
                        a.kids[1].strip(casts=True).d["name"] == "tmpp":
                    tgt = a.kids[0].strip()
                    break
        yield tgt, size, c


def loop_range(loop, subst=None):
    """(variable text, lo Lin, hi Lin exclusive) for the recognised counting idioms, else None:
         for(i = A; i < B; i++)   -> [A, B)        for(i = A; i <= B; i++) -> [A, B+1)
         for(i = N; i--;)         -> [0, N)        (kalign's reverse idiom)"""
    if loop.k == "WhileStmt":
        return _while_range(loop, subst)
    if loop.k != "ForStmt":
        return None
    init, cond, inc = loop.child("init"), loop.child("cond"), loop.child("inc")
    if init is None or cond is None:
        return None
    var = None
    start = None
    if init.k == "DeclStmt":
        kids = [k for k in init.kids if k.role == "declinit"]
        if len(kids) != 1:
            return None
        var = kids[0].decl["name"]
        start = lin(kids[0], subst)
    else:
        i0 = init.strip()
        if i0.k == "BinaryOperator" and i0.d["op"] == "=" and i0.kids[0].strip().k == "DeclRefExpr":
            var = i0.kids[0].strip().d["name"]
            start = lin(i0.kids[1], subst)
    if var is None or start is None:
        return None
    c = cond.strip(casts=True)
    if c.k == "UnaryOperator" and c.d["op"] == "--" and c.d.get("postfix") and c.kids[0].strip().text() == var and inc is None:
        return var, Lin(0), start
    if inc is None:
        return None
    i1 = inc.strip()
    if i1.k == "UnaryOperator" and i1.d["op"] == "--" and i1.kids[0].strip().text() == var and \
            c.k == "BinaryOperator" and c.d["op"] in (">=", ">") and c.kids[0].strip(casts=True).text() == var:
        # for(i = N; i >= L; i--) visits [L, N+1);  for(i = N; i > L; i--) visits [L+1, N+1)
        lo = lin(c.kids[1], subst)
        if lo is None:
            return None
        return var, lo if c.d["op"] == ">=" else lo.add(Lin(1)), start.add(Lin(1))
    if not (i1.k == "UnaryOperator" and i1.d["op"] == "++" and i1.kids[0].strip().text() == var):
        return None
    if c.k == "BinaryOperator" and c.d["op"] in ("<", "<=") and c.kids[0].strip(casts=True).text() == var:
        hi = lin(c.kids[1], subst)
        if hi is None:
            return None
        return var, start, hi if c.d["op"] == "<" else hi.add(Lin(1))
    return None


def _while_range(loop, subst=None):
    """while(i < B) { ...; i++; } with `i = A` as the nearest preceding definition in the enclosing block, the increment as the
    last statement of the body and no other change of i / no continue in the body -> [A, B) (or [A, B+1) for <=)"""
    cond, body = loop.child("cond"), loop.child("body")
    if cond is None or body is None or body.k != "CompoundStmt" or not body.kids:
        return None
    c = cond.strip(casts=True)
    if not (c.k == "BinaryOperator" and c.d["op"] in ("<", "<=") and c.kids[0].strip(casts=True).k == "DeclRefExpr"):
        return None
    v = c.kids[0].strip(casts=True)
    var, did = v.d["name"], v.d["did"]
    last = body.kids[-1].strip()
    inc_ok = (last.k == "UnaryOperator" and last.d["op"] == "++" and last.kids[0].strip().k == "DeclRefExpr" and last.kids[0].strip().d["did"] == did) or \
             (last.k == "CompoundAssignOperator" and last.d["op"] == "+=" and last.kids[0].strip().k == "DeclRefExpr"
              and last.kids[0].strip().d["did"] == did and last.kids[1].strip(casts=True).cv == 1)
    if not inc_ok:
        return None
    for x in body.walk():
        if x.k == "ContinueStmt":
            return None
        if x is not last and x.k in ("BinaryOperator", "CompoundAssignOperator", "UnaryOperator") and \
                (x.d.get("op") in ("=", "++", "--") or x.k == "CompoundAssignOperator"):
            t = x.kids[0].strip()
            if t.k == "DeclRefExpr" and t.d.get("did") == did and not x.within(last):
                return None
    parent = loop.parent
    if parent is None or parent.k != "CompoundStmt":
        return None
    start = None
    for st in parent.kids:
        if st is loop:
            break
        if st.k == "DeclStmt":
            for kid in st.kids:
                if kid.role == "declinit" and kid.decl.get("did") == did:
                    start = lin(kid, subst)
        elif st.k == "BinaryOperator" and st.d["op"] == "=" and st.kids[0].strip().k == "DeclRefExpr" and st.kids[0].strip().d["did"] == did:
            start = lin(st.kids[1], subst)
        elif any(r.d.get("did") == did and r.parent is not None for r in st.find("DeclRefExpr")) and st.k not in ("DeclStmt",):
            # some other statement mentions the counter between its definition and the loop: only reads are harmless
            for x in st.walk():
                if x.k in ("UnaryOperator", "CompoundAssignOperator") and x.kids and x.kids[0].strip().k == "DeclRefExpr" and x.kids[0].strip().d.get("did") == did:
                    start = None
    if start is None:
        return None
    hi = lin(c.kids[1], subst)
    if hi is None:
        return None
    return var, start, hi if c.d["op"] == "<" else hi.add(Lin(1))
