"""Compilation database + fact extraction, regenerated from /repo on every run.

Nothing here reads /repo/_build: the unit list comes from lib/CMakeLists.txt,
the flags are the ones CMake would pass (DESIGN 2.1).
"""
import json
import os
import re
import shutil
import subprocess
import sys
import tempfile
from concurrent.futures import ThreadPoolExecutor

VERIF = os.path.dirname(os.path.dirname(os.path.abspath(__file__)))
REPO = os.environ.get("KALIGN_REPO", "/repo")
KFACTS = os.path.join(VERIF, "bin", "kfacts")
KIR = os.path.join(VERIF, "bin", "kir")
RESOURCE_DIR = "/usr/lib/llvm-14/lib/clang/14.0.6"

CONFIGS = {
    "omp+avx2": ["-DHAVE_OPENMP", "-fopenmp", "-DHAVE_AVX2", "-mavx2"],
    "omp": ["-DHAVE_OPENMP", "-fopenmp"],
    "serial+avx2": ["-DHAVE_AVX2", "-mavx2"],
    "serial": [],
}
CLI_UNITS = ["src/run_kalign.c", "src/parameters.c", "src/run_reformat.c"]


class AnalysisBroken(Exception):
    """The analysis cannot give a verdict (exit 2): never a pass, never a violation."""


def repo_version(repo):
    try:
        txt = open(os.path.join(repo, "CMakeLists.txt")).read()
        v = [re.search(r"KALIGN_LIBRARY_VERSION_%s\s+(\d+)" % k, txt).group(1)
             for k in ("MAJOR", "MINOR", "PATCH")]
        return ".".join(v)
    except Exception:
        return "0.0.0"


def lib_units(repo):
    path = os.path.join(repo, "lib", "CMakeLists.txt")
    try:
        txt = open(path).read()
    except OSError as e:
        raise AnalysisBroken("cannot read %s: %s" % (path, e))
    m = re.search(r"set\s*\(\s*source_files(.*?)\)", txt, re.S)
    if not m:
        raise AnalysisBroken("lib/CMakeLists.txt: set(source_files ...) not found")
    units = []
    for line in m.group(1).splitlines():
        line = line.split("#", 1)[0].strip()
        for tok in line.split():
            if tok.endswith(".c"):
                units.append("lib/" + tok)
    if len(units) < 20:
        raise AnalysisBroken("only %d library units listed in lib/CMakeLists.txt" % len(units))
    for u in units:
        if not os.path.exists(os.path.join(repo, u)):
            raise AnalysisBroken("unit %s is listed by CMake but missing" % u)
    return units


def flags_for(repo, config, incdir):
    ver = repo_version(repo)
    return CONFIGS[config] + [
        "-std=gnu11", "-UNDEBUG", "-w",
        "-resource-dir", RESOURCE_DIR,
        "-I" + incdir,
        "-I" + os.path.join(repo, "lib", "include"),
        "-I" + os.path.join(repo, "lib", "src"),
        '-DKALIGN_PACKAGE_VERSION="%s"' % ver,
        '-DKALIGN_PACKAGE_NAME="kalign"',
    ]


class Workdir:
    def __init__(self):
        base = os.path.join(VERIF, ".work")
        os.makedirs(base, exist_ok=True)
        self.path = tempfile.mkdtemp(prefix="k%d-" % os.getpid(), dir=base)
        self.inc = os.path.join(self.path, "inc")
        os.makedirs(self.inc)
        # run_reformat.c includes the CMake-generated version.h; its two macros
        # are supplied on the command line instead.
        open(os.path.join(self.inc, "version.h"), "w").write("/* generated: empty */\n")

    def cleanup(self):
        shutil.rmtree(self.path, ignore_errors=True)


def _run_kfacts(args):
    out, src, flags = args
    p = subprocess.run([KFACTS, out, src, "--"] + flags, stdout=subprocess.PIPE,
                       stderr=subprocess.PIPE, universal_newlines=True)
    return src, p.returncode, p.stderr


def extract(work, repo=REPO, config="omp+avx2", extra_units=(), units=None):
    """Run kfacts over every unit of one configuration; returns {unit: json}."""
    if not os.path.exists(KFACTS):
        raise AnalysisBroken("bin/kfacts missing: run MANIFEST.setup_cmd (make -C /verif/engine)")
    if units is None:
        units = lib_units(repo) + [u for u in CLI_UNITS if os.path.exists(os.path.join(repo, u))]
        if len(units) < 23:
            raise AnalysisBroken("CLI units missing under %s/src" % repo)
    outdir = os.path.join(work.path, config.replace("+", "_"))
    os.makedirs(outdir, exist_ok=True)
    flags = flags_for(repo, config, work.inc)
    jobs = []
    for u in list(units) + list(extra_units):
        src = u if os.path.isabs(u) else os.path.join(repo, u)
        out = os.path.join(outdir, u.replace("/", "__") + ".json")
        jobs.append((out, src, flags))
    res = {}
    with ThreadPoolExecutor(max_workers=16) as ex:
        for (out, src, _), (s, rc, err) in zip(jobs, ex.map(_run_kfacts, jobs)):
            if rc != 0 or not os.path.exists(out):
                raise AnalysisBroken("kfacts failed on %s [%s]: %s" % (src, config, err[-2000:]))
            res[src] = json.load(open(out))
    return res
