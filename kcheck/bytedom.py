"""Finite-domain evaluation of index expressions that originate from one `char`.

A `char` has 256 values.  For a subscript whose index is computed from one char-typed
lvalue (the *symbol*), the rule enumerates all 256 values, discards those excluded by
the guards that dominate the subscript (evaluated exactly, with C conversion semantics
and C-locale <ctype.h> predicates), and evaluates the index for the rest.  No run of
kalign is involved: this is abstract evaluation of guard and index expressions over the
complete value domain of one byte.
"""
from .model import N

CHAR_TYPES = ("char", "signed char", "unsigned char")


def unq(ty):
    """canonical type string without cv-qualifiers"""
    return (ty or "").replace("const ", "").replace("volatile ", "").replace(" const", "").strip()
_CTYPE = {
    "isalpha": lambda v: (65 <= v <= 90) or (97 <= v <= 122),
    "isupper": lambda v: 65 <= v <= 90,
    "islower": lambda v: 97 <= v <= 122,
    "isdigit": lambda v: 48 <= v <= 57,
    "isalnum": lambda v: (65 <= v <= 90) or (97 <= v <= 122) or (48 <= v <= 57),
    "isspace": lambda v: v in (32, 9, 10, 11, 12, 13),
    "ispunct": lambda v: (33 <= v <= 47) or (58 <= v <= 64) or (91 <= v <= 96) or (123 <= v <= 126),
    "iscntrl": lambda v: (0 <= v <= 31) or v == 127,
    "isprint": lambda v: 32 <= v <= 126,
    "isgraph": lambda v: 33 <= v <= 126,
    "isxdigit": lambda v: (48 <= v <= 57) or (65 <= v <= 70) or (97 <= v <= 102),
}


def _conv(v, ty):
    """C integer conversion of value v to canonical type ty"""
    if v is None:
        return None
    if ty == "unsigned char":
        return v & 0xFF
    if ty in ("char", "signed char"):
        v &= 0xFF
        return v - 256 if v >= 128 else v
    if ty == "unsigned short":
        return v & 0xFFFF
    if ty == "short":
        v &= 0xFFFF
        return v - 65536 if v >= 32768 else v
    if ty in ("unsigned int",):
        return v & 0xFFFFFFFF
    if ty in ("unsigned long", "unsigned long long"):
        return v & 0xFFFFFFFFFFFFFFFF
    if ty == "_Bool":
        return 1 if v else 0
    return v


class Sym:
    """The symbol: either an lvalue expression text (e.g. 'line[i]') or a variable decl id."""

    def __init__(self, text=None, did=None, ty="char"):
        self.text = text
        self.did = did
        self.ty = ty

    def matches(self, n):
        if self.did is not None:
            return n.k == "DeclRefExpr" and n.d.get("did") == self.did
        return n.k in ("ArraySubscriptExpr", "UnaryOperator", "DeclRefExpr", "MemberExpr") and \
            unq(n.ty) in CHAR_TYPES and n.text() == self.text

    def vars(self):
        return self.text


def ev(n, sym, val):
    """Evaluate expression node n with the symbol bound to val; None = unknown."""
    k = n.k
    if sym.matches(n):
        return val
    if n.cv is not None and k not in ("DeclRefExpr",):
        return n.cv
    if k == "ParenExpr":
        return ev(n.kids[0], sym, val)
    if k in ("ImplicitCastExpr", "CStyleCastExpr"):
        ck = n.d.get("ck")
        v = ev(n.kids[0], sym, val)
        if ck in ("LValueToRValue", "NoOp"):
            return v
        if ck in ("IntegralCast", "IntegralToBoolean"):
            return _conv(v, n.ty)
        return None if v is None else (v if ck in ("IntegralToFloating",) else None)
    if k == "IntegerLiteral" or k == "CharacterLiteral":
        return n.d["v"]
    if k == "UnaryOperator":
        v = ev(n.kids[0], sym, val)
        op = n.d["op"]
        if v is None:
            return None
        if op == "!":
            return 0 if v else 1
        if op == "-":
            return -v
        if op == "+":
            return v
        if op == "~":
            return ~v
        return None
    if k == "BinaryOperator" and n.d["op"] == "&" and n.mac:
        # glibc spells isalpha(c) as ((*__ctype_b_loc())[(int)(c)] & _ISalpha): recognise the expansion
        cname = next((m for m in n.mac if m in _CTYPE), None)
        if cname is not None:
            sub = n.kids[0].strip(casts=True)
            if sub.k == "ArraySubscriptExpr" and any(c.callee == "__ctype_b_loc" for c in sub.kids[0].calls()):
                v = ev(sub.kids[1], sym, val)
                if v is None:
                    return None
                return int(bool(_CTYPE[cname](v))) if 0 <= v <= 127 else 0
    if k == "BinaryOperator":
        op = n.d["op"]
        if op == "&&":
            a = ev(n.kids[0], sym, val)
            if a is not None and not a:
                return 0
            b = ev(n.kids[1], sym, val)
            if b is not None and not b:
                return 0
            if a is None or b is None:
                return None
            return 1
        if op == "||":
            a = ev(n.kids[0], sym, val)
            if a is not None and a:
                return 1
            b = ev(n.kids[1], sym, val)
            if b is not None and b:
                return 1
            if a is None or b is None:
                return None
            return 0
        if op == ",":
            return ev(n.kids[1], sym, val)
        a = ev(n.kids[0], sym, val)
        b = ev(n.kids[1], sym, val)
        if a is None or b is None:
            return None
        try:
            if op == "+": return a + b
            if op == "-": return a - b
            if op == "*": return a * b
            if op == "&": return a & b
            if op == "|": return a | b
            if op == "^": return a ^ b
            if op == "<<": return a << b
            if op == ">>": return a >> b
            if op == "%": return None if b == 0 else int(abs(a) % abs(b)) * (1 if a >= 0 else -1)
            if op == "/": return None if b == 0 else int(a / b)
            if op == "<": return int(a < b)
            if op == ">": return int(a > b)
            if op == "<=": return int(a <= b)
            if op == ">=": return int(a >= b)
            if op == "==": return int(a == b)
            if op == "!=": return int(a != b)
        except Exception:
            return None
        return None
    if k == "ArraySubscriptExpr":
        b = n.kids[0].strip(casts=True)
        if b.k == "DeclRefExpr" and b.d.get("g"):
            t = _global_table(b)
            i = ev(n.kids[1], sym, val)
            if isinstance(t, list) and i is not None and 0 <= i < len(t) and isinstance(t[i], int):
                return t[i]
        return None
    if k == "ConditionalOperator":
        c = ev(n.kids[0], sym, val)
        if c is None:
            a, b = ev(n.kids[1], sym, val), ev(n.kids[2], sym, val)
            return a if a == b else None
        return ev(n.kids[1] if c else n.kids[2], sym, val)
    if k == "CallExpr":
        f = n.callee
        if f in _CTYPE and n.args:
            v = ev(n.args[0], sym, val)
            if v is None:
                return None
            # glibc's C-locale tables answer 0 for -128..-1 and 128..255
            return int(bool(_CTYPE[f](v))) if 0 <= v <= 127 else 0
        if f in ("toupper", "tolower") and n.args:
            v = ev(n.args[0], sym, val)
            if v is None:
                return None
            if f == "toupper" and 97 <= v <= 122:
                return v - 32
            if f == "tolower" and 65 <= v <= 90:
                return v + 32
            return v
        return None
    return None


PROG = [None]           # set by a rule that wants subscripts of constant global tables evaluated (chr_class[c])
_TABLES = {}


def _global_table(ref):
    prog = PROG[0]
    if prog is None:
        return None
    key = (id(prog), ref.d["name"])
    if key not in _TABLES:
        try:
            from .consteval import Interp
            it = Interp(prog)
            name = it.load_global(ref)
            _TABLES[key] = it.globals_env()[name]
        except Exception:
            _TABLES[key] = None
    return _TABLES[key]


def mentions(n, sym):
    for x in n.walk():
        if sym.matches(x):
            return True
    return False


def char_origin(idx):
    """Find the char-typed lvalue an index expression is computed from.
    Returns the node or None.  Only one char lvalue may occur."""
    found = []
    for x in idx.walk():
        if x.k in ("ArraySubscriptExpr", "UnaryOperator", "DeclRefExpr", "MemberExpr") and unq(x.ty) in CHAR_TYPES:
            if x.k == "UnaryOperator" and x.d.get("op") != "*":
                continue
            # must be an lvalue load: its parent chain leads to an LValueToRValue cast
            p = x.parent
            while p is not None and p.k == "ParenExpr":
                p = p.parent
            if p is not None and p.k == "ImplicitCastExpr" and p.d.get("ck") == "LValueToRValue":
                # skip lvalues nested inside another char lvalue's index (e.g. s[t[i]])
                found.append(x)
    outer = [x for x in found if not any(x is not y and x.within(y) for y in found)]
    return outer
