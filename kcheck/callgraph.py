"""Whole-program call graph from resolved callees (direct calls + functions used as values)."""
from collections import defaultdict


class CallGraph:
    def __init__(self, prog, include_tests=False):
        self.prog = prog
        self.edges = defaultdict(set)       # caller name -> callee names (repo-defined or external)
        self.sites = defaultdict(list)      # (caller, callee) -> [call nodes]
        self.defined = {}
        for F in prog.all_functions:
            if "/tests/" in F.file and not include_tests:
                continue
            self.defined.setdefault(F.name, F)
        for F in self.defined.values():
            for n in F.body.walk():
                if n.k == "CallExpr":
                    c = n.callee
                    if c:
                        self.edges[F.name].add(c)
                        self.sites[(F.name, c)].append(n)
                    else:
                        self.edges[F.name].add("<indirect>")
                elif n.k == "DeclRefExpr" and n.d.get("dk") == "Fn":
                    # function used as a value (qsort comparator, function pointer)
                    p, c = n.up(casts=True)
                    if not (p is not None and p.k == "CallExpr" and p.kids and c.within(p.kids[0])):
                        self.edges[F.name].add(n.d["name"])
                        self.sites[(F.name, n.d["name"])].append(n)

    def reachable(self, roots):
        seen = set()
        st = list(roots)
        parent = {}
        while st:
            f = st.pop()
            if f in seen:
                continue
            seen.add(f)
            for g in self.edges.get(f, ()):
                if g not in seen:
                    parent.setdefault(g, f)
                    st.append(g)
        self._parent = parent
        return seen

    def path_to(self, target):
        p = [target]
        while p[-1] in self._parent:
            p.append(self._parent[p[-1]])
        return list(reversed(p))

    def callers(self, name):
        return [f for f, gs in self.edges.items() if name in gs]
