"""Compile-time evaluation of input-free code (the alphabet constructors).

create_alphabet(type) and everything it calls take no run-time input: every value is a literal,
a loop counter or a table entry computed from those.  This module folds that code over the AST
(loops unrolled, calls inlined, C integer semantics) and returns the resulting tables, so rules
can state exact facts about them (case-blindness, U==T, code < alphabet size).  It does not run
kalign; it is constant propagation with a singleton abstract domain, and it refuses (Undecided)
anything that is not a compile-time constant.
"""
from .build import AnalysisBroken
from .util import switch_table


class Undecided(Exception):
    pass


class _Break(Exception):
    pass


class _Continue(Exception):
    pass


class _Return(Exception):
    def __init__(self, v):
        self.v = v


class _Goto(Exception):
    def __init__(self, label):
        self.label = label


UNDEF = "UNDEF"
IGNORED_CALLS = {"error", "warning", "log_message", "message", "fprintf", "printf", "free"}


class Ref:
    """an lvalue: container (list or dict) + key"""
    __slots__ = ("c", "k")

    def __init__(self, c, k):
        self.c, self.k = c, k

    def get(self):
        try:
            v = self.c[self.k]
        except (IndexError, KeyError):
            raise Undecided("out-of-range access [%r]" % (self.k,))
        return v

    def set(self, v):
        if isinstance(self.c, list) and not (0 <= self.k < len(self.c)):
            raise OutOfBounds(self.k, len(self.c))
        self.c[self.k] = v


class OutOfBounds(Exception):
    def __init__(self, idx, n):
        self.idx, self.n = idx, n


class Ptr:
    """pointer to element `off` of list `arr`, or to a struct object (dict) when arr is a dict"""
    __slots__ = ("arr", "off")

    def __init__(self, arr, off=0):
        self.arr, self.off = arr, off


def _wrap(v, ty):
    if not isinstance(v, int):
        return v
    t = (ty or "").replace("const ", "")
    if t in ("signed char",):
        v &= 0xFF
        return v - 256 if v >= 128 else v
    if t in ("char",):
        v &= 0xFF
        return v - 256 if v >= 128 else v
    if t == "unsigned char":
        return v & 0xFF
    if t == "int":
        v &= 0xFFFFFFFF
        return v - (1 << 32) if v >= (1 << 31) else v
    if t == "unsigned int":
        return v & 0xFFFFFFFF
    return v


class Interp:
    def __init__(self, prog, max_steps=200000):
        self.prog = prog
        self.steps = 0
        self.max_steps = max_steps
        self.trace = []

    def globals_env(self):
        if not hasattr(self, "_genv"):
            self._genv = {}
        return self._genv

    def load_global(self, ref):
        """value of a const-qualified global with an initialiser (tables of constants); key into globals_env()"""
        from .model import N
        name = ref.d["name"]
        genv = self.globals_env()
        if name in genv:
            return name
        g = [x for x in self.prog.globals if x["name"] == name and x.get("init")]
        if not g or not g[0].get("const"):
            raise Undecided("global %s is not a constant table" % name)
        init = N(g[0]["init"], None, "init", None)
        genv[name] = self.build_init(init, g[0]["ty"])
        return name

    def build_init(self, node, ty):
        import re as _re
        ty = (ty or "").replace("const ", "").strip()
        n0 = node.strip(casts=True)
        m = _re.match(r"^(.*?)\[(\d+)\]((?:\[\d+\])*)$", ty)
        if m and n0.k == "InitListExpr":
            elem_ty = (m.group(1).strip() + m.group(3)).strip()
            size = int(m.group(2))
            vals = [self.build_init(x, elem_ty) for x in n0.kids]
            filler = None if elem_ty.endswith("*") else (0 if not elem_ty.startswith("struct") else None)
            while len(vals) < size:
                vals.append(filler)
            return vals
        if m and n0.k == "StringLiteral":
            sz = int(m.group(2))
            b = [ord(c) if ord(c) < 128 else ord(c) - 256 for c in n0.d.get("s", "")]
            return (b + [0] * sz)[:sz]
        if ty.startswith("struct ") and not ty.endswith("*") and n0.k == "InitListExpr":
            rec = self.prog.record(ty.split()[1])
            obj = {}
            for f, x in zip(rec["fields"], n0.kids):
                obj[f["name"]] = self.build_init(x, f["ty"])
            for f in rec["fields"][len(n0.kids):]:
                obj[f["name"]] = None if f["ty"].endswith("*") else 0
            return obj
        if n0.k == "StringLiteral":
            return Ptr([ord(c) if ord(c) < 128 else ord(c) - 256 for c in n0.d.get("s", "")] + [0], 0)
        if n0.k == "ImplicitValueInitExpr":
            return None if ty.endswith("*") else 0
        if "NULL" in node.mac or "NULL" in n0.mac:
            return None
        if n0.cv is not None:
            return n0.cv
        if n0.k in ("IntegerLiteral", "CharacterLiteral"):
            return n0.d["v"]
        raise Undecided("initialiser %s of a constant table" % n0.k)

    def new_struct(self, rec):
        r = self.prog.record(rec)
        obj = {}
        for f in r["fields"]:
            if f.get("arr") is not None:
                obj[f["name"]] = [UNDEF] * f["arr"]
            else:
                obj[f["name"]] = UNDEF
        return obj

    def call(self, fname, args):
        F = self.prog.fn(fname)
        env = {}
        for p, a in zip(F.params, args):
            env[p["did"]] = a
        try:
            self.stmt(F.body, env)
        except _Return as r:
            return r.v
        return None

    # ---- statements ---------------------------------------------------------
    def stmt(self, n, env):
        self.steps += 1
        if self.steps > self.max_steps:
            raise Undecided("step limit")
        k = n.k
        if k == "CompoundStmt":
            for s in n.kids:
                self.stmt(s, env)
        elif k == "DeclStmt":
            for dd in n.d["decls"]:
                if dd.get("dkind") != "Var":
                    continue
                init = None
                for kid in n.kids:
                    if kid.role == "declinit" and kid.decl is dd:
                        init = kid
                if dd.get("arr") is not None:
                    arr = [UNDEF] * dd["arr"]
                    if init is not None:
                        i0 = init.strip(casts=True)
                        if i0.k == "StringLiteral":
                            s = i0.d.get("s", "")
                            for i in range(dd["arr"]):
                                arr[i] = (ord(s[i]) if ord(s[i]) < 128 else ord(s[i]) - 256) if i < len(s) else 0
                        elif i0.k == "InitListExpr":
                            def build(il):
                                out = []
                                for x in il.kids:
                                    x0 = x.strip(casts=True)
                                    if x0.k == "InitListExpr":
                                        out.append(build(x0))
                                    elif x0.k == "StringLiteral":
                                        out.append([ord(c) for c in x0.d.get("s", "")] + [0])
                                    else:
                                        out.append(self.expr(x, env))
                                return out
                            vals = build(i0)
                            for i in range(dd["arr"]):
                                arr[i] = vals[i] if i < len(vals) else 0
                        else:
                            raise Undecided("array initialiser %s" % i0.k)
                    env[dd["did"]] = arr
                else:
                    env[dd["did"]] = _wrap(self.expr(init, env), dd.get("ty")) if init is not None else UNDEF
        elif k == "IfStmt":
            c = self.truth(n.child("cond"), env)
            if c:
                self.stmt(n.child("then"), env)
            elif n.child("else") is not None:
                self.stmt(n.child("else"), env)
        elif k == "ForStmt":
            if n.child("init") is not None:
                self.stmt(n.child("init"), env) if n.child("init").k == "DeclStmt" else self.expr(n.child("init"), env)
            while n.child("cond") is None or self.truth(n.child("cond"), env):
                try:
                    self.stmt(n.child("body"), env)
                except _Break:
                    break
                except _Continue:
                    pass
                if n.child("inc") is not None:
                    self.expr(n.child("inc"), env)
        elif k == "WhileStmt":
            while self.truth(n.child("cond"), env):
                try:
                    self.stmt(n.child("body"), env)
                except _Break:
                    break
                except _Continue:
                    pass
        elif k == "DoStmt":
            while True:
                try:
                    self.stmt(n.child("body"), env)
                except _Break:
                    break
                except _Continue:
                    pass
                if not self.truth(n.child("cond"), env):
                    break
        elif k == "SwitchStmt":
            v = self.expr(n.child("cond"), env)
            groups = switch_table(n)
            chosen = None
            default = None
            for labels, stmts in groups:
                for lab in labels:
                    if lab[0] == "case" and lab[1] == v:
                        chosen = stmts
                    if lab[0] == "default":
                        default = stmts
            body = chosen if chosen is not None else default
            if body is not None:
                try:
                    for s in body:
                        self.stmt(s, env)
                except _Break:
                    pass
        elif k == "ReturnStmt":
            raise _Return(self.expr(n.kids[0], env) if n.kids else None)
        elif k == "BreakStmt":
            raise _Break()
        elif k == "ContinueStmt":
            raise _Continue()
        elif k == "GotoStmt":
            raise _Goto(n.d["label"])
        elif k == "LabelStmt":
            if n.child("sub") is not None:
                self.stmt(n.child("sub"), env)
        elif k == "NullStmt":
            pass
        else:
            self.expr(n, env)

    def truth(self, n, env):
        v = self.expr(n, env)
        if v is UNDEF:
            raise Undecided("branch on an undefined value at %s" % n.loc)
        if isinstance(v, (Ptr,)):
            return True
        if v is None:
            return False
        return bool(v)

    # ---- expressions --------------------------------------------------------
    def lval(self, n, env):
        n = n.strip()
        k = n.k
        if k == "DeclRefExpr":
            did = n.d["did"]
            if did not in env:
                if n.d.get("g"):
                    return Ref(self.globals_env(), self.load_global(n))
                raise Undecided("reference to %s outside the evaluated scope" % n.d["name"])
            return Ref(env, did)
        if k == "ArraySubscriptExpr":
            base = self.expr(n.kids[0], env)
            idx = self.expr(n.kids[1], env)
            if idx is UNDEF or not isinstance(idx, int):
                raise Undecided("non-constant index at %s" % n.loc)
            if isinstance(base, Ptr) and isinstance(base.arr, list):
                i = base.off + idx
                if not (0 <= i < len(base.arr)):
                    raise OutOfBounds(i, len(base.arr))
                return Ref(base.arr, i)
            raise Undecided("subscript of a non-array at %s" % n.loc)
        if k == "MemberExpr":
            if n.d.get("arrow"):
                b = self.expr(n.kids[0], env)
                if not (isinstance(b, Ptr) and isinstance(b.arr, dict)):
                    raise Undecided("-> on a non-struct pointer at %s" % n.loc)
                return Ref(b.arr, n.d["field"])
            r = self.lval(n.kids[0], env)
            obj = r.get()
            return Ref(obj, n.d["field"])
        if k == "UnaryOperator" and n.d["op"] == "*":
            b = self.expr(n.kids[0], env)
            if isinstance(b, Ptr) and isinstance(b.arr, list):
                return Ref(b.arr, b.off)
            raise Undecided("deref at %s" % n.loc)
        raise Undecided("lvalue %s at %s" % (k, n.loc))

    def expr(self, n, env):
        self.steps += 1
        if self.steps > self.max_steps:
            raise Undecided("step limit")
        k = n.k
        if k == "ParenExpr":
            return self.expr(n.kids[0], env)
        if k in ("IntegerLiteral", "CharacterLiteral"):
            return n.d["v"]
        if k == "FloatingLiteral":
            return n.d["v"]
        if k == "StringLiteral":
            s = n.d.get("s", "")
            return Ptr([ord(c) if ord(c) < 128 else ord(c) - 256 for c in s] + [0], 0)
        if k in ("ImplicitCastExpr", "CStyleCastExpr"):
            ck = n.d.get("ck")
            if ck == "ArrayToPointerDecay":
                sub = n.kids[0].strip()
                if sub.k == "StringLiteral":
                    return self.expr(sub, env)
                r = self.lval(sub, env)
                arr = r.get()
                if not isinstance(arr, list):
                    raise Undecided("decay of non-array at %s" % n.loc)
                return Ptr(arr, 0)
            if ck == "LValueToRValue":
                return self.lval(n.kids[0], env).get()
            if ck == "NullToPointer":
                return None
            v = self.expr(n.kids[0], env)
            if ck in ("IntegralCast",):
                return _wrap(v, n.ty) if isinstance(v, int) else v
            if ck == "IntegralToBoolean":
                return int(bool(v))
            return v
        if k == "DeclRefExpr":
            if n.d.get("dk") == "Fn":
                return ("fn", n.d["name"])
            return self.lval(n, env).get()
        if k in ("ArraySubscriptExpr", "MemberExpr"):
            return self.lval(n, env).get()
        if k == "UnaryOperator":
            op = n.d["op"]
            if op in ("++", "--"):
                r = self.lval(n.kids[0], env)
                old = r.get()
                if old is UNDEF:
                    raise Undecided("++ on undefined at %s" % n.loc)
                new = old + (1 if op == "++" else -1)
                r.set(_wrap(new, n.ty))
                return old if n.d.get("postfix") else new
            if op == "&":
                r = self.lval(n.kids[0], env)
                if isinstance(r.c, list) and isinstance(r.get(), dict):
                    return Ptr(r.get())
                if isinstance(r.c, list):
                    return Ptr(r.c, r.k)
                v = r.get()
                if isinstance(v, dict):
                    return Ptr(v)
                raise Undecided("address-of scalar at %s" % n.loc)
            if op == "*":
                return self.lval(n, env).get()
            v = self.expr(n.kids[0], env)
            if v is UNDEF:
                return UNDEF
            if op == "-":
                return -v
            if op == "+":
                return v
            if op == "!":
                return int(not v)
            if op == "~":
                return ~v
            raise Undecided("unary %s" % op)
        if k == "BinaryOperator":
            op = n.d["op"]
            if op == "=":
                v = self.expr(n.kids[1], env)
                r = self.lval(n.kids[0], env)
                r.set(_wrap(v, n.kids[0].ty))
                return v
            if op == "&&":
                return int(self.truth(n.kids[0], env) and self.truth(n.kids[1], env))
            if op == "||":
                return int(self.truth(n.kids[0], env) or self.truth(n.kids[1], env))
            if op == ",":
                self.expr(n.kids[0], env)
                return self.expr(n.kids[1], env)
            a = self.expr(n.kids[0], env)
            b = self.expr(n.kids[1], env)
            if op in ("==", "!=") and (a is None or b is None or isinstance(a, Ptr) or isinstance(b, Ptr)):
                same = (a is b) or (a is None and b is None)
                return int(same) if op == "==" else int(not same)
            if isinstance(a, Ptr) and isinstance(b, int) and op in ("+", "-"):
                return Ptr(a.arr, a.off + (b if op == "+" else -b))
            if a is UNDEF or b is UNDEF:
                if op in ("<", ">", "<=", ">=", "==", "!="):
                    raise Undecided("comparison with an undefined value at %s" % n.loc)
                return UNDEF
            return _wrap(self.arith(op, a, b, n), n.ty)
        if k == "CompoundAssignOperator":
            op = n.d["op"][:-1]
            r = self.lval(n.kids[0], env)
            a = r.get()
            b = self.expr(n.kids[1], env)
            if a is UNDEF or b is UNDEF:
                raise Undecided("compound assignment on undefined at %s" % n.loc)
            v = _wrap(self.arith(op, a, b, n), n.kids[0].ty)
            r.set(v)
            return v
        if k == "ConditionalOperator":
            return self.expr(n.kids[1] if self.truth(n.kids[0], env) else n.kids[2], env)
        if k == "UnaryExprOrTypeTraitExpr":
            if n.cv is not None:
                return n.cv
            raise Undecided("sizeof")
        if k == "CallExpr":
            f = n.callee
            if f in ("malloc", "calloc"):
                # struct allocation: find sizeof(struct X) in the argument
                for x in n.args[0].walk():
                    if x.k == "UnaryExprOrTypeTraitExpr" and x.d.get("of", "").startswith("struct "):
                        return Ptr(self.new_struct(x.d["of"].split()[1]))
                raise Undecided("malloc of a non-struct at %s" % n.loc)
            if f in IGNORED_CALLS:
                return 0
            if f in ("log", "logf", "exp", "expf", "sqrt", "sqrtf", "fabs", "fabsf") and len(n.args) == 1:
                import math
                x_ = self.expr(n.args[0], env)
                if x_ is UNDEF or not isinstance(x_, (int, float)):
                    raise Undecided("%s of a non-constant at %s" % (f, n.loc))
                try:
                    return {"log": math.log, "logf": math.log, "exp": math.exp, "expf": math.exp, "sqrt": math.sqrt, "sqrtf": math.sqrt,
                            "fabs": abs, "fabsf": abs}[f](x_)
                except ValueError:
                    raise Undecided("%s(%r) at %s" % (f, x_, n.loc))
            if f in ("strlen", "strnlen") and n.args:
                p_ = self.expr(n.args[0], env)
                if isinstance(p_, Ptr) and isinstance(p_.arr, list):
                    k_ = 0
                    while p_.off + k_ < len(p_.arr) and p_.arr[p_.off + k_] != 0:
                        k_ += 1
                    return k_
                raise Undecided("strlen of a non-constant string")
            if f and self.prog.functions.get(f) is not None:
                args = [self.expr(a, env) for a in n.args]
                return self.call(f, args)
            raise Undecided("call to %s at %s" % (f, n.loc))
        if k == "StmtExpr":
            raise Undecided("statement expression")
        if n.cv is not None:
            return n.cv
        raise Undecided("expression %s at %s" % (k, n.loc))

    def arith(self, op, a, b, n):
        if op == "+": return a + b
        if op == "-": return a - b
        if op == "*": return a * b
        if op == "/":
            if b == 0: raise Undecided("division by zero")
            return int(a / b) if isinstance(a, int) and isinstance(b, int) else a / b
        if op == "%":
            if b == 0: raise Undecided("modulo zero")
            return int(abs(a) % abs(b)) * (1 if a >= 0 else -1)
        if op == "<<": return a << b
        if op == ">>": return a >> b
        if op == "&": return a & b
        if op == "|": return a | b
        if op == "^": return a ^ b
        if op == "<": return int(a < b)
        if op == ">": return int(a > b)
        if op == "<=": return int(a <= b)
        if op == ">=": return int(a >= b)
        if op == "==": return int(a == b)
        if op == "!=": return int(a != b)
        raise Undecided("operator %s" % op)


def alphabet_tables(prog):
    """Evaluate create_alphabet(id) for every ALPHA_* id; returns {macro name: dict(id, L, to_internal, error)}"""
    out = {}
    for name in sorted(prog.macros):
        if not name.startswith("ALPHA_") or name in ("ALPHA_UNKNOWN", "ALPHA_UNDEFINED"):
            continue
        try:
            aid = prog.macro_int(name)
        except AnalysisBroken:
            continue
        it = Interp(prog)
        res = {"id": aid, "L": None, "to_internal": None, "error": None}
        try:
            r = it.call("create_alphabet", [aid])
            if isinstance(r, Ptr) and isinstance(r.arr, dict):
                res["L"] = r.arr.get("L")
                res["to_internal"] = list(r.arr.get("to_internal"))
            else:
                res["error"] = "create_alphabet(%s) returns NULL" % name
        except _Goto as g:
            res["error"] = "reaches goto %s (a failing ASSERT / error path)" % g.label
        except OutOfBounds as e:
            res["error"] = "writes index %d of a %d-entry table" % (e.idx, e.n)
        except Undecided as e:
            res["error"] = "undecided: %s" % e
        out[name] = res
    return out
