"""Positive / negative controls: tiny self-contained C files under /verif/controls analysed with
the same engine and the same rule code on every run.  A rule that no longer fires on its bad_*
functions, or fires on an ok_* function, makes the check exit 2 (analysis broken)."""
import os

from . import build
from .build import AnalysisBroken, VERIF
from .model import Program
from .report import Check

_cache = {}


def control_program(work, name, config="omp+avx2"):
    key = (name, config)
    if key not in _cache:
        src = os.path.join(VERIF, "controls", name)
        if not os.path.exists(src):
            raise AnalysisBroken("control file %s missing" % src)
        units = build.extract(work, repo=os.path.join(VERIF, "controls"), config=config, units=[], extra_units=[src])
        _cache[key] = Program(units, config, os.path.join(VERIF, "controls"))
    return _cache[key]


def run_control(ck, work, rule, fname, rule_fn, prefix):
    """Run rule_fn(sub_check, control_prog) and compare the functions it flags with the bad_/ok_ naming.
    prefix selects the control functions of this rule (e.g. 'r05a')."""
    prog = control_program(work, fname)
    sub = Check(ck.prop, ck.tier, ck.seed)
    sub.known = {}
    rule_fn(sub, prog)
    flagged = set()
    for v in sub.violations:
        parts = v["key"].split("/")
        if len(parts) > 1:
            flagged.add(parts[1])
    for F in prog.all_functions:
        if ("_%s_" % prefix) not in F.name:
            continue
        if F.name.startswith("bad_"):
            ck.control(rule, F.name, F.name in flagged, True)
        elif F.name.startswith("ok_"):
            ck.control(rule, F.name, F.name in flagged, False)
