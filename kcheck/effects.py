"""Interprocedural field-level effect summaries on pointer parameters (engine B of DESIGN 2.2,
realised over the kfacts AST instead of LLVM IR).

For a function F and one of its pointer parameters p the summary says which access paths
(sequences of struct fields starting at *p, array element steps are transparent) are read,
written, have their pointee read / written, are released, or escape in a way the analysis does
not follow ('unknown', which consumers must treat as "touches everything").

Aliasing model: flow-insensitive local aliases (a local pointer variable may denote any path one
of its definitions denotes), parameters are assumed not to alias each other unless the caller
passes the same path (checked by the consumer), heap objects are distinguished by access path only.
"""
from .model import access_mode

EXTERNAL = {
    # name: {arg index: effect on the pointee}    r = read, w = write, f = free
    "memcpy": {0: "w", 1: "r"}, "memmove": {0: "w", 1: "r"}, "memset": {0: "w"},
    "strncpy": {0: "w", 1: "r"}, "strcpy": {0: "w", 1: "r"}, "snprintf": {0: "w"}, "sprintf": {0: "w"},
    "strlen": {0: "r"}, "strnlen": {0: "r"}, "strncmp": {0: "r", 1: "r"}, "strcmp": {0: "r", 1: "r"},
    "strstr": {0: "r", 1: "r"}, "memcmp": {0: "r", 1: "r"},
    "free": {0: "f"}, "_mm_free": {0: "f"}, "realloc": {0: "f"},
    "qsort": {0: "w"},
    "fprintf": {}, "printf": {}, "fputs": {0: "r"}, "fclose": {}, "fwrite": {0: "r"}, "fread": {0: "w"},
    "fputc": {}, "putc": {}, "putchar": {}, "puts": {0: "r"}, "fflush": {}, "fopen": {0: "r", 1: "r"},
    "log_message": {}, "error": {}, "warning": {}, "message": {},
    # functions of values only: they receive no pointer
    "toupper": {}, "tolower": {}, "isalpha": {}, "isspace": {}, "ispunct": {}, "isdigit": {}, "isalnum": {}, "isupper": {}, "islower": {},
    "abs": {}, "fabs": {}, "fabsf": {}, "log": {}, "logf": {}, "exp": {}, "expf": {}, "sqrt": {}, "sqrtf": {}, "floor": {}, "ceil": {},
    "_mm256_load_ps": {0: "r"}, "_mm256_loadu_ps": {0: "r"}, "_mm256_store_ps": {0: "w"}, "_mm256_storeu_ps": {0: "w"},
    "_mm256_load_si256": {0: "r"}, "_mm256_loadu_si256": {0: "r"}, "_mm256_store_si256": {0: "w"},
}


class Summary:
    __slots__ = ("reads", "writes", "preads", "pwrites", "frees", "unknown")

    def __init__(self):
        self.reads, self.writes, self.preads, self.pwrites, self.frees = set(), set(), set(), set(), set()
        self.unknown = []

    def merge_prefixed(self, sub, prefix):
        for name in ("reads", "writes", "preads", "pwrites", "frees"):
            getattr(self, name).update(prefix + p for p in getattr(sub, name))
        self.unknown += sub.unknown

    def all_written(self):
        return self.writes | self.pwrites | self.frees

    def all_read(self):
        return self.reads | self.preads

    def __repr__(self):
        f = lambda s: sorted(".".join(p) or "*" for p in s)
        return "reads=%s writes=%s preads=%s pwrites=%s frees=%s unknown=%d" % (
            f(self.reads), f(self.writes), f(self.preads), f(self.pwrites), f(self.frees), len(self.unknown))


class Effects:
    def __init__(self, prog):
        self.prog = prog
        self.memo = {}
        self.active = set()

    # ---- alias analysis inside one function --------------------------------
    def _aliases(self, F, root_dids):
        """var did -> set of paths; root_dids: {did: path} seeds"""
        alias = {d: {p} for d, p in root_dids.items()}
        defs = []
        for n in F.body.walk():
            if n.k == "DeclStmt":
                for kid in n.kids:
                    if kid.role == "declinit":
                        defs.append((kid.decl["did"], kid))
            elif n.k == "BinaryOperator" and n.d["op"] == "=":
                l = n.kids[0].strip()
                if l.k == "DeclRefExpr" and l.d.get("dk") in ("Var", "Parm"):
                    defs.append((l.d["did"], n.kids[1]))
        changed = True
        it = 0
        while changed and it < 10:
            changed = False
            it += 1
            for did, rhs in defs:
                ps = self._derive(rhs, alias)
                if ps:
                    cur = alias.setdefault(did, set())
                    if not ps <= cur:
                        cur |= ps
                        changed = True
        return alias

    def _derive(self, e, alias):
        """set of paths the pointer value of expression e may denote (empty = unrelated to the roots)"""
        e = e.strip(casts=True)
        k = e.k
        if k == "DeclRefExpr":
            return set(alias.get(e.d["did"], ()))
        if k == "MemberExpr":
            base = e.kids[0]
            bp = self._derive(base, alias) if e.d.get("arrow") else self._lvalue_paths(base, alias)
            return {p + (e.d["field"],) for p in bp}
        if k == "ArraySubscriptExpr":
            return self._derive(e.kids[0], alias)           # element step is transparent
        if k == "UnaryOperator":
            if e.d["op"] == "*":
                return self._derive(e.kids[0], alias)
            if e.d["op"] == "&":
                return self._lvalue_paths(e.kids[0], alias)
            return set()
        if k == "BinaryOperator" and e.d["op"] in ("+", "-"):
            return self._derive(e.kids[0], alias) | self._derive(e.kids[1], alias)
        if k == "ConditionalOperator":
            return self._derive(e.kids[1], alias) | self._derive(e.kids[2], alias)
        if k in ("ImplicitCastExpr", "CStyleCastExpr", "ParenExpr") and e.kids:
            return self._derive(e.kids[0], alias)
        return set()

    def _lvalue_paths(self, lv, alias):
        """paths of the object an lvalue expression designates (for &x and x.f)"""
        lv = lv.strip()
        if lv.k == "DeclRefExpr":
            return set()           # address of a local: not derived from the roots
        if lv.k == "MemberExpr":
            base = lv.kids[0]
            bp = self._derive(base, alias) if lv.d.get("arrow") else self._lvalue_paths(base, alias)
            return {p + (lv.d["field"],) for p in bp}
        if lv.k == "ArraySubscriptExpr":
            return self._derive(lv.kids[0], alias)
        if lv.k == "UnaryOperator" and lv.d["op"] == "*":
            return self._derive(lv.kids[0], alias)
        return set()

    # ---- summaries ----------------------------------------------------------
    def of_param(self, fname, pi):
        key = (fname, pi)
        if key in self.memo:
            return self.memo[key]
        S = Summary()
        F = self.prog.functions.get(fname)
        if F is None:
            S.unknown.append("no definition of %s" % fname)
            return S
        if key in self.active:
            return S                      # recursion: the outer activation accumulates the effects
        if pi >= len(F.params):
            S.unknown.append("%s has no parameter %d" % (fname, pi))
            return S
        self.active.add(key)
        S = self._analyse(F, {F.params[pi]["did"]: ()})
        self.active.discard(key)
        # one more round for recursive functions so that self-calls see the first approximation
        self.memo[key] = S
        if any(c.callee == fname for c in F.body.calls()):
            self.memo[key] = self._analyse(F, {F.params[pi]["did"]: ()})
        return self.memo[key]

    def of_expr_roots(self, F, roots):
        """effects of a whole function body relative to several root variables {did: path}"""
        return self._analyse(F, roots)

    def of_stmt(self, F, stmt, roots):
        return self._analyse(F, roots, only=stmt)

    def _analyse(self, F, roots, only=None):
        S = Summary()
        alias = self._aliases(F, roots)
        scope = only if only is not None else F.body
        for n in scope.walk():
            k = n.k
            if k == "MemberExpr":
                base = n.kids[0]
                bp = self._derive(base, alias) if n.d.get("arrow") else self._lvalue_paths(base, alias)
                if not bp:
                    continue
                mode = access_mode(n)
                for p in bp:
                    path = p + (n.d["field"],)
                    if mode in ("write",):
                        S.writes.add(path)
                    elif mode == "rmw":
                        S.writes.add(path)
                        S.reads.add(path)
                    elif mode == "read":
                        S.reads.add(path)
                    elif mode.startswith("elem-"):
                        m2 = mode[5:]
                        if m2 in ("write", "rmw"):
                            S.writes.add(path)
                        if m2 in ("read", "rmw"):
                            S.reads.add(path)
                    elif mode in ("addr", "decay"):
                        # address of a field handed on: followed at call sites below via _lvalue_paths
                        pass
            elif k == "ArraySubscriptExpr" or (k == "UnaryOperator" and n.d["op"] == "*"):
                ptr = n.kids[0]
                pp = self._derive(ptr, alias)
                if not pp:
                    continue
                # array-typed fields (letter_freq[128]) are handled by the MemberExpr case above
                b0 = ptr.strip()
                if b0.k == "ImplicitCastExpr" and b0.d.get("ck") == "ArrayToPointerDecay":
                    continue
                mode = access_mode(n)
                for p in pp:
                    if mode in ("write", "rmw"):
                        S.pwrites.add(p)
                    if mode in ("read", "rmw"):
                        S.preads.add(p)
            elif k == "CallExpr":
                callee = n.callee
                if callee and callee not in EXTERNAL:
                    callee = self.prog.resolve(callee, n.d.get("loc", ""))
                for i, a in enumerate(n.args):
                    ap = self._derive(a, alias)
                    if not ap:
                        continue
                    if callee is None:
                        S.unknown.append("indirect call at %s receives %s" % (n.loc, a.text()))
                        continue
                    if callee in self.prog.functions and self.prog.functions[callee].body is not None and callee not in EXTERNAL:
                        sub = self.of_param(callee, i)
                        for p in ap:
                            S.merge_prefixed(sub, p)
                    elif callee in EXTERNAL:
                        eff = EXTERNAL[callee].get(i)
                        for p in ap:
                            if eff == "w":
                                S.pwrites.add(p)
                            elif eff == "r":
                                S.preads.add(p)
                            elif eff == "f":
                                S.frees.add(p)
                    elif callee.startswith("__builtin") or callee.startswith("_mm"):
                        for p in ap:
                            S.preads.add(p)
                    else:
                        S.unknown.append("external %s() at %s receives %s" % (callee, n.loc, a.text()))
            elif k == "BinaryOperator" and n.d["op"] == "=":
                # a derived pointer stored into memory that is not a local variable: escapes
                l = n.kids[0].strip()
                if l.k != "DeclRefExpr":
                    rp = self._derive(n.kids[1], alias)
                    lp = self._lvalue_paths(l, alias)
                    if rp and not lp and n.kids[1].ty.endswith("*"):
                        S.unknown.append("pointer %s stored into %s at %s" % (n.kids[1].text(), l.text(), n.loc))
        return S


def paths_conflict(w, other):
    """a written path conflicts with another access if one is a prefix of the other"""
    n = min(len(w), len(other))
    return w[:n] == other[:n]
