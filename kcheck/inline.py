"""Flattening of straight-line code with private helpers inlined.

Several rules read a short piece of code as a sequence of stores and calls (the cases of aln_continue, the state
bookkeeping of the runners).  A maintainer may move such a sequence into a small static helper (set_states(&m->f[0], ..),
aln_descend(m, serial), aln_split_setup(..)); the sequence of effects is the same.  `flatten` yields that sequence with
the helper's parameters replaced by the argument expressions of the call, so that a rule sees  m->f[0].a = input_states[0]
whichever way it is written.

Events:
  ("store", lhs_text, rhs_node, env, node)     lhs_text canonical, parameters substituted
  ("call", callee, call_node, env)              a call that was not inlined
  ("if", cond_node, env, then_events, else_events, node)
  ("loop", node, env, body_events)
  ("switch", cond_node, env, [(labels, events)], node)      labels as in util.switch_table; fall-through followed
  ("return", node, env)                         a return of the function the node belongs to (node.fn): inside an inlined
                                                helper it ends the helper (skip to its "leave"), not the caller
  ("enter"|"leave", helper name, call_node, env)
"""
from .build import AnalysisBroken

_TRANSPARENT = ("ParenExpr", "ImplicitCastExpr", "CStyleCastExpr")


class Env:
    """parameter decl id -> (argument node, environment of the caller)"""

    def __init__(self, m=None, fname=None):
        self.m = m or {}
        self.fname = fname            # name of the inlined helper this frame belongs to (None: the function being read)

    def get(self, did):
        return self.m.get(did)


def render(n, env):
    """text of expression n with parameters replaced by the arguments bound in env; &E->f is written E.f, *&E as E"""
    k = n.k
    if k in _TRANSPARENT:
        return render(n.kids[0], env) if n.kids else "?"
    if k == "DeclRefExpr":
        b = env.get(n.d.get("did")) if env is not None else None
        if b is not None:
            return render(b[0], b[1])
        if n.cv is not None and n.d.get("dk") not in ("Var", "Parm"):
            return str(n.cv)                  # an enumerator: its value
        al = _alias_of(n)
        if al is not None:
            return render(al, env)
        if env is not None and getattr(env, "fname", None) and n.d.get("dk") == "Var" and not n.d.get("g"):
            return "%s::%s" % (env.fname, n.d["name"])      # a local of an inlined helper: kept apart from the caller's names
        return n.d["name"]
    if k == "MemberExpr":
        base = render(n.kids[0], env) if n.kids else "?"
        if n.d.get("arrow"):
            if base.startswith("&"):
                return "%s.%s" % (base[1:], n.d["field"])
            return "%s->%s" % (base, n.d["field"])
        return "%s.%s" % (base, n.d["field"])
    if k == "ArraySubscriptExpr":
        ix = n.kids[1].strip(casts=True)
        return "%s[%s]" % (render(n.kids[0], env), str(ix.cv) if ix.cv is not None and ix.k != "DeclRefExpr" or
                           (ix.k == "DeclRefExpr" and ix.cv is not None and ix.d.get("dk") not in ("Var", "Parm")) else render(n.kids[1], env))
    if k == "UnaryOperator":
        inner = render(n.kids[0], env)
        if n.d.get("postfix"):
            return inner + n.d["op"]
        if n.d["op"] == "*" and inner.startswith("&"):
            return inner[1:]
        return n.d["op"] + inner
    if k in ("BinaryOperator", "CompoundAssignOperator"):
        return "%s %s %s" % (render(n.kids[0], env), n.d["op"], render(n.kids[1], env))
    if k == "ConditionalOperator":
        return "%s ? %s : %s" % (render(n.child("cond"), env), render(n.child("then"), env), render(n.child("else"), env))
    if k == "CallExpr":
        return "%s(%s)" % (n.callee or "?", ", ".join(render(a, env) for a in n.args))
    return n.text()


def _alias_of(ref):
    """a pointer local that is assigned exactly once, from &lvalue or a plain member path, and never modified (struct states*
    first = &m->f[0]): the expression it stands for, else None"""
    if ref.d.get("dk") != "Var" or ref.d.get("g") or not (ref.ty or "").endswith("*"):
        return None
    F = getattr(ref, "fn", None)
    if F is None:
        return None
    cache = F.__dict__.setdefault("_alias_cache", {})
    key = ref.d["did"]
    if key not in cache:
        from .util import local_defs
        defs = local_defs(F, ref.d["did"])
        val = None
        real = [d for d, nd in defs if not (d is not None and (d.strip(casts=True).cv == 0 or "NULL" in "".join(d.strip(casts=True).mac or [])))]
        if len(real) == 1 and real[0] is not None:
            d0 = real[0].strip(casts=True)
            ok = (d0.k == "UnaryOperator" and d0.d["op"] == "&") or d0.k in ("MemberExpr", "ArraySubscriptExpr")
            if ok and not any(x.k == "CallExpr" for x in d0.walk()) and not any(
                    x.k == "DeclRefExpr" and x.d.get("did") == ref.d["did"] for x in d0.walk()):
                val = d0
        cache[key] = val
    return cache[key]


def resolve(n, env):
    """the node an expression stands for after following parameter bindings: (node, env)"""
    x = n.strip(casts=True)
    while x.k == "DeclRefExpr" and env is not None and env.get(x.d.get("did")) is not None:
        b = env.get(x.d["did"])
        x, env = b[0].strip(casts=True), b[1]
    return x, env


def is_private_helper(prog, F, G, exclude=()):
    return G is not None and G is not F and G.name not in exclude and G.file == F.file and \
        (G.static or not any(True for H, c in prog.callers_of(G.name) if H.file != G.file))


_ALSO = ()


def flatten(prog, F, stmts, env=None, exclude=(), depth=0, stack=(), also=()):
    """see module docstring; stmts is a list of statement nodes of F executed in order.  `also`: names of functions to inline
    although they are not private helpers of F's file (small set-up functions of another module)"""
    global _ALSO
    ev = []
    old = _ALSO
    _ALSO = tuple(also)
    try:
        for s in stmts:
            _stmt(prog, F, s, env or Env(), exclude, depth, stack, ev)
    finally:
        _ALSO = old
    return ev


def _calls_in(expr):
    return [c for c in expr.walk() if c.k == "CallExpr"]


def _stmt(prog, F, s, env, exclude, depth, stack, ev):
    k = s.k
    if k == "CompoundStmt":
        for x in s.kids:
            _stmt(prog, F, x, env, exclude, depth, stack, ev)
        return
    if k in ("NullStmt", "BreakStmt", "DeclStmt") and k != "DeclStmt":
        return
    if k == "DeclStmt":
        for kid in s.kids:
            if kid.role == "declinit":
                _expr(prog, F, kid, env, exclude, depth, stack, ev)
                ev.append(("store", ("%s::%s" % (env.fname, kid.decl["name"])) if getattr(env, "fname", None) else kid.decl["name"], kid, env, s))
        return
    if k == "IfStmt":
        c = s.child("cond")
        _expr(prog, F, c, env, exclude, depth, stack, ev)
        th, el = [], []
        _stmt(prog, F, s.child("then"), env, exclude, depth, stack, th)
        if s.child("else") is not None:
            _stmt(prog, F, s.child("else"), env, exclude, depth, stack, el)
        ev.append(("if", c, env, th, el, s))
        return
    if k == "DoStmt" and s.child("cond") is not None and s.child("cond").strip(casts=True).cv == 0:
        # do { ... } while(0): the wrapper of a statement macro, executed once
        if s.child("body") is not None:
            _stmt(prog, F, s.child("body"), env, exclude, depth, stack, ev)
        return
    if k in ("ForStmt", "WhileStmt", "DoStmt"):
        body = []
        for r in ("init", "cond", "inc"):
            if s.child(r) is not None:
                _stmt(prog, F, s.child(r), env, exclude, depth, stack, body) if s.child(r).k == "DeclStmt" else \
                    _expr(prog, F, s.child(r), env, exclude, depth, stack, body)
        if s.child("body") is not None:
            _stmt(prog, F, s.child("body"), env, exclude, depth, stack, body)
        ev.append(("loop", s, env, body))
        return
    if k == "ReturnStmt":
        if s.kids:
            _expr(prog, F, s.kids[0], env, exclude, depth, stack, ev)
        ev.append(("return", s, env))
        return
    if k == "SwitchStmt":
        from .util import switch_table
        _expr(prog, F, s.child("cond"), env, exclude, depth, stack, ev)
        cases = []
        for labels, stmts in switch_table(s):
            body = []
            for x in stmts:
                if x.k != "BreakStmt":
                    _stmt(prog, F, x, env, exclude, depth, stack, body)
            cases.append((labels, body))
        ev.append(("switch", s.child("cond"), env, cases, s))
        return
    if k in ("GotoStmt", "LabelStmt", "CaseStmt", "DefaultStmt"):
        if k == "LabelStmt" and s.kids:
            _stmt(prog, F, s.kids[-1], env, exclude, depth, stack, ev)
            return
        if k == "GotoStmt":
            ev.append(("return", s, env))
            return
        ev.append(("opaque", s, env))
        return
    if "omp" in s.d:
        b = s.child("body")
        if b is not None:
            _stmt(prog, F, b, env, exclude, depth, stack, ev)
        return
    _expr(prog, F, s, env, exclude, depth, stack, ev)


def _expr(prog, F, e, env, exclude, depth, stack, ev):
    """events of one full expression, sub-expressions first (calls in argument position before the store)"""
    x = e
    while x.k in _TRANSPARENT and x.kids:
        x = x.kids[0]
    if x.k == "BinaryOperator" and x.d["op"] == "=":
        _expr(prog, F, x.kids[1], env, exclude, depth, stack, ev)
        for c in _calls_in(x.kids[0]):
            _call(prog, F, c, env, exclude, depth, stack, ev)
        ev.append(("store", render(x.kids[0], env), x.kids[1], env, x))
        return
    if x.k == "CompoundAssignOperator" or (x.k == "UnaryOperator" and x.d["op"] in ("++", "--")):
        for c in _calls_in(x):
            _call(prog, F, c, env, exclude, depth, stack, ev)
        ev.append(("store", render(x.kids[0], env), None, env, x))
        return
    if x.k == "CallExpr":
        _call(prog, F, x, env, exclude, depth, stack, ev)
        return
    if x.k == "BinaryOperator" and x.d["op"] == ",":
        _expr(prog, F, x.kids[0], env, exclude, depth, stack, ev)
        _expr(prog, F, x.kids[1], env, exclude, depth, stack, ev)
        return
    for kid in x.kids:
        _expr(prog, F, kid, env, exclude, depth, stack, ev)


def _call(prog, F, c, env, exclude, depth, stack, ev):
    for a in c.args:
        _expr(prog, F, a, env, exclude, depth, stack, ev)
    G = prog.fn(prog.resolve(c.callee, F.file), required=False) if c.callee else None
    if G is not None and depth < 3 and G.name not in stack and G.body is not None and \
            (is_private_helper(prog, F, G, exclude) or G.name in _ALSO):
        inner = Env({p["did"]: (a, env) for p, a in zip(G.params, c.args)}, fname=G.name)
        ev.append(("enter", G.name, c, env))
        _stmt(prog, G, G.body, inner, exclude, depth + 1, stack + (G.name,), ev)
        ev.append(("leave", G.name, c, env))
        return
    ev.append(("call", c.callee, c, env))


def walk_events(events):
    """all events, nested ones included, in textual order"""
    for e in events:
        yield e
        if e[0] == "if":
            for x in walk_events(e[3]):
                yield x
            for x in walk_events(e[4]):
                yield x
        elif e[0] == "loop":
            for x in walk_events(e[3]):
                yield x
        elif e[0] == "switch":
            for _, body in e[3]:
                for x in walk_events(body):
                    yield x


def executed(events, decide):
    """the store / call events executed when every if is resolved by decide(cond_node, env) -> True | False | None
    (None: both branches are followed, then-branch first; a return inside an undecided branch does not end the sequence).
    Returns (events, ended) where ended is the name of the function whose return was reached (None if the sequence
    ran to its end)."""
    out = []
    skip_to = None
    for i, e in enumerate(events):
        if skip_to is not None:
            if e[0] == "leave" and e[1] == skip_to:
                skip_to = None
            continue
        ended = None
        if e[0] in ("store", "call"):
            out.append(e)
        elif e[0] == "if":
            d = decide(e[1], e[2])
            for br, take in ((e[3], d is not False), (e[4], d is not True)):
                if take:
                    sub, end = executed(br, decide)
                    out += sub
                    if end is not None and d is not None:
                        ended = end
        elif e[0] == "loop":
            out += executed(e[3], decide)[0]
        elif e[0] == "switch":
            for _, body in e[3]:
                out += executed(body, decide)[0]
        elif e[0] == "return":
            ended = e[1].fn.name if getattr(e[1], "fn", None) is not None else "?"
        if ended is not None:
            if any(x[0] == "leave" and x[1] == ended for x in events[i + 1:]):
                skip_to = ended
            else:
                return out, ended
    return out, None
