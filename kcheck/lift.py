"""Interprocedural view of 'F calls X' for ordering rules, so that extracting part of a pipeline
function into a helper does not change the verdict.

  must(g)  = functions that run on every path of g from entry to a success return (directly, or
             inside a callee that itself must run them)
  may(g)   = functions reachable from g in the call graph
A call site c in F is a *must-site* of X if callee(c) == X or X in must(callee(c)), and a
*may-site* of X if callee(c) == X or X in may(callee(c)).
"""
from .build import AnalysisBroken


class Lifted:
    def __init__(self, prog, cg):
        self.prog = prog
        self.cg = cg
        self._must = {}
        self._may = {}
        self._active = set()

    def may(self, g):
        if g not in self._may:
            self._may[g] = set(self.cg.reachable({g})) - {g} if g in self.cg.defined else set()
        return self._may[g]

    def must(self, g):
        if g in self._must:
            return self._must[g]
        F = self.cg.defined.get(g)
        if F is None or F.cfg is None or g in self._active:
            return set()
        self._active.add(g)
        cfg = F.cfg
        out = set()
        calls = [c for c in F.body.calls() if c.callee]
        cands = {}
        for c in calls:
            names = {c.callee} | (self.must(c.callee) if c.callee in self.cg.defined and c.callee != g else set())
            for n in names:
                cands.setdefault(n, []).append(c)
        for n, cs in cands.items():
            pos = [cfg.position(c) for c in cs]
            pos = [p for p in pos if p is not None]
            if not F.succeeds_avoiding(pos):
                out.add(n)
        self._active.discard(g)
        self._must[g] = out
        return out

    def sites(self, F, X, mode):
        """call nodes of F that are must-/may-sites of X"""
        out = []
        for c in F.body.calls():
            if not c.callee:
                continue
            if c.callee == X:
                out.append(c)
            elif c.callee in self.cg.defined and c.callee != F.name:
                s = self.must(c.callee) if mode == "must" else self.may(c.callee)
                if X in s:
                    out.append(c)
        return out

    def passes_through(self, F, X):
        """every path of F to a success return runs X (directly or inside a helper)"""
        cfg = F.cfg
        avoid = [cfg.position(c) for c in self.sites(F, X, "must")]
        return bool(avoid) and not F.succeeds_avoiding(avoid)

    def precedes(self, F, A, B, depth=0):
        """on every path of F, whenever B may run, A has run before (and A cannot run after B).
        returns None if it holds, else a short reason"""
        cfg = F.cfg
        a_must = self.sites(F, A, "must")
        a_may = self.sites(F, A, "may")
        b_may = self.sites(F, B, "may")
        if not b_may:
            return None
        apos = [cfg.position(c) for c in a_must]
        for cb in b_may:
            pb = cfg.position(cb)
            if cb in a_may:
                # both inside the same helper call: the order is decided inside the helper
                H = self.cg.defined.get(cb.callee)
                if cb.callee == A or cb.callee == B or H is None or depth > 3:
                    return "%s and %s are not separable at %s" % (A, B, cb.loc)
                r = self.precedes(H, A, B, depth + 1)
                if r:
                    return r
                continue
            if cfg.reaches(None, pb, avoid=apos):
                return "%s can run (via %s) without %s having run" % (B, cb.callee, A)
            for ca in a_may:
                if ca is not cb and cfg.reaches(pb, cfg.position(ca)):
                    return "%s can run again (via %s) after %s" % (A, ca.callee, B)
        return None

    def find_call(self, F, X, depth=0):
        """the unique direct call of X in F or in the helpers F calls; returns (function, call) list"""
        out = [(F, c) for c in F.body.calls(X)]
        if depth < 3:
            for c in F.body.calls():
                if c.callee and c.callee != X and c.callee in self.cg.defined and c.callee != F.name and X in self.may(c.callee):
                    H = self.cg.defined[c.callee]
                    # only helpers private to this pipeline: static functions of the same file
                    if H.static and H.file == F.file:
                        out += self.find_call(H, X, depth + 1)
        return out
