"""Max-plus value numbering of straight-line float code (the DP recurrences of the three kernels).

A value is a finite set of alternatives (their maximum); an alternative is a linear form with integer
coefficients over symbolic atoms.  -FLT_MAX is the empty set (identity of max, absorbing for +).  Any
expression built from MAX / MAX3 (i.e. `x > y ? x : y`), + and - of atoms has a unique normal form, so two
recurrences that are written differently but compute the same maximum get the same value
(MAX3(a, b-o, c-o) == MAX(a, MAX(b, c)-o)).  Nothing is executed: a statement list is walked once, every
variable and every DP cell holds a normal form over the values at entry of the list.

Atoms:
  <local>@in           value of a float local at entry of the segment
  s[<idx>].<f>@in      value of a DP cell at entry of the segment
  O / E / T            gap open / extension / terminal penalty.  ap-derived scalars (gpo, gpe, tgpe and locals
                       defined from them) evaluate to +O/+E/+T; profile columns 27/28/29 (mod 64) hold the
                       negated, pre-scaled penalties and evaluate to -O/-E/-T
  S                    the substitution score of the current cell (matrix row entry, profile column entry
                       32+letter, or the accumulated product of two profile columns)
"""
from .build import AnalysisBroken
from .util import local_defs


class Unsupported(Exception):
    pass


NEG_INF = frozenset()


def lf(items=(), ):
    return frozenset((k, v) for k, v in dict(items).items() if v != 0)


def atom(name, coeff=1):
    return frozenset([lf({name: coeff})])


ZERO = frozenset([lf()])


def vmax(a, b):
    return a | b


def _addlf(x, y):
    d = dict(x)
    for k, v in y:
        d[k] = d.get(k, 0) + v
    return lf(d)


def vadd(a, b):
    return frozenset(_addlf(x, y) for x in a for y in b)


def vneg(a):
    if len(a) != 1:
        raise Unsupported("negation of a maximum")
    (x,) = a
    return frozenset([lf({k: -v for k, v in x})])


def show(v):
    if v == NEG_INF:
        return "-inf"
    alts = []
    for x in sorted(v, key=lambda x: sorted(x)):
        t = ""
        for k, c in sorted(x):
            t += (" + " if c > 0 else " - ") + (k if abs(c) == 1 else "%d*%s" % (abs(c), k))
        alts.append(t.strip().lstrip("+ ").strip() or "0")
    return alts[0] if len(alts) == 1 else "max(" + ", ".join(alts) + ")"


PEN_FIELDS = {"gpo": "O", "gpe": "E", "tgpe": "T"}
PEN_COLS = {27: "O", 28: "E", 29: "T"}


class Eval:
    """symbolic state of one segment"""

    def __init__(self, F, cell_base, idx_canon):
        self.F = F
        self.cell_base = cell_base        # predicate: node -> True if it is the DP row pointer (struct states*)
        self.idx_canon = idx_canon        # node -> canonical text of a row index
        self.loc = {}                     # did -> value (float locals)
        self.names = {}                   # did -> name
        self.cells = {}                   # (idx, field) -> value
        self.read_in = set()              # atoms read at entry
        self.where = {}                   # output name -> node of the last store
        self.consts = {}                  # did -> value of float locals defined once from penalties only
        self.cond_resolver = None         # cond node -> True / False / None (border tests decided by the situation)
        self.call_hook = None             # call node -> value (helpers walked in place)

    def copy(self):
        e = Eval(self.F, self.cell_base, self.idx_canon)
        e.loc, e.names, e.cells, e.read_in = dict(self.loc), dict(self.names), dict(self.cells), set(self.read_in)
        e.where = dict(self.where)
        return e

    # ---------------------------------------------------------------- expressions
    def penalty_class(self, n, depth=0):
        """class of an ap-derived penalty scalar: a field gpo/gpe/tgpe, or a local whose one definition reads one"""
        n = n.strip(casts=True)
        if n.k == "MemberExpr" and n.d.get("field") in PEN_FIELDS:
            return PEN_FIELDS[n.d["field"]]
        if n.k == "DeclRefExpr" and n.d.get("dk") in ("Var", "Parm") and depth < 3:
            defs = local_defs(self.F, n.d["did"])
            if len(defs) == 1 and defs[0][0] is not None:
                cls = {PEN_FIELDS[m.d["field"]] for m in defs[0][0].find("MemberExpr") if m.d.get("field") in PEN_FIELDS}
                if len(cls) == 1:
                    return cls.pop()
        return None

    def penalty_class_of_def(self, init):
        """a declaration `const float gpo = m->ap->gpo;` / `open = ap->gpo * sip`: the local is a penalty scalar"""
        return any(m.d.get("field") in PEN_FIELDS for m in init.find("MemberExpr")) and init.strip(casts=True).k != "ConditionalOperator"

    def is_float(self, n):
        return n.ty in ("float", "double", "const float", "const double")

    def ev(self, n):
        n = n.strip(casts=True)
        k = n.k
        if k in ("IntegerLiteral", "FloatingLiteral"):
            if any("FLT_MAX" in m for m in n.mac):
                raise Unsupported("+FLT_MAX")
            if n.cv == 0 or n.d.get("val") in (0, 0.0, "0", "0.0"):
                return ZERO
            raise Unsupported("numeric literal %s" % n.text())
        if k == "UnaryOperator" and n.d["op"] == "-":
            o = n.kids[0].strip(casts=True)
            if any("FLT_MAX" in m for m in o.mac) or "FLT_MAX" in o.text():
                return NEG_INF
            return vneg(self.ev(o))
        if k == "CallExpr" and self.call_hook is not None:
            return self.call_hook(n)
        if k == "ConditionalOperator":
            c = n.child("cond").strip(casts=True)
            t, e = n.child("then"), n.child("else")
            if self.cond_resolver is not None:
                r = self.cond_resolver(n.child("cond"))
                if r is not None:
                    return self.ev(t if r else e)
            if c.k == "BinaryOperator" and c.d["op"] in (">", ">=", "<", "<="):
                l, r = c.kids[0], c.kids[1]
                nt, ne, nl, nr = (x.strip(casts=True).text().replace(" ", "") for x in (t, e, l, r))
                greater = c.d["op"] in (">", ">=")
                if (greater and nt == nl and ne == nr) or (not greater and nt == nr and ne == nl):
                    return vmax(self.ev(t), self.ev(e))
            raise Unsupported("conditional expression that is not a maximum: %s" % n.text()[:60])
        if k == "BinaryOperator" and n.d["op"] in ("+", "-"):
            a, b = self.ev(n.kids[0]), self.ev(n.kids[1])
            return vadd(a, b if n.d["op"] == "+" else vneg(b))
        if k == "BinaryOperator" and n.d["op"] == "*":
            # product of two profile entries (frequency x score): the substitution score
            if all(self._is_profile_entry(x) for x in n.kids):
                return atom("S")
            raise Unsupported("product %s" % n.text()[:60])
        if k == "DeclRefExpr":
            cls = self.penalty_class(n)
            if cls:
                return atom(cls)
            did = n.d.get("did")
            if did in self.loc:
                return self.loc[did]
            if did in self.consts:
                return self.consts[did]
            if self.is_float(n) and n.d.get("dk") == "Var" and not n.d.get("g"):
                a = "%s@in" % n.d["name"]
                self.read_in.add(a)
                return atom(a)
            raise Unsupported("read of %s" % n.text())
        if k == "MemberExpr":
            cls = self.penalty_class(n)
            if cls:
                return atom(cls)
            b = n.kids[0].strip(casts=True)
            if b.k == "ArraySubscriptExpr" and self.cell_base(b.kids[0]):
                key = (self.idx_canon(b.kids[1]), n.d["field"])
                if key in self.cells:
                    return self.cells[key]
                a = "s[%s].%s@in" % key
                self.read_in.add(a)
                return atom(a)
            raise Unsupported("read of %s" % n.text())
        if k == "ArraySubscriptExpr" and self.is_float(n):
            i = n.kids[1].strip(casts=True)
            if i.cv is not None:
                c = i.cv % 64
                if c in PEN_COLS:
                    return atom(PEN_COLS[c], -1)
                raise Unsupported("profile column %d" % i.cv)
            return atom("S")            # matrix row / profile column indexed by a residue
        raise Unsupported("%s %s" % (k, n.text()[:60]))

    def _is_profile_entry(self, n):
        n = n.strip(casts=True)
        return n.k == "ArraySubscriptExpr" and self.is_float(n)

    # ---------------------------------------------------------------- statements
    def assign(self, lhs, val):
        l = lhs.strip(casts=True)
        if l.k == "DeclRefExpr" and l.d.get("dk") in ("Var", "Parm") and not l.d.get("g"):
            self.loc[l.d["did"]] = val
            self.names[l.d["did"]] = l.d["name"]
            self.where[l.d["name"]] = lhs
            return
        if l.k == "MemberExpr":
            b = l.kids[0].strip(casts=True)
            if b.k == "ArraySubscriptExpr" and self.cell_base(b.kids[0]):
                key = (self.idx_canon(b.kids[1]), l.d["field"])
                self.cells[key] = val
                self.where["s[%s].%s" % key] = lhs
                return
        raise Unsupported("store to %s" % lhs.text()[:60])

    def outputs(self):
        out = {}
        for (i, f), v in self.cells.items():
            out["s[%s].%s" % (i, f)] = v
        for did, v in self.loc.items():
            out[self.names[did]] = v
        return out
