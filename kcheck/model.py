"""Resolved-program model over kfacts output: nodes, functions, program, CFG."""
import os
from collections import defaultdict

from .build import AnalysisBroken

_ROLE_ORDER = {
    "IfStmt": ("cond", "then", "else"),
    "WhileStmt": ("cond", "body"),
    "DoStmt": ("body", "cond"),
    "ForStmt": ("init", "cond", "inc", "body"),
    "SwitchStmt": ("cond", "body"),
    "CaseStmt": ("lhs", "sub"),
    "DefaultStmt": ("sub",),
    "LabelStmt": ("sub",),
    "ConditionalOperator": ("cond", "then", "else"),
}
_TRANSPARENT = ("ParenExpr", "ImplicitCastExpr")
ASSIGN_OPS = ("=", "+=", "-=", "*=", "/=", "%=", "&=", "|=", "^=", "<<=", ">>=")


class N:
    """One AST node.  d = the raw fact dict; kids = ordered children (source order)."""
    __slots__ = ("d", "parent", "role", "fn", "k", "id", "kids", "decl")

    def __init__(self, d, parent, role, fn, decl=None):
        self.d = d
        self.parent = parent
        self.role = role
        self.fn = fn
        self.k = d["k"]
        self.id = d["id"]
        self.decl = decl          # for role 'declinit': the VarDecl fact dict
        self.kids = []
        if fn is not None:
            fn.by_id[self.id] = self
        if "decls" in d:
            for dd in d["decls"]:
                if dd.get("init"):
                    self.kids.append(N(dd["init"], self, "declinit", fn, dd))
        order = _ROLE_ORDER.get(self.k)
        if order:
            for key in order:
                if d.get(key):
                    self.kids.append(N(d[key], self, key, fn))
        elif "omp" in d:
            for cl in d.get("clauses", []):
                for e in cl.get("exprs", []):
                    if e:
                        self.kids.append(N(e, self, "clause:" + cl["kind"], fn))
            if d.get("body"):
                self.kids.append(N(d["body"], self, "body", fn))
        for i, c in enumerate(d.get("c", [])):
            if c:
                self.kids.append(N(c, self, i, fn))

    # ---- basic attributes -------------------------------------------------
    def get(self, key, default=None):
        return self.d.get(key, default)

    @property
    def loc(self):
        l = self.d.get("loc", "")
        parts = l.rsplit(":", 2)
        if len(parts) == 3:
            return "%s:%s" % (parts[0], parts[1])
        return l

    @property
    def line(self):
        try:
            return int(self.d.get("loc", "").rsplit(":", 2)[1])
        except Exception:
            return 0

    @property
    def ty(self):
        return self.d.get("ty", "")

    @property
    def mac(self):
        return self.d.get("mac", [])

    @property
    def cv(self):
        return self.d.get("cv")

    def child(self, role):
        for c in self.kids:
            if c.role == role:
                return c
        return None

    def walk(self):
        stack = [self]
        while stack:
            n = stack.pop()
            yield n
            stack.extend(reversed(n.kids))

    def find(self, *kinds):
        for n in self.walk():
            if n.k in kinds:
                yield n

    def ancestors(self):
        p = self.parent
        while p is not None:
            yield p
            p = p.parent

    def within(self, other):
        n = self
        while n is not None:
            if n is other:
                return True
            n = n.parent
        return False

    # ---- expression helpers ----------------------------------------------
    def strip(self, casts=False):
        n = self
        while n.kids and (n.k in _TRANSPARENT or (casts and n.k == "CStyleCastExpr")):
            n = n.kids[0]
        return n

    def up(self, casts=False):
        """First ancestor that is not a paren / implicit cast; returns (ancestor, child-on-path)."""
        c, p = self, self.parent
        while p is not None and (p.k in _TRANSPARENT or (casts and p.k == "CStyleCastExpr")):
            c, p = p, p.parent
        return p, c

    def is_call(self, *names):
        return self.k == "CallExpr" and (not names or self.d.get("callee") in names)

    @property
    def callee(self):
        return self.d.get("callee") if self.k == "CallExpr" else None

    @property
    def args(self):
        return self.kids[1:] if self.k == "CallExpr" else []

    def text(self):
        """Canonical C-like rendering ignoring parens and implicit casts."""
        n = self
        k = n.k
        if k in _TRANSPARENT:
            return n.kids[0].text() if n.kids else "?"
        if k == "DeclRefExpr":
            return n.d["name"]
        if k == "MemberExpr":
            return "%s%s%s" % (n.kids[0].text() if n.kids else "?", "->" if n.d.get("arrow") else ".", n.d["field"])
        if k == "ArraySubscriptExpr":
            return "%s[%s]" % (n.kids[0].text(), n.kids[1].text())
        if k == "IntegerLiteral":
            return str(n.d["v"])
        if k == "CharacterLiteral":
            v = n.d["v"]
            return "'%s'" % chr(v) if 32 <= v < 127 else "'\\x%02x'" % v
        if k == "FloatingLiteral":
            return repr(n.d["v"])
        if k == "StringLiteral":
            return '"%s"' % n.d.get("s", "")
        if k == "UnaryOperator":
            if n.d.get("postfix"):
                return "%s%s" % (n.kids[0].text(), n.d["op"])
            return "%s%s" % (n.d["op"], n.kids[0].text())
        if k in ("BinaryOperator", "CompoundAssignOperator"):
            return "(%s %s %s)" % (n.kids[0].text(), n.d["op"], n.kids[1].text())
        if k == "CallExpr":
            return "%s(%s)" % (n.kids[0].text(), ", ".join(a.text() for a in n.kids[1:]))
        if k == "CStyleCastExpr":
            return "(%s)%s" % (n.ty, n.kids[0].text())
        if k == "ConditionalOperator":
            return "(%s ? %s : %s)" % tuple(c.text() for c in n.kids[:3])
        if k == "UnaryExprOrTypeTraitExpr":
            return "sizeof(%s)" % n.d.get("of", "?")
        return "%s(%s)" % (k, ", ".join(c.text() for c in n.kids))

    def refs(self, name=None, did=None):
        for n in self.find("DeclRefExpr"):
            if (name is None or n.d["name"] == name) and (did is None or n.d["did"] == did):
                yield n

    def calls(self, *names):
        for n in self.find("CallExpr"):
            if not names or n.d.get("callee") in names:
                yield n

    def __repr__(self):
        return "<%s %s %s>" % (self.k, self.loc, self.text()[:60] if self.k.endswith("Expr") or self.k.endswith("Operator") or self.k.endswith("Literal") else "")


def access_mode(n):
    """How the lvalue denoted by expression node n is used.

    Returns one of: 'read', 'write', 'rmw', 'addr', 'none', and for array-typed
    lvalues 'elem-<mode>' when subscripted, or 'decay' when the array decays to a
    pointer that is used otherwise.
    """
    p, c = n.up()
    if p is None:
        return "none"
    # what sits directly above (including the implicit casts we skipped)?
    q = n.parent
    while q is not None and q.k == "ParenExpr":
        q = q.parent
    if q is not None and q.k == "ImplicitCastExpr":
        ck = q.d.get("ck")
        if ck == "ArrayToPointerDecay":
            pp, cc = q.up()
            if pp is not None and pp.k == "ArraySubscriptExpr" and pp.kids[0] is cc or \
               (pp is not None and pp.k == "ArraySubscriptExpr" and cc.within(pp.kids[0])):
                return "elem-" + access_mode(pp)
            return "decay"
        if ck == "LValueToRValue":
            return "read"
    if p.k == "BinaryOperator" and p.d["op"] == "=" and p.kids[0] is c:
        return "write"
    if p.k == "CompoundAssignOperator" and p.kids[0] is c:
        return "rmw"
    if p.k == "UnaryOperator":
        if p.d["op"] in ("++", "--"):
            return "rmw"
        if p.d["op"] == "&":
            return "addr"
    if p.k == "MemberExpr" and not p.d.get("arrow"):
        return access_mode(p)
    if p.k == "UnaryExprOrTypeTraitExpr":
        return "none"
    return "read"


class Block:
    __slots__ = ("id", "el", "term", "label", "succ", "pred", "noreturn")


class CFG:
    """clang's CFG for one function; positions are (block id, element index)."""

    def __init__(self, fn, d):
        self.fn = fn
        self.blocks = {}
        self.entry = d["entry"]
        self.exit = d["exit"]
        for b in d["blocks"]:
            B = Block()
            B.id = b["id"]
            B.el = [e for e in b["el"] if isinstance(e, int)]
            B.term = b.get("term")
            B.label = b.get("label")
            B.succ = [s for s in b["succ"] if s is not None]
            B.pred = []
            B.noreturn = b.get("noreturn", False)
            self.blocks[B.id] = B
        for B in self.blocks.values():
            for s in B.succ:
                self.blocks[s].pred.append(B.id)
        self.pos = {}
        for B in self.blocks.values():
            for i, e in enumerate(B.el):
                self.pos.setdefault(e, (B.id, i))
        self._dom = None
        # pure jumps (goto / break / continue) are block terminators, not elements: their position is
        # "after the last element of the block they end"
        self.jumppos = {}
        for B in self.blocks.values():
            if B.term is not None:
                self.jumppos[B.term] = (B.id, len(B.el))

    def position(self, node):
        """CFG position of an AST node: the node itself or its nearest ancestor/descendant element."""
        n = node
        if n is not None and n.k in ("GotoStmt", "BreakStmt", "ContinueStmt") and n.id in self.jumppos:
            return self.jumppos[n.id]
        while n is not None:
            if n.id in self.pos:
                return self.pos[n.id]
            n = n.parent
        return None

    def reachable_blocks(self, start=None):
        start = self.entry if start is None else start
        seen = {start}
        st = [start]
        while st:
            b = st.pop()
            for s in self.blocks[b].succ:
                if s not in seen:
                    seen.add(s)
                    st.append(s)
        return seen

    def reaches(self, src, dst, avoid=()):
        """Is there a path from position src (exclusive) to position dst (inclusive start of
        the element) that does not execute any position in `avoid`?  Positions are (block, idx);
        dst may also be a block id meaning 'entry of that block'."""
        avoid_by_block = defaultdict(list)
        for (b, i) in avoid:
            avoid_by_block[b].append(i)
        if isinstance(dst, int):
            dst = (dst, -1)

        def scan(b, start_idx):
            """walk block b from element index start_idx; return (hit_dst, falls_through)"""
            n = len(self.blocks[b].el)
            stops = sorted(i for i in avoid_by_block.get(b, ()) if i >= start_idx)
            limit = stops[0] if stops else None
            if dst[0] == b and dst[1] >= start_idx and (limit is None or dst[1] <= limit):
                # reaching the dst element itself counts even if dst is also in avoid
                return True, False
            if dst[0] == b and dst[1] == -1 and start_idx == 0:
                return True, False
            return False, limit is None

        if src is None:
            src = (self.entry, -1)
        hit, ft = scan(src[0], src[1] + 1)
        if hit:
            return True
        if not ft:
            return False
        seen = set()
        st = list(self.blocks[src[0]].succ)
        while st:
            b = st.pop()
            if b in seen:
                continue
            seen.add(b)
            hit, ft = scan(b, 0)
            if hit:
                return True
            if ft:
                st.extend(self.blocks[b].succ)
        return False

    def dominators(self):
        if self._dom is not None:
            return self._dom
        reach = self.reachable_blocks()
        order = [b for b in sorted(reach, reverse=True)]
        dom = {b: set(reach) for b in reach}
        dom[self.entry] = {self.entry}
        changed = True
        while changed:
            changed = False
            for b in order:
                if b == self.entry:
                    continue
                preds = [p for p in self.blocks[b].pred if p in reach]
                if not preds:
                    continue
                new = set.intersection(*(dom[p] for p in preds)) | {b}
                if new != dom[b]:
                    dom[b] = new
                    changed = True
        self._dom = dom
        return dom

    def dominates(self, a, b):
        """position a dominates position b"""
        if a is None or b is None:
            return False
        if a[0] == b[0]:
            return a[1] <= b[1]
        dom = self.dominators()
        return b[0] in dom and a[0] in dom[b[0]]


class Function:
    def __init__(self, d, unit):
        self.d = d
        self.unit = unit
        self.name = d["name"]
        self.static = d.get("static", False)
        self.params = d["params"]
        self.by_id = {}
        self.body = N(d["body"], None, "body", self)
        self.cfg = CFG(self, d["cfg"]) if d.get("cfg") else None
        loc = d.get("loc", "")
        self.file = loc.rsplit(":", 2)[0]
        self.loc = ":".join(loc.rsplit(":", 2)[:2])
        self._returns = None

    def param_index(self, name):
        for i, p in enumerate(self.params):
            if p["name"] == name:
                return i
        return None

    def returns(self):
        if self._returns is None:
            self._returns = list(self.body.find("ReturnStmt"))
        return self._returns

    def success_returns(self):
        """Return statements that are not the failure exit (return FAIL / NULL / EXIT_FAILURE)."""
        out = []
        for r in self.returns():
            if not r.kids:
                out.append(r)
                continue
            v = r.kids[0].strip(casts=True)
            macs = set(r.kids[0].mac) | set(v.mac)
            if macs & {"FAIL", "EXIT_FAILURE"}:
                continue
            if "NULL" in macs:
                continue
            out.append(r)
        return out

    def error_jumps(self):
        """CFG positions of the jumps into the failure exit (goto ERROR / FAIL ...): a path that takes one is a
        failure path even if the function has a single `return status;`"""
        if getattr(self, "_ej", None) is None:
            import re as _re
            self._ej = [p for p in (self.cfg.position(g) for g in self.body.find("GotoStmt")
                                    if _re.search(r"err|fail", g.d["label"], _re.I)) if p is not None]
        return self._ej

    def succeeds_avoiding(self, avoid):
        """is there a path from entry to a success return that takes no failure jump and executes none of `avoid`?"""
        cfg = self.cfg
        av = list(avoid) + self.error_jumps()
        rets = self.success_returns()
        if not self.returns():
            return cfg.reaches(None, (cfg.exit, -1), avoid=av)
        for r in rets:
            rp = cfg.position(r)
            if rp is not None and cfg.reaches(None, rp, avoid=av):
                return True
        return False

    def label(self, name):
        for n in self.body.find("LabelStmt"):
            if n.d["label"] == name:
                return n
        return None

    def __repr__(self):
        return "<fn %s %s>" % (self.name, self.loc)


class Program:
    """All units of one configuration."""

    def __init__(self, units, config, repo):
        self.config = config
        self.repo = repo
        self.units = units
        self.functions = {}          # name -> Function (first definition; statics keyed name@file too)
        self.all_functions = []
        self.records = {}
        self.macros = {}
        self.globals = []
        self.protos = defaultdict(list)
        seen = set()
        for src, u in sorted(units.items()):
            for r in u["records"]:
                self.records.setdefault(r["name"], r)
            for m in u["macros"]:
                if not m.get("cmdline"):
                    self.macros.setdefault(m["name"], m)
            for g in u["globals"]:
                key = (g["name"], g["loc"])
                if key not in seen:
                    seen.add(key)
                    g = dict(g)
                    g["unit"] = src
                    self.globals.append(g)
            for p in u["protos"]:
                self.protos[p["name"]].append(p)
            for f in u["functions"]:
                key = ("fn", f["name"], f["loc"])
                if key in seen:
                    continue
                seen.add(key)
                F = Function(f, src)
                F.prog = self
                self.all_functions.append(F)
                # the plain name denotes the externally visible definition; a file-local (static) one of the same name is
                # reachable through "name@file.c" (Program.resolve)
                cur = self.functions.get(F.name)
                if cur is None or (cur.static and not F.static):
                    self.functions[F.name] = F
                self.functions["%s@%s" % (F.name, os.path.basename(F.file))] = F

    def fn(self, name, required=True):
        f = self.functions.get(name)
        if f is None and required:
            raise AnalysisBroken("slot: function '%s' not found in configuration %s" % (name, self.config))
        return f

    def record(self, name):
        r = self.records.get(name)
        if r is None:
            raise AnalysisBroken("slot: struct '%s' not found" % name)
        return r

    def field(self, rec, name):
        for f in self.record(rec)["fields"]:
            if f["name"] == name:
                return f
        raise AnalysisBroken("slot: field %s.%s not found" % (rec, name))

    def macro_int(self, name):
        m = self.macros.get(name)
        if m is None:
            raise AnalysisBroken("slot: macro '%s' not defined" % name)
        body = m["body"].strip()
        while body.startswith("(") and body.endswith(")"):
            body = body[1:-1].strip()
        try:
            return int(body, 0)
        except ValueError:
            raise AnalysisBroken("slot: macro '%s' is not an integer literal (%r)" % (name, m["body"]))

    def rel(self, path):
        if path.startswith(self.repo.rstrip("/") + "/"):
            return path[len(self.repo.rstrip("/")) + 1:]
        return path

    def resolve(self, name, from_loc):
        """key of prog.functions for a call of `name` made at source location from_loc: the definition in the same file if
        there is one (a static function shadows the external one of the same name), else the plain name"""
        if not name:
            return name
        q = "%s@%s" % (name, os.path.basename((from_loc or "").split(":")[0]))
        return q if q in self.functions else name

    def lib_functions(self):
        for F in self.all_functions:
            if "/lib/" in F.file:
                yield F

    def callers_of(self, name):
        for F in self.all_functions:
            for c in F.body.calls(name):
                yield F, c
