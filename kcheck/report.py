"""Verdict bookkeeping: rule instances, floors, known findings, evidence, replays."""
import hashlib
import json
import os
import re
import sys
import time

from .build import VERIF, AnalysisBroken

KNOWN = os.path.join(VERIF, "known_findings.txt")


def load_known():
    """known_findings.txt lines:
         finding: property=<id> key=<rule>/<function>/<construct> :: <what fails>
         fixed: property=<id> <commit> <what failed>          (suppresses nothing)
    """
    out = {}
    if not os.path.exists(KNOWN):
        return out
    for line in open(KNOWN):
        line = line.strip()
        m = re.match(r"finding:\s+property=(\S+)\s+key=(\S+)\s*::\s*(.*)$", line)
        if m:
            out[(m.group(1), m.group(2))] = m.group(3)
    return out


class Check:
    def __init__(self, prop, tier, seed):
        self.prop = prop
        self.tier = tier
        self.seed = seed
        self.t0 = time.time()
        self.instances = []      # dicts: rule, site, what, config
        self.violations = []     # dicts: rule, key, site, msg, config
        self.infos = []
        self.rules = {}          # rule -> description
        self.assumptions = []
        self.not_decided = []
        self.configs = []
        self.controls = []       # (rule, control, fired)
        self.known = load_known()
        self.broken = []

    # -- recording ------------------------------------------------------------
    def rule(self, rid, desc):
        self.rules[rid] = desc

    def inst(self, rule, site, what, config=""):
        self.instances.append({"rule": rule, "site": site, "what": what, "config": config})

    def violation(self, rule, key, site, msg, config="", path=None):
        """key = '<rule>/<function>/<construct>' — stable across line changes."""
        for v in self.violations:
            if v["key"] == key and v["site"] == site:
                if config and config not in v["config"]:
                    v["config"] += "," + config
                return
        self.violations.append({"rule": rule, "key": key, "site": site, "msg": msg,
                                "config": config, "path": path or []})

    def info(self, rule, msg):
        if (rule, msg) not in self.infos:
            self.infos.append((rule, msg))

    def floor(self, rule, n, minimum, what):
        if n is None:
            return              # the rule itself already reported why it could not run
        if n < minimum:
            self.broken.append("rule %s matched %d %s, fewer than the %d confirmed by hand: "
                               "the anchor moved or the rule no longer sees it" % (rule, n, what, minimum))

    def borrow(self, fn, prog, as_rule, from_rules, **kw):
        """run a rule that belongs to another property under this property's rule id (the clause is shared)"""
        before = len(self.instances)
        try:
            return self.attempt(fn, self, prog, **kw)
        finally:
            for i in self.instances[before:]:
                if i["rule"] in from_rules:
                    i["rule"] = as_rule
            for v in self.violations:
                if v["rule"] in from_rules:
                    v["key"] = v["key"].replace(v["rule"], as_rule)
                    v["rule"] = as_rule

    def attempt(self, fn, *args, **kw):
        """run one rule; a slot / anchor failure inside it is recorded (exit 2 unless a violation is found
        elsewhere) and does not stop the other rules of the property"""
        try:
            return fn(*args, **kw)
        except AnalysisBroken as e:
            self.broken.append(str(e))
            return None
        except Exception as e:          # a rule tripping over an unforeseen shape is "no verdict", never a pass
            import traceback
            tb = traceback.extract_tb(e.__traceback__)[-1]
            self.broken.append("internal error in %s: %s: %s (%s:%d)" % (getattr(fn, "__name__", "rule"), type(e).__name__, e,
                                                                         os.path.basename(tb.filename), tb.lineno))
            return None

    def control(self, rule, name, fired, expected=True):
        self.controls.append((rule, name, fired, expected))
        if fired != expected:
            raise AnalysisBroken("control %s for rule %s: expected %s, got %s" % (
                name, rule, "a report" if expected else "silence", "a report" if fired else "silence"))

    # -- finishing ------------------------------------------------------------
    def finish(self, explanation):
        wall = time.time() - self.t0
        new, known = [], []
        for v in self.violations:
            if (self.prop, v["key"]) in self.known:
                known.append(v)
            else:
                new.append(v)
        sites = {(i["rule"], i["site"]) for i in self.instances}
        viol_sites = {(v["rule"], v["site"]) for v in self.violations}
        by_rule = {}
        for i in self.instances:
            by_rule[i["rule"]] = by_rule.get(i["rule"], 0) + 1
        samples = []
        seen_rules = {}
        for i in self.instances:
            if seen_rules.get(i["rule"], 0) < 3:
                seen_rules[i["rule"]] = seen_rules.get(i["rule"], 0) + 1
                samples.append("%s @ %s: %s" % (i["rule"], i["site"], i["what"]))
        cov = {
            "explanation": explanation,
            "obligations": len(sites),
            "discharged": len(sites - viol_sites) if sites else 0,
            "evaluations": len(self.instances),
            "distinct_nontrivial": len(sites),
            "rule": "one instance = one (rule, construct) pair found in /repo's current source by the "
                    "rule's matcher (call site, store, subscript, directive, table entry); it is non-trivial "
                    "because the matcher only yields constructs the rule has an obligation for; distinct = "
                    "distinct (rule, file:line[:what]) pairs; the same pair seen in several build "
                    "configurations is counted once in distinct_nontrivial and once per configuration in evaluations",
            "samples": samples[:40],
            "rules": self.rules,
            "instances_per_rule": by_rule,
            "configurations": self.configs,
            "controls": ["%s/%s: %s" % (r, n, "fired" if f else "silent") for (r, n, f, e) in self.controls],
            "informational": ["%s: %s" % x for x in self.infos][:60],
            "not_decided": self.not_decided,
            "known_findings_reported": [v["key"] for v in known],
            "violations_reported": [{"key": v["key"], "site": v["site"], "msg": v["msg"]} for v in new],
            "analysis_broken": self.broken,
            "exhaustive": True,
        }
        ev = {
            "property_id": self.prop,
            "tier": self.tier,
            "seed": self.seed,
            "level": "other",
            "coverage": cov,
            "assumptions": self.assumptions,
            "wall_s": round(wall, 3),
            "violations": len(new),
        }
        os.makedirs(os.path.join(VERIF, "evidence"), exist_ok=True)
        path = os.path.join(VERIF, "evidence", "%s.json" % self.prop)
        with open(path, "w") as f:
            json.dump(ev, f, indent=1, sort_keys=True)
            f.write("\n")
        for r, n in sorted(by_rule.items()):
            print("  %-6s %3d instance(s)  %s" % (r, n, self.rules.get(r, "")))
        for (r, n, f, e) in self.controls:
            print("  control %s/%s: %s (as expected)" % (r, n, "fired" if f else "silent"))
        for r, m in self.infos:
            print("  note %s: %s" % (r, m))
        for v in known:
            print("KNOWN-FINDING: property=%s %s at %s: %s" % (self.prop, v["key"], v["site"],
                                                              self.known[(self.prop, v["key"])]))
        for b in self.broken:
            print("ANALYSIS-BROKEN: %s" % b, file=sys.stderr)
        if new:
            os.makedirs(os.path.join(VERIF, "replays"), exist_ok=True)
            for v in new:
                h = hashlib.sha1((v["key"] + v["site"]).encode()).hexdigest()[:10]
                rp = os.path.join(VERIF, "replays", "%s-%s-%s.json" % (self.prop, v["rule"], h))
                with open(rp, "w") as f:
                    json.dump({"property": self.prop, "rule": v["rule"], "key": v["key"],
                               "site": v["site"], "message": v["msg"], "configuration": v["config"],
                               "path": v["path"], "rule_text": self.rules.get(v["rule"], "")}, f, indent=1)
                print("  %s: %s [%s] %s" % (v["site"], v["rule"], v["config"], v["msg"]))
                print("VIOLATION property=%s replay=%s" % (self.prop, rp))
            return 1
        if self.broken:
            print("%s: no verdict - %d rule(s) lost their anchor (exit 2)" % (self.prop, len(self.broken)))
            return 2
        print("%s: %d rule instance(s) in %d rule(s) examined, %s (%.1fs, tier %s)" % (
            self.prop, len(self.instances), len(by_rule),
            "all hold" if not known else "no new violation; %d recorded finding(s) reported above" % len(known), wall, self.tier))
        return 0
