"""C01 — alignment integrity (clauses only).

Decided: pipeline order (R01a), rank discipline (R01b), character provenance of exported rows
(R01c), status gate and distinct status values (R01d).
Not decided: the gap arithmetic (make_seq/update_gaps/add_gap_info_to_path_n/mirror_path_n),
equal row lengths, absence of all-gap columns — sums over run-time arrays.
"""
from ..build import AnalysisBroken
from ..model import access_mode
from ..util import site, guards, stores_to_field, member_accesses, const_value, macro_of_const, local_defs

PIPELINE = ["kalign_essential_input_check", "msa_sort_len_name", "build_tree_kmeans", "create_msa_tree",
            "finalise_alignment", "msa_sort_rank"]
WRAPPER = ["kalign_arr_to_msa", "kalign_run", "kalign_msa_to_arr"]


def describe(ck):
    ck.rule("R01a", "kalign_run / kalign: the pipeline stages are called in order on every path to a success return")
    ck.rule("R01b", "msa_seq.rank is written only by the input check (loop index), copies and constructors, and read only by the rank comparator and copies")
    ck.rule("R01c", "row buffers of the export functions receive only residues loaded from msa_seq.seq, '-' and NUL; %c arguments are unmodified residues")
    ck.rule("R01d", "exporters are gated on ALN_STATUS_FINAL, which only finalise_alignment assigns (after its row loop); status values are pairwise distinct")
    ck.not_decided += ["gap arithmetic in make_seq/update_gaps/add_gap_info_to_path_n/mirror_path_n",
                       "equal row lengths", "absence of all-gap columns"]
    ck.assumptions += ["qsort sorts by the comparator it is given"]


def success_positions(F):
    return [p for p in (F.cfg.position(r) for r in F.success_returns()) if p is not None]


def ordered_calls(ck, prog, F, chain, rule):
    """must-pass-through and precedence of the pipeline stages, seen through helper functions (kcheck/lift.py)"""
    from ..callgraph import CallGraph
    from ..lift import Lifted
    L = Lifted(prog, CallGraph(prog))
    if not F.success_returns():
        raise AnalysisBroken("%s: %s has no success return" % (rule, F.name))
    n = 0
    present = {}
    for name in chain:
        may = L.sites(F, name, "may")
        present[name] = bool(may)
        where = site(prog, may[0] if may else F, name)
        if not may and prog.fn(name, required=False) is None and name not in ("qsort", "omp_set_num_threads"):
            raise AnalysisBroken("%s slot: the stage function %s no longer exists (renamed or merged): which call of %s plays its part is "
                                 "not decided" % (rule, name, F.name))
        if not may:
            ck.violation(rule, "%s/%s/%s-missing" % (rule, F.name, name), site(prog, F),
                         "%s never calls %s (neither directly nor through a helper)" % (F.name, name), prog.config)
            continue
        n += 1
        ck.inst(rule, where, "%s: every path to a success return passes through %s%s" % (
            F.name, name, "" if may[0].callee == name else " (inside %s)" % may[0].callee), prog.config)
        if not L.passes_through(F, name):
            ck.violation(rule, "%s/%s/%s-skippable" % (rule, F.name, name), where,
                         "%s can return success without %s having run" % (F.name, name), prog.config)
    for a, b in zip(chain, chain[1:]):
        if not present[a] or not present[b]:
            continue
        n += 1
        sb = L.sites(F, b, "may")
        where = site(prog, sb[0], "%s<%s" % (a, b))
        ck.inst(rule, where, "%s: %s precedes %s on every path" % (F.name, a, b), prog.config)
        why = L.precedes(F, a, b)
        if why:
            ck.violation(rule, "%s/%s/%s-before-%s" % (rule, F.name, a, b), where,
                         "in %s, %s is not always preceded by %s: %s" % (F.name, b, a, why), prog.config)
    return n


def dealign_rule(ck, prog, rule):
    """kalign_run de-aligns whenever the status is not UNALIGNED (shared by R01a and R04b)"""
    from ..callgraph import CallGraph
    from ..lift import Lifted
    F = prog.fn("kalign_run")
    L = Lifted(prog, CallGraph(prog))
    n = 0
    found = L.find_call(F, "dealign_msa")
    if not found:
        if L.sites(F, "dealign_msa", "may"):
            raise AnalysisBroken("%s: dealign_msa is reached from kalign_run only through non-private helpers; its guard cannot be decided" % rule)
        ck.violation(rule, "%s/kalign_run/dealign-missing" % rule, site(prog, F),
                     "kalign_run never calls dealign_msa: gaps of aligned input survive into the alignment", prog.config)
        return 0
    for G, c in found:
        where = site(prog, c, "dealign_msa")
        n += 1
        ck.inst(rule, where, "%s: dealign_msa runs whenever the status is not UNALIGNED, before the merge phase" % G.name, prog.config)
        conds = list(guards(c))
        if G is not F:
            for hc in L.sites(F, "dealign_msa", "may"):
                conds += list(guards(hc))
        for cond, pol in conds:
            if cond.mac and ("RUN" in cond.mac):
                continue
            if cond.parent is not None and cond.parent.k in ("ForStmt", "WhileStmt"):
                continue
            lits = [macro_of_const(l) for l in cond.find("IntegerLiteral")]
            t = cond.strip()
            ok = (t.k == "BinaryOperator" and "ALN_STATUS_UNALIGNED" in lits and
                  any(m.d.get("field") == "aligned" for m in t.find("MemberExpr")) and
                  ((t.d["op"] == "!=" and pol) or (t.d["op"] == "==" and not pol)))
            if not ok:
                ck.violation(rule, "%s/kalign_run/dealign-guard" % rule, where,
                             "dealign_msa is additionally conditional on %s%s: some aligned inputs keep their gaps" % (
                                 "" if pol else "!", cond.text()), prog.config)
    cfg = F.cfg
    for ca in L.sites(F, "dealign_msa", "may"):
        for cb in L.sites(F, "create_msa_tree", "may"):
            if ca is not cb and cfg.reaches(cfg.position(cb), cfg.position(ca)):
                ck.violation(rule, "%s/kalign_run/dealign-late" % rule, site(prog, ca), "dealign_msa can run after create_msa_tree", prog.config)
    return n


def r01a(ck, prog):
    F = prog.fn("kalign_run")
    n = ordered_calls(ck, prog, F, PIPELINE, "R01a")
    W = prog.fn("kalign")
    n += ordered_calls(ck, prog, W, WRAPPER, "R01a")
    n += dealign_rule(ck, prog, "R01a")
    ck.floor("R01a", n, 15, "ordering obligations")


def _induction_var(loop):
    """decl id of the variable a for-loop initialises and increments"""
    if loop.k != "ForStmt":
        return None
    inc = loop.child("inc")
    if inc is None:
        return None
    i0 = inc.strip()
    if i0.k == "UnaryOperator" and i0.d["op"] in ("++",):
        v = i0.kids[0].strip()
        if v.k == "DeclRefExpr":
            return v.d["did"]
    return None


def r01b(ck, prog):
    prog.field("msa_seq", "rank")
    first = PIPELINE[0]
    writers, readers = 0, 0
    comparators = set()
    sr = prog.fn("msa_sort_rank")
    for c in sr.body.calls("qsort"):
        for a in c.args:
            a0 = a.strip(casts=True)
            if a0.k == "DeclRefExpr" and a0.d.get("dk") == "Fn":
                comparators.add(a0.d["name"])
    if not comparators:
        raise AnalysisBroken("R01b slot: msa_sort_rank passes no comparator to qsort")
    # the input check may be split into private helpers (rank_and_count_empty()): a static function of the same file that only the
    # input check calls, and that it runs on every path to success, is part of it
    E0 = prog.fn(first)
    first_fns = {first}
    for c in E0.body.calls():
        H = prog.fn(prog.resolve(c.callee, E0.file), required=False) if c.callee else None
        if H is not None and H.body is not None and H.static and H.file == E0.file and \
                all(G.name == first for G, _ in prog.callers_of(H.name) if G.file == E0.file) and \
                not E0.succeeds_avoiding([E0.cfg.position(x) for x in E0.body.calls(H.name)]):
            first_fns.add(H.name)
    qpos = [sr.cfg.position(c) for c in sr.body.calls("qsort")]
    for r in sr.success_returns()[:1]:
        if sr.succeeds_avoiding(qpos):
            ck.violation("R01b", "R01b/msa_sort_rank/conditional", site(prog, r),
                         "msa_sort_rank can return success without restoring the caller's order", prog.config)
    for F in prog.all_functions:
        if "/tests/" in F.file:
            continue
        for m in member_accesses(F.body, "msa_seq", "rank"):
            mode = access_mode(m)
            where = site(prog, m, "%s rank" % mode)
            if mode in ("write", "rmw"):
                writers += 1
                asg = m.up()[0]
                rhs = asg.kids[1] if len(asg.kids) > 1 else None
                r0 = rhs.strip(casts=True) if rhs is not None else None
                ck.inst("R01b", where, "%s writes rank = %s" % (F.name, rhs.text() if rhs is not None else "?"), prog.config)
                ok = False
                if mode == "write" and r0 is not None:
                    if r0.k == "MemberExpr" and r0.d.get("field") == "rank" and r0.d.get("rec") == "msa_seq":
                        ok = True                                   # copy
                    elif const_value(rhs) is not None:
                        ok = True                                   # constructor constant
                    elif r0.k == "DeclRefExpr":
                        loops = [a for a in asg.ancestors() if a.k == "ForStmt"]
                        if loops and _induction_var(loops[0]) == r0.d["did"]:
                            # the index used to reach the sequence must be the same variable
                            from ..inline import render as _render
                            base_txt = _render(m.kids[0], None)        # local aliases expanded: s->rank with s = msa->sequences[i]
                            if F.name in first_fns:
                                ok = ("[%s]" % r0.d["name"]) in base_txt
                            else:
                                # constructors: object under construction inside the construction loop
                                ok = any(c.callee in ("malloc",) or "MMALLOC" in c.mac for c in loops[0].find("CallExpr")) or \
                                     any("MMALLOC" in x.mac for x in loops[0].walk())
                if not ok and F.name in first_fns and mode == "write" and r0 is not None and r0.k == "DeclRefExpr":
                    raise AnalysisBroken("R01b: %s records rank = %s in a loop shape the rule does not recognise (no counted for-loop "
                                         "indexing sequences[%s])" % (F.name, r0.text(), r0.text()))
                if not ok:
                    ck.violation("R01b", "R01b/%s/rank-write" % F.name, where,
                                 "%s assigns msa_seq.rank = %s: only the input check (position in the caller's order), "
                                 "copies and constructors may write it" % (F.name, rhs.text() if rhs is not None else "?"),
                                 prog.config)
            elif mode == "read":
                # allowed: comparator of msa_sort_rank, or the source of a rank-to-rank copy
                p, c = m.up(casts=True)
                is_copy_src = False
                q = m
                while q is not None and q.k != "BinaryOperator":
                    q = q.parent
                if q is not None and q.d["op"] == "=":
                    l = q.kids[0].strip()
                    is_copy_src = l.k == "MemberExpr" and l.d.get("field") == "rank" and l.d.get("rec") == "msa_seq" and m.within(q.kids[1])
                readers += 1
                ck.inst("R01b", where, "%s reads rank%s" % (F.name, " (copy)" if is_copy_src else ""), prog.config)
                if not (F.name in comparators or is_copy_src):
                    ck.violation("R01b", "R01b/%s/rank-read" % F.name, where,
                                 "%s reads msa_seq.rank: between the two sorts the caller's order must not reach the "
                                 "computation (only %s and copies may read it)" % (F.name, sorted(comparators)), prog.config)
            else:
                ck.violation("R01b", "R01b/%s/rank-%s" % (F.name, mode), where,
                             "%s uses msa_seq.rank in mode '%s' (address taken / unknown use)" % (F.name, mode), prog.config)
    # the comparator orders by rank only
    for cn in comparators:
        C = prog.fn(cn)
        fields = {m.d["field"] for m in C.body.find("MemberExpr")}
        ck.inst("R01b", site(prog, C, "comparator"), "%s compares fields %s" % (cn, sorted(fields)), prog.config)
        if fields != {"rank"}:
            ck.violation("R01b", "R01b/%s/fields" % cn, site(prog, C),
                         "the comparator restoring the caller's order reads %s instead of rank only" % sorted(fields), prog.config)
        from ..util import comparator_spec
        spec = [x for x in comparator_spec(C) if x["kind"] == "field" and x["field"] == "rank"]
        asc = [x for x in spec if (x["op"] in (">", ">=") and x["sign"] == 1) or (x["op"] in ("<", "<=") and x["sign"] == -1)]
        desc = [x for x in spec if (x["op"] in (">", ">=") and x["sign"] == -1) or (x["op"] in ("<", "<=") and x["sign"] == 1)]
        ck.inst("R01b", site(prog, C, "direction"), "%s sorts rank ascending: %d ascending test(s), %d descending" % (
            cn, len(asc), len(desc)), prog.config)
        if not spec:
            raise AnalysisBroken("R01b: the rank comparator %s is not written as if(one->rank OP two->rank) return c; its direction is not decided" % cn)
        if not asc or desc:
            ck.violation("R01b", "R01b/%s/direction" % cn, site(prog, C),
                         "the rank comparator does not order ascending: rows would come back in reverse/other order", prog.config)
    # the first stage records rank for every sequence 0..numseq
    E = prog.fn(first)
    w = [a for nm in sorted(first_fns) for a, l, r in stores_to_field(prog.fn(nm).body, "msa_seq", "rank")]
    if not w:
        ck.violation("R01b", "R01b/%s/rank-missing" % first, site(prog, E),
                     "%s no longer records msa_seq.rank: the caller's order cannot be restored" % first, prog.config)
    else:
        for a in w:
            loops = [x for x in a.ancestors() if x.k == "ForStmt"]
            cond = loops[0].child("cond") if loops else None
            ok = cond is not None and any(mm.d.get("field") == "numseq" for mm in cond.find("MemberExpr")) and \
                cond.strip().k == "BinaryOperator" and cond.strip().d["op"] == "<"
            init = loops[0].child("init") if loops else None
            ok = ok and init is not None and any(const_value(x) == 0 for x in init.walk() if x.k == "IntegerLiteral")
            if [c for c, p in guards(a, stop=loops[0] if loops else None)]:
                ok = False
            ck.inst("R01b", site(prog, a, "rank loop"), "%s records rank for i in 0..numseq unconditionally" % first, prog.config)
            if not ok:
                ck.violation("R01b", "R01b/%s/rank-loop" % first, site(prog, a),
                             "rank is not recorded unconditionally for every i in [0, numseq)", prog.config)
    ck.floor("R01b", writers, 3, "rank writers")
    ck.floor("R01b", readers, 3, "rank readers")


def _seq_origin(F, e, depth=0):
    """expression e (pointer or element) originates from an msa_seq.seq buffer"""
    e0 = e.strip(casts=True)
    if e0.k == "ArraySubscriptExpr":
        return _seq_origin(F, e0.kids[0], depth)
    if e0.k == "UnaryOperator" and e0.d["op"] == "*":
        return _seq_origin(F, e0.kids[0], depth)
    if e0.k == "BinaryOperator" and e0.d["op"] in ("+", "-"):
        return _seq_origin(F, e0.kids[0], depth)
    if e0.k == "MemberExpr":
        return e0.d.get("field") == "seq" and e0.d.get("rec") == "msa_seq"
    if e0.k == "DeclRefExpr" and e0.d.get("dk") == "Var" and depth < 3:
        defs = [r for r, _ in local_defs(F, e0.d["did"]) if r is not None and not _isnull(r)]
        return bool(defs) and all(_seq_origin(F, r, depth + 1) for r in defs)
    return False


def _isnull(e):
    e0 = e.strip(casts=True)
    return "NULL" in e.mac or "NULL" in e0.mac or (e0.k == "IntegerLiteral" and e0.d["v"] == 0 and e.ty.endswith("*"))


def _base_var(lhs):
    n = lhs.strip(casts=True)
    while n.k in ("ArraySubscriptExpr",) or (n.k == "UnaryOperator" and n.d["op"] == "*") or \
            (n.k == "BinaryOperator" and n.d["op"] in ("+", "-")):
        n = n.kids[0].strip(casts=True)
    return n if n.k == "DeclRefExpr" else None


EXPORT_ROOTS = ("finalise_alignment", "kalign_msa_to_arr", "kalign_write_msa")


def r01c(ck, prog):
    from ..callgraph import CallGraph
    cg = CallGraph(prog)
    export = cg.reachable(set(EXPORT_ROOTS))
    n_rows = 0
    for fname in sorted(export):
        F = cg.defined.get(fname)
        if F is None:
            continue
        # element stores whose RHS is a residue load
        stores = []
        for a in F.body.find("BinaryOperator"):
            if a.d["op"] != "=":
                continue
            l = a.kids[0].strip()
            if l.k not in ("ArraySubscriptExpr",) and not (l.k == "UnaryOperator" and l.d["op"] == "*"):
                continue
            if not l.ty.replace("const ", "") == "char":
                continue
            stores.append(a)
        row_vars = {}
        for a in stores:
            r0 = a.kids[1].strip(casts=True)
            if r0.k in ("ArraySubscriptExpr", "UnaryOperator") and _seq_origin(F, r0):
                bv = _base_var(a.kids[0])
                if bv is not None:
                    row_vars[bv.d["did"]] = bv.d["name"]
        for a in stores:
            bv = _base_var(a.kids[0])
            if bv is None or bv.d["did"] not in row_vars:
                continue
            n_rows += 1
            rhs = a.kids[1]
            r0 = rhs.strip(casts=True)
            where = site(prog, a, a.kids[0].text())
            ck.inst("R01c", where, "%s: row store %s = %s" % (F.name, a.kids[0].text(), rhs.text()), prog.config)
            v = const_value(rhs)
            ok = False
            if v is not None:
                ok = v in (0, ord("-"), ord("\n"))
                if v == ord("\n"):
                    ok = False
            elif r0.k in ("ArraySubscriptExpr", "UnaryOperator") and _seq_origin(F, r0):
                ok = True
            if not ok:
                ck.violation("R01c", "R01c/%s/%s" % (F.name, row_vars[bv.d["did"]]), where,
                             "%s stores %s into row buffer %s: rows may only receive residues copied from msa_seq.seq, "
                             "'-' and the terminating NUL" % (F.name, rhs.text(), row_vars[bv.d["did"]]), prog.config)
        # %c / %s arguments that print residues
        for c in F.body.calls("fprintf", "printf", "snprintf", "fputc", "putc"):
            for a in c.args:
                a0 = a.strip(casts=True)
                if a0.ty.replace("const ", "") not in ("char", "char *"):
                    continue            # e.g. a checksum computed from the row: not a residue being written
                uses_seq = any(m.d.get("field") == "seq" and m.d.get("rec") == "msa_seq" for m in a.find("MemberExpr")) or \
                    any(_seq_origin(F, r) for r in a.find("DeclRefExpr") if r.ty.replace("const ", "") == "char *")
                if not uses_seq:
                    continue
                n_rows += 1
                where = site(prog, c, a.text())
                ck.inst("R01c", where, "%s prints residue expression %s" % (F.name, a.text()), prog.config)
                plain = (a0.k in ("ArraySubscriptExpr", "UnaryOperator", "MemberExpr", "DeclRefExpr")) and _seq_origin(F, a0)
                if not plain and a0.k == "BinaryOperator" and a0.d["op"] in ("+", "-") and a0.ty.replace("const ", "") == "char *":
                    # a pointer into the row (row + offset) handed to %s / %.*s: the characters are printed as they are
                    ptrs = [k_ for k_ in a0.kids if k_.strip(casts=True).ty.replace("const ", "") == "char *"]
                    plain = len(ptrs) == 1 and ptrs[0].strip(casts=True).k in ("DeclRefExpr", "MemberExpr") and bool(_seq_origin(F, ptrs[0].strip(casts=True)))
                if not plain:
                    ck.violation("R01c", "R01c/%s/print" % F.name, where,
                                 "%s prints %s: a residue must be written unmodified" % (F.name, a.text()), prog.config)
        # no case mapping on the way to a row
        for c in F.body.calls("toupper", "tolower"):
            p, ch = c.up(casts=True)
            tgt_char = False
            q = c
            while q is not None and q.k not in ("BinaryOperator", "CompoundAssignOperator", "CallExpr", "ReturnStmt", "DeclStmt"):
                q = q.parent
                if q is c:
                    break
            if q is not None and q.k == "BinaryOperator" and q.d["op"] == "=" and q.kids[0].strip().ty.replace("const ", "") == "char":
                tgt_char = True
            if tgt_char:
                ck.violation("R01c", "R01c/%s/case" % F.name, site(prog, c),
                             "%s stores a case-mapped character (%s) into a char lvalue in the export path" % (F.name, c.text()),
                             prog.config)
    ck.floor("R01c", n_rows, 8, "row stores / residue prints")


def r01d(ck, prog):
    names = ["ALN_STATUS_UNALIGNED", "ALN_STATUS_ALIGNED", "ALN_STATUS_FINAL", "ALN_STATUS_UNKNOWN"]
    vals = {n: prog.macro_int(n) for n in names}
    seen = {0: "the initial value 0 (alloc_msa: 'not determined yet')"}
    for n in names:
        where = prog.rel(prog.macros[n]["loc"])
        ck.inst("R01d", where + ":" + n, "%s = %d" % (n, vals[n]), prog.config)
        if vals[n] in seen:
            ck.violation("R01d", "R01d/msa_struct.h/%s-alias" % n, where,
                         "%s has the same value (%d) as %s: an msa in that state passes the gate meant for the other" % (
                             n, vals[n], seen[vals[n]]), prog.config)
        seen[vals[n]] = n
    # who assigns FINAL
    nfinal = 0
    for F in prog.all_functions:
        if "/tests/" in F.file:
            continue
        for a, lhs, rhs in stores_to_field(F.body, "msa", "aligned"):
            if macro_of_const(rhs.strip(casts=True)) == "ALN_STATUS_FINAL" or "ALN_STATUS_FINAL" in rhs.mac:
                nfinal += 1
                where = site(prog, a, "aligned=FINAL")
                ck.inst("R01d", where, "%s assigns ALN_STATUS_FINAL" % F.name, prog.config)
                if F.name != "finalise_alignment":
                    ck.violation("R01d", "R01d/%s/final-assign" % F.name, where,
                                 "%s marks an msa as final without building its rows (only finalise_alignment may)" % F.name,
                                 prog.config)
                else:
                    # after the row loop: the loop that calls make_linear_sequence must not be reachable after it
                    pa = F.cfg.position(a)
                    rsites = [c for c in F.body.calls("make_linear_sequence")] or [c for c, _ in _render_sites(prog, F) if c.k == "CallExpr"]
                    for c in rsites:
                        pc = F.cfg.position(c)
                        loops = [x for x in c.ancestors() if x.k in ("ForStmt", "WhileStmt", "DoStmt")]
                        if not loops:
                            raise AnalysisBroken("R01d slot: make_linear_sequence is not called in a per-sequence loop")
                        lc = F.cfg.position(loops[-1].child("cond"))
                        if F.cfg.reaches(pa, pc) or a.within(loops[-1]) or not F.cfg.dominates(lc, pa):
                            ck.violation("R01d", "R01d/finalise_alignment/final-early", where,
                                         "ALN_STATUS_FINAL can be assigned before/without building the rows", prog.config)
                    if not rsites:
                        raise AnalysisBroken("R01d slot: finalise_alignment does not call make_linear_sequence (neither directly nor through a per-sequence helper)")
                    # alnlen set alongside
                    al = list(stores_to_field(F.body, "msa", "alnlen"))
                    if not al:
                        ck.violation("R01d", "R01d/finalise_alignment/alnlen", where,
                                     "finalise_alignment marks the msa final without setting alnlen", prog.config)
    if nfinal == 0:
        raise AnalysisBroken("R01d: nobody assigns ALN_STATUS_FINAL")
    # gates: decided by evaluating the exporter once per status value (kcheck/scenario.py; undecidable conditions such as the
    # format dispatch are followed both ways): rows are touched - a writer is called, the loop over the rows is entered - exactly
    # when the status is ALN_STATUS_FINAL, however the test is spelled (inline, through a predicate helper, as a switch)
    from ..scenario import Run, Undecided
    final = prog.macro_int("ALN_STATUS_FINAL")
    values = sorted({prog.macro_int(m_) for m_ in ("ALN_STATUS_UNALIGNED", "ALN_STATUS_ALIGNED", "ALN_STATUS_UNKNOWN", "ALN_STATUS_FINAL")} | {0})
    for gname in ("kalign_write_msa", "kalign_msa_to_arr"):
        G = prog.fn(gname)
        mp = [p_["name"] for p_ in G.params if (p_["ty"] or "").replace("const ", "").startswith("struct msa *")]
        if len(mp) != 1:
            raise AnalysisBroken("R01d slot: the msa parameter of %s was not found" % gname)
        where = site(prog, G, "gate")
        reached = {}
        for v in values:
            r = Run(prog, G, {"%s->aligned" % mp[0]: v}, fork=True, keep=("write_msa_fasta", "write_msa_msf", "write_msa_clu"))
            try:
                tr = r.run()
            except Undecided as e:
                raise AnalysisBroken("R01d: %s is not evaluated for status %d: %s" % (gname, v, e))
            reached[v] = [t for t in tr if (t[1] or "").startswith("write_msa_") or t[0] == "loop"]
        ck.inst("R01d", where, "%s touches rows for status values %s (ALN_STATUS_FINAL = %d)" % (gname, sorted(v for v in values if reached[v]), final), prog.config)
        if not any(reached.values()):
            raise AnalysisBroken("R01d slot: %s reaches no writer / row loop for any status" % gname)
        bad = [v for v in values if v != final and reached[v]]
        if bad:
            ck.violation("R01d", "R01d/%s/gate-missing" % gname, site(prog, reached[bad[0]][0][4], "gate"),
                         "%s no longer requires ALN_STATUS_FINAL before exporting rows: with msa->aligned == %s it reaches %s" % (
                             gname, bad, reached[bad[0]][0][1] or "the loop over the rows"), prog.config)
        if not reached[final]:
            ck.violation("R01d", "R01d/%s/gate-polarity" % gname, where,
                         "the ALN_STATUS_FINAL test of %s does not let the final case through: no writer / row loop is reached for a "
                         "finished alignment" % gname, prog.config)


def r01e(ck, prog):
    """gaps[] has len+1 meaningful slots: every loop over it includes slot len (shared with R04b)"""
    from . import c04
    from ..report import Check
    sub = Check(ck.prop, ck.tier, ck.seed)
    sub.known = {}
    c04.r04b(sub, prog)
    for i in sub.instances:
        if "gaps loop" in i["site"] or "gap total" in i["site"]:
            ck.inst("R01e", i["site"], i["what"], i["config"])
    for v in sub.violations:
        if "gap-span" in v["key"] or "coverage" in v["key"]:
            ck.violation("R01e", v["key"].replace("R04b", "R01e"), v["site"], v["msg"], v["config"])


def r01f(ck, prog):
    from . import c15
    from ..report import Check
    before = len(ck.instances)
    c15.r15e(ck, prog)
    for i in ck.instances[before:]:
        i["rule"] = "R01f"
    for v in ck.violations:
        if v["rule"] == "R15e":
            v["rule"] = "R01f"
            v["key"] = v["key"].replace("R15e", "R01f")


def r01g(ck, prog):
    """path -> per-sequence gap counts: the two new-gap vectors of make_seq are separate full-width arrays (= R10e), and
    update_gaps only adds sums of their entries to the counts (= R10b)"""
    from . import c10
    before = len(ck.instances)
    try:
        c10.r10e(ck, prog)
        c10.r10b(ck, prog)
    finally:
        for i in ck.instances[before:]:
            i["rule"] = "R01g"
        for v in ck.violations:
            if v["rule"] in ("R10e", "R10b"):
                v["key"] = v["key"].replace(v["rule"], "R01g")
                v["rule"] = "R01g"


def r01h(ck, prog):
    """rows come back under the input name: nothing reachable from the API functions copies a sequence name from one record
    into another through a length-capped copy (snprintf / strncpy / memcpy with a constant size) - records are moved by
    pointer, or their name buffer is allocated to fit"""
    from ..callgraph import CallGraph
    from . import c05
    cg = CallGraph(prog)
    reach = cg.reachable(set(c05.api_functions(prog)) & set(cg.defined))
    n = 0
    for F in prog.lib_functions():
        for c in F.body.calls("snprintf", "strncpy", "memcpy", "strlcpy"):
            d0 = c.args[0].strip(casts=True)
            if not (d0.k == "MemberExpr" and d0.d.get("field") == "name" and d0.d.get("rec") == "msa_seq"):
                continue
            srcs = [m for a in c.args[1:] for m in a.find("MemberExpr") if m.d.get("field") == "name" and m.d.get("rec") == "msa_seq"]
            if not srcs:
                continue
            cap = c.args[1] if c.callee == "snprintf" else c.args[2] if len(c.args) > 2 else None
            n += 1
            where = site(prog, c, "name copy")
            capped = cap is not None and cap.cv is not None
            ck.inst("R01h", where, "%s copies a name into another record's name with %s(.., %s): %s from the API functions" % (
                F.name, c.callee, cap.text() if cap is not None else "?", "reachable" if F.name in reach else "not reachable"), prog.config)
            if capped and F.name in reach:
                ck.violation("R01h", "R01h/%s/name-copy" % F.name, where,
                             "%s copies a sequence name into another record with a fixed cap of %d bytes and is reachable from the API "
                             "(%s): a longer name comes back cut off" % (F.name, cap.cv, sorted(set(c05.api_functions(prog)) & set(cg.defined))[:3]), prog.config)
    ck.floor("R01h", n, 1, "record-to-record name copies")


def _real_loops(n):
    """enclosing loops of n, innermost first, without the do{ }while(0) of statement macros"""
    return [x for x in n.ancestors() if x.k in ("ForStmt", "WhileStmt") or
            (x.k == "DoStmt" and not (x.child("cond") is not None and x.child("cond").cv == 0))]


def _render_sites(prog, FA):
    """the places of finalise_alignment where one sequence's row is rendered and installed: a store X->seq = <row> next to a
    call of make_linear_sequence, or a call of a private helper that does both on every success path.
    Returns [(node in FA, enclosing loop or None)]"""
    out = []
    direct = list(stores_to_field(FA.body, "msa_seq", "seq"))
    if direct and list(FA.body.calls("make_linear_sequence")):
        for a, lhs, rhs in direct:
            lp = _real_loops(a)
            out.append((a, lp[0] if lp else None))
    for c in FA.body.calls():
        H = prog.fn(prog.resolve(c.callee, FA.file), required=False) if c.callee else None
        if H is None or H is FA or H.body is None or H.cfg is None or not (H.static and H.file == FA.file):
            continue
        mk = list(H.body.calls("make_linear_sequence"))
        st = list(stores_to_field(H.body, "msa_seq", "seq"))
        if not mk or not st:
            continue
        if H.succeeds_avoiding([H.cfg.position(x) for x in mk]) or H.succeeds_avoiding([H.cfg.position(x[0]) for x in st]):
            raise AnalysisBroken("R01i: the helper %s renders / installs the row on some success paths only; not decided" % H.name)
        lp = _real_loops(c)
        out.append((c, lp[0] if lp else None))
    return out


def r01i(ck, prog):
    """gap counts -> gapped rows: (1) finalise_alignment renders every sequence - the loop that replaces msa_seq.seq by the
    rendered row runs over exactly [0, numseq); (2) in make_linear_sequence the gaps[j] dashes are written before residue j
    (slot j counts the gap columns in front of residue j: the readers count a gap symbol into gaps[len] before the next
    residue is appended), and the dashes of slot len follow the last residue"""
    from ..affine import loop_range, single_defs
    FA = prog.fn("finalise_alignment")
    n = 0
    loops = [(lp, a) for a, lp in _render_sites(prog, FA) if lp is not None]
    if not loops:
        raise AnalysisBroken("R01i: the loop of finalise_alignment that installs the rendered rows was not found")
    for lp, a in loops:
        rng = loop_range(lp, single_defs(FA))
        n += 1
        where = site(prog, lp, "render loop")
        ck.inst("R01i", where, "finalise_alignment installs rendered rows for sequences %s" % ("[%s, %s)" % (rng[1], rng[2]) if rng else "?"), prog.config)
        if rng is None:
            raise AnalysisBroken("R01i: the rendering loop of finalise_alignment is not a recognised counting loop")
        full = rng[1].is_const() and rng[1].c == 0 and rng[2].c == 0 and list(rng[2].t.items()) == [("msa->numseq", 1)]
        if not full:
            if not ((rng[1].is_const()) and set(rng[2].t) <= {"msa->numseq"}):
                raise AnalysisBroken("R01i: the range [%s, %s) of the rendering loop is not comparable with [0, numseq)" % (rng[1], rng[2]))
            ck.violation("R01i", "R01i/finalise_alignment/coverage", where,
                         "finalise_alignment renders sequences [%s, %s) instead of [0, numseq): the others keep their ungapped residues while "
                         "alnlen and the FINAL status are set for all" % (rng[1], rng[2]), prog.config)
    ML = prog.fn("make_linear_sequence")
    main = None
    for lp in ML.body.find("ForStmt"):
        if any(x.k in ("ForStmt", "WhileStmt") for x in lp.ancestors()):
            continue
        body = lp.child("body")
        res = [s_ for s_ in body.find("BinaryOperator") if s_.d["op"] == "=" and any(m.d.get("field") == "seq" and m.d.get("rec") == "msa_seq" for m in s_.kids[1].find("MemberExpr"))]
        if res:
            main = (lp, res[0])
    if main is None:
        raise AnalysisBroken("R01i: the residue loop of make_linear_sequence was not found")
    lp, res = main
    rng = loop_range(lp)
    var = rng[0] if rng else None
    dashes = []
    for x in lp.child("body").walk():
        is_dash_store = x.k == "BinaryOperator" and x.d["op"] == "=" and const_value(x.kids[1]) == ord("-")
        is_dash_set = x.k == "CallExpr" and x.callee == "memset" and len(x.args) == 3 and const_value(x.args[1]) == ord("-")
        if is_dash_store or is_dash_set:
            dashes.append(x)
    n += 1
    where = site(prog, lp, "residue loop")
    if not dashes and var is not None:
        # the dashes may be written by a private helper (append_gaps(out, pos, seq->gaps[j])): read the loop body flattened
        from ..inline import flatten, walk_events, render, resolve
        evs = list(walk_events(flatten(prog, ML, [lp.child("body")])))
        di = [i for i, e in enumerate(evs) if e[0] == "store" and e[2] is not None and const_value(resolve(e[2], e[3])[0]) == ord("-")]
        ri = [i for i, e in enumerate(evs) if e[0] == "store" and e[2] is not None and
              any(m.d.get("field") == "seq" and m.d.get("rec") == "msa_seq" for m in resolve(e[2], e[3])[0].find("MemberExpr"))]
        texts = []
        for e in evs:
            if e[0] == "enter":
                texts += [render(a_, e[3]) for a_ in e[2].args]
            elif e[0] == "if":
                texts.append(render(e[1], e[2]))
            elif e[0] == "loop":
                texts += [render(c_, e[2]) for c_ in [e[1].child("cond"), e[1].child("init")] if c_ is not None]
        if di and ri:
            n += 1
            where = site(prog, lp, "residue loop")
            before = max(di) < min(ri)
            ck.inst("R01i", where, "make_linear_sequence: dashes of gaps[%s] are written (through a helper) %s residue %s" % (
                var, "before" if before else "AFTER", var), prog.config)
            if not any(("gaps[%s]" % var) in t_ for t_ in texts):
                raise AnalysisBroken("R01i: the dashes written in the residue loop are not counted by gaps[%s]" % var)
            if not before:
                ck.violation("R01i", "R01i/make_linear_sequence/order", where,
                             "make_linear_sequence writes residue %s before the gaps[%s] dashes: slot %s counts the gap columns in front of residue %s "
                             "(that is how the readers and update_gaps fill it), so every residue behind a gap moves left and the columns of a finished "
                             "group are torn apart" % (var, var, var, var), prog.config)
            ck.floor("R01i", n, 2, "rendering sites")
            return
    if not dashes or var is None:
        raise AnalysisBroken("R01i: how make_linear_sequence writes the gap symbols of slot j is not recognised")
    # the gap slot the dashes of this iteration stand for: gaps[<loop variable>] in the count / inner bound
    slot_ok = any(sub.kids[1].strip(casts=True).text() == var for d_ in dashes for anc in [d_] + list(d_.ancestors()) if anc.within(lp.child("body"))
                  for sub in anc.find("ArraySubscriptExpr") if any(m.d.get("field") == "gaps" for m in sub.kids[0].find("MemberExpr")))
    pos_d = min(d_.line for d_ in dashes)
    before = all(ML.cfg.reaches(ML.cfg.position(d_), ML.cfg.position(res), avoid=[ML.cfg.position(lp.child("cond"))]) if ML.cfg.position(d_) is not None and ML.cfg.position(res) is not None else d_.line < res.line for d_ in dashes)
    ck.inst("R01i", where, "make_linear_sequence: dashes of gaps[%s] are written %s residue %s" % (var, "before" if before else "AFTER", var), prog.config)
    if not slot_ok:
        raise AnalysisBroken("R01i: the dashes written in the residue loop are not counted by gaps[%s]" % var)
    if not before:
        ck.violation("R01i", "R01i/make_linear_sequence/order", where,
                     "make_linear_sequence writes residue %s before the gaps[%s] dashes: slot %s counts the gap columns in front of residue %s "
                     "(that is how the readers and update_gaps fill it), so every residue behind a gap moves left and the columns of a finished "
                     "group are torn apart" % (var, var, var, var), prog.config)
    ck.floor("R01i", n, 2, "rendering sites")


def r01j(ck, prog, root="kalign_run", render_root="finalise_alignment"):
    """the residue letters are read-only between reading and rendering: in everything kalign_run can reach, elements of
    msa_seq.seq are stored only by the rendering step (finalise_alignment / make_linear_sequence install a new row) - the
    conversion to internal codes writes msa_seq.s, never the letters themselves"""
    from ..callgraph import CallGraph
    from ..model import access_mode
    cg = CallGraph(prog)
    reach = cg.reachable({root})
    render = cg.reachable({render_root}) | {render_root}
    n = 0
    for name in sorted(reach):
        F = cg.defined.get(name)
        if F is None or F.body is None:
            continue
        for sub in F.body.find("ArraySubscriptExpr"):
            m = sub.kids[0].strip(casts=True)
            if not (m.k == "MemberExpr" and m.d.get("field") == "seq" and m.d.get("rec") == "msa_seq"):
                continue
            if access_mode(sub) not in ("write", "rmw"):
                continue
            n += 1
            where = site(prog, sub, "seq[...] store")
            ck.inst("R01j", where, "%s stores into msa_seq.seq elements (%s)" % (name, "rendering" if name in render else "NOT rendering"), prog.config)
            if name not in render:
                ck.violation("R01j", "R01j/%s/seq-store" % name, where,
                             "%s, which kalign_run reaches before the rows are rendered, overwrites letters of msa_seq.seq: the row that comes "
                             "back no longer carries the input residues at those positions" % name, prog.config)
    ck.info("R01j", "%d store(s) into msa_seq.seq elements in the functions kalign_run reaches" % n)


def r01l(ck, prog):
    """a FASTA record is known by its whole header line: the number of bytes read_fasta copies into msa_seq.name resolves
    (reaching definitions) to the stored length of the line and to nothing else - a name cut at a blank makes distinct
    headers ('Drosophila melanogaster', 'Drosophila simulans') the same name, and the canonical (length, name) order of such
    records then follows the input order"""
    from ..util import reaching_sources
    F = prog.fn("read_fasta")
    n = 0
    for c in F.body.calls("memcpy", "strncpy", "snprintf", "memmove"):
        if not c.args or not any(m.d.get("field") == "name" and m.d.get("rec") == "msa_seq" for m in c.args[0].find("MemberExpr")):
            continue
        ln = c.args[1] if c.callee == "snprintf" else c.args[2]
        src = set()
        for r in [x for x in ln.walk() if x.k == "DeclRefExpr" and x.d.get("dk") == "Var"] or [ln]:
            src |= reaching_sources(F, r)
        n += 1
        where = site(prog, c, "name copy")
        ck.inst("R01l", where, "read_fasta copies %s bytes of the header into the name (sources %s)" % (ln.text(), sorted(src)), prog.config)
        fields = {t for t in src if t.endswith("->len") or t.endswith(".len")}
        other = src - fields
        if len(fields) != 1:
            raise AnalysisBroken("R01l: the length of the name copy in read_fasta does not resolve to the stored line length (%s)" % sorted(src))
        if other:
            ck.violation("R01l", "R01l/read_fasta/name-cut", where,
                         "the number of header bytes copied into the name is %s or %s: the name is not always the whole header line, so "
                         "headers that differ only behind the cut become the same name" % (sorted(fields)[0], sorted(other)), prog.config)
    ck.floor("R01l", n, 1, "name copies in read_fasta")


def _r01j_control(ck):
    from ..controls import control_program
    from ..report import Check
    cp = control_program(ck.work, "c01.c")
    sub = Check(ck.prop, ck.tier, ck.seed)
    sub.known = {}
    r01j(sub, cp, root="ctl_run", render_root="ctl_render")
    keys = {v["key"] for v in sub.violations}
    ck.control("R01j", "bad_r01j_overwrites_letters", "R01j/bad_r01j_overwrites_letters/seq-store" in keys, True)
    ck.control("R01j", "ok_r01j_codes_only", any("ok_r01j" in k for k in keys), False)


def r01k(ck, prog):
    """rows leave in input order: after kalign_run has restored the input order (msa_sort_rank is its last step), nothing that
    can reach qsort runs on the way to the export (kalign_msa_to_arr / kalign_write_msa) in the functions that call both"""
    from ..callgraph import CallGraph
    cg = CallGraph(prog)
    sorters = {n_ for n_ in cg.defined if "qsort" in cg.reachable({n_}) or n_ == "qsort"}
    n = 0
    for F in prog.all_functions:
        if F.body is None or F.cfg is None or "/tests/" in F.file:
            continue
        runs = list(F.body.calls("kalign_run"))
        exports = [c for c in F.body.calls() if c.callee in ("kalign_msa_to_arr", "kalign_write_msa")]
        if not runs or not exports:
            continue
        cfg = F.cfg
        for r in runs:
            for e in exports:
                pr, pe = cfg.position(r), cfg.position(e)
                if pr is None or pe is None or not cfg.reaches(pr, pe):
                    continue
                n += 1
                where = site(prog, e, "export after kalign_run")
                between = []
                for c in F.body.calls():
                    if c is r or c is e or not c.callee or c.callee not in sorters:
                        continue
                    pc = cfg.position(c)
                    if pc is not None and cfg.reaches(pr, pc) and cfg.reaches(pc, pe):
                        between.append(c)
                ck.inst("R01k", where, "%s: between kalign_run and %s: %s" % (F.name, e.callee, [c.callee for c in between] or "no sorting call"), prog.config)
                for c in between:
                    ck.violation("R01k", "R01k/%s/%s" % (F.name, c.callee), site(prog, c, c.callee),
                                 "%s calls %s (which sorts the sequences) after kalign_run has put them back into input order and before "
                                 "%s exports them: row i is no longer input sequence i" % (F.name, c.callee, e.callee), prog.config)
    ck.floor("R01k", n, 2, "run-then-export sites")


def run(ck, progs):
    describe(ck)
    ck.rule("R01j", "between reading and rendering nothing kalign_run reaches stores into elements of msa_seq.seq")
    ck.rule("R01l", "read_fasta copies the whole header line into the name: the copied length resolves to the stored line length only")
    ck.rule("R01k", "no sorting call between kalign_run and the export of the rows in the functions that call both")
    ck.rule("R01i", "finalise_alignment renders all numseq sequences; make_linear_sequence writes the gaps[j] dashes before residue j")
    ck.rule("R01h", "no length-capped copy of a sequence name from one record into another is reachable from the API functions")
    ck.rule("R01g", "path -> gap counts: make_seq's two new-gap vectors never overlap and are int wide, update_gaps only adds sums of their entries (= R10e, R10b)")
    ck.rule("R01f", "the writers emit exactly the columns [0, alnlen) of every row (= R15e; recognised loop shapes only, otherwise no verdict)")
    ck.rule("R01e", "every loop over msa_seq.gaps covers all len+1 slots (row length = len + sum of gaps[0..len])")
    for cfg, prog in progs.items():
        ck.attempt(r01a, ck, prog)
        ck.attempt(r01b, ck, prog)
        ck.attempt(r01l, ck, prog)
        ck.attempt(r01c, ck, prog)
        ck.attempt(r01d, ck, prog)
        ck.attempt(r01e, ck, prog)
        ck.attempt(r01f, ck, prog)
        ck.attempt(r01g, ck, prog)
        ck.attempt(r01h, ck, prog)
        ck.attempt(r01i, ck, prog)
        ck.attempt(r01j, ck, prog)
        ck.attempt(_r01j_control, ck)
        ck.attempt(r01k, ck, prog)
    return ("CFG must-pass-through / precedence for the six pipeline stages of kalign_run and the three of kalign(); "
            "who-may-read/write table for msa_seq.rank over every function; provenance of every store into a row buffer "
            "and every residue print in the functions reachable from the exporters; status gate reachability and "
            "pairwise distinctness of the ALN_STATUS_* values.")
