"""C02 — same alignment for every thread count and every schedule.

Argument decided: structured fork-join (R02a) + pairwise non-interfering sibling effects (R02b,
R02c) + no dependence on thread identity / count (R02d, R02e) + parallel and serial siblings
agree (R02g) + OpenMP and non-OpenMP configurations agree (R02h, thorough)
=> every schedule computes what the serial elision computes.
Assumed, not decided: children of a guide-tree node are disjoint subtrees; IEEE arithmetic is
deterministic per operation; libgomp implements taskwait / the implicit barrier.
"""
from ..build import AnalysisBroken
from ..callgraph import CallGraph
from ..effects import Effects
from ..model import access_mode
from ..util import site, guards, member_accesses, local_defs, const_value

OMP_API_FORBIDDEN = ("omp_get_thread_num", "omp_get_num_threads", "omp_get_max_threads", "omp_get_wtime",
                     "omp_in_parallel", "omp_get_num_procs", "omp_get_level")
FORBIDDEN_DIRECTIVES = ("atomic", "critical", "ordered", "sections", "section", "master", "flush")
FORBIDDEN_CLAUSES = ("reduction", "lastprivate", "ordered", "copyin", "nowait_on_for")


def describe(ck):
    ck.rule("R02a", "every omp task is joined: from the task no path reaches the function exit, a call, or a store to shared memory before an omp taskwait")
    ck.rule("R02b", "tasks that may run concurrently have disjoint effects on every object they share (field-level effect summaries); recursive sibling tasks write shared arrays only at their own node ids; each merge uses a private aln_mem")
    ck.rule("R02c", "every omp parallel for stores only into body-local / private variables or into the element addressed by all collapsed induction variables, uses no reduction/atomic/critical, and calls only functions that write nothing shared")
    ck.rule("R02d", "every omp parallel region is a single-thread task generator (omp single) or a parallel for; no thread-identity / wall-clock OpenMP API is used")
    ck.rule("R02e", "the thread count (n_threads, aln_param.nthreads) flows only into omp_set_num_threads, the clamp, the run_parallel flag and if() clauses")
    ck.rule("R02g", "aln_runner and aln_runner_serial dispatch to the same kernels in the same order on the same tests; aln_continue recurses into the sibling selected by its serial flag in every case")
    ck.rule("R02h", "(thorough) the OpenMP and non-OpenMP configurations contain the same calls in every function once OpenMP directives are erased")
    ck.assumptions += ["the two children of a guide-tree node are disjoint subtrees (run-time shape invariant of create_tasks)",
                       "IEEE arithmetic is deterministic per operation", "libgomp implements taskwait and the end-of-parallel barrier"]
    ck.not_decided += ["subtree disjointness of the task tree", "floating-point determinism across compilers"]


def omp_nodes(F, kind=None):
    for n in F.body.walk():
        if "omp" in n.d and (kind is None or n.d["omp"] == kind):
            yield n


def clause(n, kind):
    return [c for c in n.d.get("clauses", []) if c["kind"] == kind]


# --------------------------------------------------------------------------- R02a
def task_region(F, t):
    """CFG elements executed after task t before any taskwait; returns (nodes, reaches_exit)"""
    cfg = F.cfg
    start = cfg.position(t)
    if start is None:
        raise AnalysisBroken("R02a: task directive at %s not found in the CFG" % t.loc)
    waits = {cfg.position(w) for w in omp_nodes(F, "taskwait")}
    seen_blocks = set()
    nodes = []
    reaches_exit = False
    work = [(start[0], start[1] + 1)]
    while work:
        b, i0 = work.pop()
        blk = cfg.blocks[b]
        stopped = False
        for i in range(i0, len(blk.el)):
            if (b, i) in waits:
                stopped = True
                break
            nd = F.by_id.get(blk.el[i])
            if nd is not None:
                nodes.append(nd)
        if stopped:
            continue
        if b == cfg.exit:
            reaches_exit = True
        for s in blk.succ:
            if s == cfg.exit:
                reaches_exit = True
            if s not in seen_blocks:
                seen_blocks.add(s)
                work.append((s, 0))
    return nodes, reaches_exit


def _region_problems(F, nodes, spawners, allow_return=False):
    """what the spawning thread does between a task and its join that may race with the task: [(node, text)]"""
    out = []
    for nd in nodes:
        if "omp" in nd.d:
            if nd.d["omp"] != "task":
                out.append((nd, "directive", "omp %s between a task and its taskwait" % nd.d["omp"]))
            continue
        if any("omp" in a.d for a in nd.ancestors()):
            continue          # clause expressions of a sibling task directive
        bad = None
        if nd.k == "CallExpr":
            if nd.callee in spawners:
                continue      # spawns a sibling task (checked where it is defined)
            bad = "calls %s" % (nd.callee or "a function pointer")
        elif nd.k in ("BinaryOperator", "CompoundAssignOperator", "UnaryOperator") and \
                (nd.d.get("op") in ("=", "++", "--") or nd.k == "CompoundAssignOperator"):
            tgt = nd.kids[0].strip()
            if tgt.k != "DeclRefExpr" or tgt.d.get("g"):
                bad = "stores to %s" % tgt.text()
        elif nd.k == "ReturnStmt" and not allow_return:
            bad = "returns"
        if bad:
            out.append((nd, "use-before-join", bad))
    return out


def r02a(ck, prog, only=None, rule="R02a", floor=12):
    ntasks = 0
    groups = {}
    cand = [F for F in prog.lib_functions() if (only is None or F.name in only) and any(True for _ in omp_nodes(F, "task"))]
    # functions that only spawn a task and return (the join is their caller's): found first, so that a call to one counts as a
    # spawn in the caller.  OpenMP: a task created inside a function called from task T is a child of T, and T's taskwait waits for it.
    spawners = {}
    for F in cand:
        ts = list(omp_nodes(F, "task"))
        regions = [task_region(F, t) for t in ts]
        if any(r[1] for r in regions) and not list(omp_nodes(F, "taskwait")):
            outside = [F.by_id[e] for b in F.cfg.blocks.values() for e in b.el
                       if e in F.by_id and not any(F.by_id[e].within(t) or F.by_id[e] is t for t in ts)]
            if not _region_problems(F, outside, set(), allow_return=True):
                spawners[F.name] = F
    for F in cand:
        for t in omp_nodes(F, "task"):
            ntasks += 1
            where = site(prog, t, "omp task")
            body = t.child("body")
            nodes, reaches_exit = task_region(F, t)
            if reaches_exit and F.name in spawners:
                # the join must come in every caller, after the call
                callers = [(G, c) for G, c in prog.callers_of(F.name) if "/tests/" not in G.file]
                ck.inst(rule, where, "%s only spawns the task %s and returns: joined in its %d caller(s)" % (
                    F.name, body.text()[:50] if body is not None else "?", len(callers)), prog.config)
                if not callers:
                    ck.violation(rule, rule + "/%s/unjoined" % F.name, where,
                                 "%s spawns a task and returns, and nothing calls it with a taskwait" % F.name, prog.config)
                for G, c in callers:
                    cn, cexit = task_region(G, c)
                    cw = site(prog, c, F.name)
                    ck.inst(rule, cw, "%s: the task spawned inside %s is joined by a taskwait on every path" % (G.name, F.name), prog.config)
                    if cexit:
                        ck.violation(rule, rule + "/%s/unjoined" % G.name, cw,
                                     "a path from the call of %s (which spawns the task %s) to the end of %s crosses no omp taskwait: the "
                                     "parent continues (and returns) while the task may still be writing" % (
                                         F.name, body.text()[:50] if body is not None else "", G.name), prog.config)
                        continue
                    for nd, kind, bad in _region_problems(G, cn, set(spawners)):
                        ck.violation(rule, rule + "/%s/%s" % (G.name, kind), site(prog, nd),
                                     "%s %s after the task spawned through %s at %s and before the taskwait: the task's results may not "
                                     "be there yet" % (G.name, bad, F.name, cw), prog.config)
                continue
            ck.inst(rule, where, "%s: task %s joined by a taskwait on every path (%d CFG elements in the open region)" % (
                F.name, body.text()[:50] if body is not None else "?", len(nodes)), prog.config)
            if reaches_exit:
                ck.violation(rule, rule + "/%s/unjoined" % F.name, where,
                             "a path from the task %s to the end of %s crosses no omp taskwait: the parent continues (and "
                             "returns) while the task may still be writing" % (body.text()[:50] if body is not None else "", F.name),
                             prog.config)
                continue
            for nd, kind, bad in _region_problems(F, nodes, set(spawners)):
                if kind == "directive":
                    ck.violation(rule, rule + "/%s/directive" % F.name, site(prog, nd), bad, prog.config)
                else:
                    ck.violation(rule, rule + "/%s/use-before-join" % F.name, site(prog, nd),
                                 "%s %s after spawning the task at %s and before the taskwait: the task's results may not "
                                 "be there yet" % (F.name, bad, where), prog.config)
            groups.setdefault(F.name, []).append((t, [n for n in nodes if n.d.get("omp") == "task"]))
    ck.floor(rule, ntasks, floor, "omp task directives")
    return groups


# --------------------------------------------------------------------------- R02b
def _conflicts(S1, S2):
    out = []
    for p in S1.writes & (S2.reads | S2.writes):
        out.append(("field", p))
    for p in S1.pwrites & (S2.preads | S2.pwrites):
        out.append(("pointee", p))
    for p in S1.frees:
        for q in S2.reads | S2.writes | S2.preads | S2.pwrites:
            if q[:len(p)] == p:
                out.append(("freed", p))
    return out


def _arg_identity(a):
    """(base text, distinguishing suffix) for a pointer argument: &res[1] -> ('res', '[1]'), &n->left -> ('n', '->left')"""
    a0 = a.strip(casts=True)
    if a0.k == "UnaryOperator" and a0.d["op"] == "&":
        x = a0.kids[0].strip()
        if x.k == "ArraySubscriptExpr" and x.kids[1].cv is not None:
            return x.kids[0].strip(casts=True).text(), "[%d]" % x.kids[1].cv
        if x.k == "MemberExpr":
            return x.kids[0].strip(casts=True).text(), ("->" if x.d.get("arrow") else ".") + x.d["field"]
        return x.text(), ""
    return a0.text(), ""


def r02b(ck, prog, groups):
    E = Effects(prog)
    npairs = 0
    for fname, lst in groups.items():
        F = prog.fn(fname)
        seen = set()
        for t1, sibs in lst:
            for t2 in sibs:
                key = tuple(sorted((t1.id, t2.id)))
                if t1 is t2 or key in seen:
                    continue
                seen.add(key)
                b1, b2 = t1.child("body"), t2.child("body")
                if b1 is None or b2 is None or b1.k != "CallExpr" or b2.k != "CallExpr" or not b1.callee or not b2.callee:
                    raise AnalysisBroken("R02b: task body at %s / %s is not a direct call; effect summaries need a callee" % (t1.loc, t2.loc))
                npairs += 1
                where = site(prog, t1, "%s||%s" % (b1.callee, b2.callee))
                # the merge recursion shares msa / task list by design and is decided by the node-id shape rule below;
                # any other pair of recursive siblings (the k-means bisection) gets the generic effect comparison
                recursive = b1.callee == fname and b2.callee == fname and fname == "recursive_aln"
                found = []
                for i, a1 in enumerate(b1.args if not recursive else []):
                    if not a1.ty.endswith("*"):
                        continue
                    id1 = _arg_identity(a1)
                    for j, a2 in enumerate(b2.args):
                        if not a2.ty.endswith("*"):
                            continue
                        id2 = _arg_identity(a2)
                        if id1[0] != id2[0]:
                            continue                 # different variables: distinct objects (locals / fresh heap)
                        if id1[1] != id2[1] and id1[1] and id2[1]:
                            continue                 # same base, provably different element / field
                        S1, S2 = E.of_param(b1.callee, i), E.of_param(b2.callee, j)
                        if S1.unknown or S2.unknown:
                            raise AnalysisBroken("R02b: effect summary of %s/%s on %s is incomplete: %s" % (
                                b1.callee, b2.callee, a1.text(), (S1.unknown + S2.unknown)[0]))
                        for kind, p in _conflicts(S1, S2) + _conflicts(S2, S1):
                            found.append((a1.text(), kind, ".".join(p) or "*"))
                ck.inst("R02b", where, "%s: concurrent tasks %s and %s: %s" % (
                    fname, b1.text()[:40], b2.text()[:40],
                    "recursive siblings (shape rule)" if recursive else ("%d conflict(s)" % len(found))), prog.config)
                if recursive:
                    continue
                if found:
                    a, kind, p = found[0]
                    ck.violation("R02b", "R02b/%s/%s-%s" % (fname, b1.callee, b2.callee), where,
                                 "tasks %s and %s may run concurrently and both touch %s->%s (%s written by one, accessed by the "
                                 "other): the result depends on the schedule" % (b1.callee, b2.callee, a, p, kind),
                                 prog.config, path=["%s %s %s" % f for f in found[:8]])
    ck.floor("R02b", npairs, 10, "concurrent task pairs")
    # shape rule for the tree recursion: shared arrays are written only at the node ids of the task at hand
    R = prog.fn("recursive_aln")
    D = prog.fn("do_align")
    nshape = 0
    def id_locals(G):
        ids = set()
        for n in G.body.find("BinaryOperator"):
            if n.d["op"] == "=" and n.kids[0].strip().k == "DeclRefExpr":
                r = n.kids[1].strip(casts=True)
                if r.k == "MemberExpr" and r.d.get("rec") == "task" and r.d.get("field") in ("a", "b", "c"):
                    ids.add(n.kids[0].strip().d["did"])
        for n in G.body.find("DeclStmt"):
            for kid in n.kids:
                if kid.role == "declinit":
                    r = kid.strip(casts=True)
                    if r.k == "MemberExpr" and r.d.get("rec") == "task" and r.d.get("field") in ("a", "b", "c"):
                        ids.add(kid.decl["did"])
        return ids
    # private helpers of do_align that receive node ids as arguments
    todo = [(D, None), (R, None)]
    dids = id_locals(D)
    for c in D.body.calls():
        H = prog.functions.get(c.callee) if c.callee else None
        if H is not None and H.static and H.file == D.file and H is not D:
            pid = set()
            for i, a in enumerate(c.args):
                a0 = a.strip(casts=True)
                if a0.k == "DeclRefExpr" and a0.d["did"] in dids and i < len(H.params):
                    pid.add(H.params[i]["did"])
            if pid and not any(x[0] is H for x in todo):
                # every call of the helper must pass ids in those positions
                todo.append((H, pid))
    for G, extra in todo:
        # node-id locals: defined from t->list[..]->a / ->b / ->c, or id parameters of a private helper
        ids = id_locals(G) | (extra or set())
        for n in G.body.walk():
            if n.k not in ("ArraySubscriptExpr",):
                continue
            if access_mode(n) not in ("write", "rmw"):
                continue
            base = n.kids[0].strip(casts=True)
            if base.k != "MemberExpr" or base.d.get("rec") not in ("msa", "aln_tasks"):
                if not (base.k == "DeclRefExpr" and base.d.get("dk") == "Parm" and base.ty.endswith("*")):
                    continue
            idx = n.kids[1].strip(casts=True)
            nshape += 1
            ok = (idx.k == "DeclRefExpr" and idx.d["did"] in ids) or \
                 (idx.k == "MemberExpr" and idx.d.get("rec") == "task" and idx.d.get("field") in ("a", "b", "c"))
            where = site(prog, n, n.text()[:40])
            ck.inst("R02b", where, "%s writes shared array element %s (index is %s node id)" % (
                G.name, n.text()[:40], "the task's own" if ok else "NOT a"), prog.config)
            if not ok:
                ck.violation("R02b", "R02b/%s/shared-index" % G.name, where,
                             "%s writes %s, whose index is not one of the node ids (a, b, c) of the merge at hand: concurrent "
                             "merges of sibling subtrees can write the same element" % (G.name, n.text()[:50]), prog.config)
    ck.floor("R02b", nshape, 6, "shared-array writes in the tree recursion")
    # per-merge private aln_mem
    for c in R.body.calls("do_align"):
        m = c.args[2].strip(casts=True) if len(c.args) > 2 else None
        where = site(prog, c, "aln_mem")
        ok = False
        if m is not None and m.k == "DeclRefExpr" and m.d.get("dk") == "Var" and not m.d.get("g"):
            allocs = [x for x in R.body.calls("alloc_aln_mem") if any(r.d["did"] == m.d["did"] for r in x.refs())]
            decl_static = any(dd.get("static") for n in R.body.find("DeclStmt") for dd in n.d["decls"] if dd.get("did") == m.d["did"])
            ok = bool(allocs) and not decl_static
        ck.inst("R02b", where, "recursive_aln hands do_align a per-call aln_mem (%s)" % (m.text() if m is not None else "?"), prog.config)
        if not ok:
            ck.violation("R02b", "R02b/recursive_aln/shared-aln_mem", where,
                         "the aln_mem given to do_align is not a local allocated by alloc_aln_mem in the same call: concurrent "
                         "merges would share DP state", prog.config)


# --------------------------------------------------------------------------- R02c
def writes_shared(prog, cg, fname, E, seen=None):
    """does fname (or anything it calls) write a global / static, or pointee of a pointer parameter?  returns reason or None"""
    seen = seen if seen is not None else set()
    if fname in seen:
        return None
    seen.add(fname)
    F = cg.defined.get(fname)
    if F is None:
        return None
    for n in F.body.walk():
        if n.k == "DeclRefExpr" and n.d.get("g") and n.d.get("dk") == "Var":
            m = access_mode(n)
            if m in ("write", "rmw") or m.startswith("elem-w") or m.startswith("elem-rmw"):
                return "%s writes global %s" % (fname, n.d["name"])
    for g in cg.edges.get(fname, ()):
        r = writes_shared(prog, cg, g, E, seen)
        if r:
            return r
    return None


def r02c(ck, prog):
    cg = CallGraph(prog)
    E = Effects(prog)
    n = 0
    for F in prog.lib_functions():
        for d in omp_nodes(F):
            if "for" not in d.d["omp"].split():
                continue
            n += 1
            where = site(prog, d, "omp " + d.d["omp"])
            for c in d.d.get("clauses", []):
                if c["kind"] in FORBIDDEN_CLAUSES:
                    ck.violation("R02c", "R02c/%s/%s" % (F.name, c["kind"]), where,
                                 "omp %s uses a %s clause: the combination order depends on the schedule" % (d.d["omp"], c["kind"]), prog.config)
            ncoll = 1
            for c in clause(d, "collapse"):
                for e in c["exprs"]:
                    if e.get("cv"):
                        ncoll = e["cv"]
            loop = d.child("body")
            ivs = []
            l = loop
            for _ in range(ncoll):
                if l is None or l.k != "ForStmt":
                    raise AnalysisBroken("R02c: collapsed loop nest of %s not found" % where)
                inc = l.child("inc").strip()
                v = inc.kids[0].strip()
                ivs.append(v.d["did"])
                inner = l.child("body")
                nxt = None
                if inner is not None:
                    if inner.k == "ForStmt":
                        nxt = inner
                    elif inner.k == "CompoundStmt" and inner.kids and inner.kids[0].k == "ForStmt":
                        nxt = inner.kids[0]
                body = inner
                l = nxt
            private = set()
            for c in clause(d, "private") + clause(d, "firstprivate"):
                for e in c["exprs"]:
                    if e.get("did") is not None:
                        private.add(e["did"])
            local = {dd["did"] for s in body.find("DeclStmt") for dd in s.d["decls"] if dd.get("did") is not None}
            nst = 0
            for s in body.walk():
                tgt = None
                if s.k in ("BinaryOperator", "CompoundAssignOperator") and (s.d["op"] == "=" or s.k == "CompoundAssignOperator"):
                    tgt = s.kids[0].strip()
                elif s.k == "UnaryOperator" and s.d["op"] in ("++", "--"):
                    tgt = s.kids[0].strip()
                if tgt is None:
                    continue
                nst += 1
                if tgt.k == "DeclRefExpr" and (tgt.d["did"] in local or tgt.d["did"] in private or tgt.d["did"] in ivs):
                    continue
                # element addressed by all collapsed induction variables
                idx_vars = set()
                x = tgt
                while x.k == "ArraySubscriptExpr":
                    i0 = x.kids[1].strip(casts=True)
                    if i0.k == "DeclRefExpr":
                        idx_vars.add(i0.d["did"])
                    x = x.kids[0].strip(casts=True)
                if x.k == "DeclRefExpr" and set(ivs) <= idx_vars:
                    continue
                ck.violation("R02c", "R02c/%s/store" % F.name, site(prog, s),
                             "the parallel loop stores to %s, which is neither private nor the element addressed by all "
                             "collapsed loop indices: two iterations can write it" % tgt.text(), prog.config)
            # loop-carried reads: an array the iterations store into (each its own element) is read at an element other than the
            # iteration's own - the value depends on whether the iteration that owns it has run yet
            own = {}
            own_dims = {}
            for s in body.walk():
                if s.k in ("BinaryOperator", "CompoundAssignOperator") and (s.d["op"] == "=" or s.k == "CompoundAssignOperator"):
                    t = s.kids[0].strip()
                    if t.k == "ArraySubscriptExpr":
                        x = t
                        while x.k == "ArraySubscriptExpr":
                            x = x.kids[0].strip(casts=True)
                        if x.k == "DeclRefExpr" and x.d["did"] not in local and x.d["did"] not in private:
                            own.setdefault(x.d["did"], set()).add(t.text())
                            dims = 0
                            y = t
                            while y.k == "ArraySubscriptExpr":
                                y = y.kids[0].strip(casts=True)
                                dims += 1
                            own_dims.setdefault(x.d["did"], set()).add(dims)
            for r in body.find("ArraySubscriptExpr"):
                pu, cu = r.up(casts=True)
                if pu is not None and pu.k == "ArraySubscriptExpr" and (cu is pu.kids[0] or cu.within(pu.kids[0])):
                    continue              # a prefix of a longer subscript chain
                x = r
                depth_ = 0
                while x.k == "ArraySubscriptExpr":
                    x = x.kids[0].strip(casts=True)
                    depth_ += 1
                if not (x.k == "DeclRefExpr" and x.d["did"] in own):
                    continue
                from ..model import access_mode as _am
                if _am(r) != "read":
                    continue
                if r.text() in own[x.d["did"]] or depth_ not in own_dims[x.d["did"]]:
                    continue
                ck.violation("R02c", "R02c/%s/carried-read" % F.name, site(prog, r),
                             "the parallel loop reads %s while its iterations store %s: the element belongs to another iteration, which "
                             "may or may not have run yet - the value read depends on the schedule" % (r.text(), sorted(own[x.d["did"]])[0]), prog.config)
            for c in body.calls():
                if not c.callee:
                    continue
                if c.callee in cg.defined:
                    why = writes_shared(prog, cg, c.callee, E)
                    if why:
                        ck.violation("R02c", "R02c/%s/call-%s" % (F.name, c.callee), site(prog, c),
                                     "the parallel loop calls %s and %s" % (c.callee, why), prog.config)
                    for i, a in enumerate(c.args):
                        if a.ty.endswith("*"):
                            S = E.of_param(c.callee, i)
                            if S.all_written():
                                ck.violation("R02c", "R02c/%s/call-%s-writes" % (F.name, c.callee), site(prog, c),
                                             "the parallel loop passes %s to %s, which writes through it" % (a.text(), c.callee), prog.config)
            for x in body.walk():
                if "omp" in x.d and x.d["omp"] in FORBIDDEN_DIRECTIVES:
                    ck.violation("R02c", "R02c/%s/%s" % (F.name, x.d["omp"]), site(prog, x), "omp %s inside the parallel loop" % x.d["omp"], prog.config)
            sched = [c for c in clause(d, "schedule")]
            ck.inst("R02c", where, "%s: collapse(%d) loop, %d stores, all private or indexed by all loop indices" % (F.name, ncoll, nst), prog.config)
    if "omp" in prog.config.split("+")[0:1]:
        ck.floor("R02c", n, 1, "parallel for loops")
    return n


# --------------------------------------------------------------------------- R02d / R02e
def r02d(ck, prog):
    n = 0
    for F in prog.all_functions:
        if "/tests/" in F.file:
            continue
        for d in omp_nodes(F):
            kind = d.d["omp"]
            if kind == "parallel":
                n += 1
                b = d.child("body")
                where = site(prog, d, "omp parallel")
                ok = b is not None and b.d.get("omp") == "single"
                ck.inst("R02d", where, "%s: parallel region is %s" % (F.name, "a single-thread task generator" if ok else b.k if b else "?"), prog.config)
                if not ok:
                    ck.violation("R02d", "R02d/%s/parallel-shape" % F.name, where,
                                 "the parallel region's body is executed by every thread (no omp single): replicated execution "
                                 "of %s" % (b.text()[:50] if b is not None else "?"), prog.config)
            elif kind.split()[0] in ("for", "single", "sections", "taskloop") and not any(
                    "omp" in a.d and a.d["omp"].startswith("parallel") for a in d.ancestors()):
                ck.violation("R02d", "R02d/%s/orphaned-%s" % (F.name, kind.split()[0]), site(prog, d),
                             "orphaned `omp %s` in %s: it binds to whatever parallel region is active in the caller; inside the "
                             "task tree only a slice of the iterations runs (and worksharing inside a task is non-conforming)" % (kind, F.name),
                             prog.config)
            elif kind in FORBIDDEN_DIRECTIVES:
                ck.violation("R02d", "R02d/%s/%s" % (F.name, kind), site(prog, d), "omp %s is not part of the fork-join discipline the argument relies on" % kind, prog.config)
        for c in F.body.calls(*OMP_API_FORBIDDEN):
            ck.violation("R02d", "R02d/%s/%s" % (F.name, c.callee), site(prog, c),
                         "%s calls %s(): results may depend on thread identity / count / time" % (F.name, c.callee), prog.config)
    ck.inst("R02d", "lib", "no omp_get_thread_num / omp_get_num_threads / omp_get_wtime anywhere in the library and CLI", prog.config)
    if prog.config.startswith("omp"):
        ck.floor("R02d", n, 3, "parallel regions")


def r02e(ck, prog):
    n = 0
    sinks = {"omp_set_num_threads"}

    def is_flag(t):
        t = t.split("->")[-1].split(".")[-1]
        return t in ("run_parallel", "nthreads", "n_threads")

    # tainted variables per function: (function key, decl id) -> name; seeded with the parameters that carry the thread count
    # by name and grown through arguments handed to repo functions and through local copies
    work = []
    seen = set()
    for F in prog.all_functions:
        if "/tests/" in F.file or "/lib/" not in F.file:
            continue
        for r in F.body.find("DeclRefExpr"):
            if r.d.get("dk") == "Parm" and r.d["name"] in ("n_threads", "nthreads") and (id(F), r.d["did"]) not in seen:
                seen.add((id(F), r.d["did"]))
                work.append((F, r.d["did"]))
    fields_done = set()

    def judge(F, u):
        """(ok, why, propagate) for one use u of the thread count in F"""
        mode = access_mode(u)
        p, c = u.up(casts=True)
        if mode == "write":
            rhs = p.kids[1]
            if const_value(rhs) is not None or any(x.d.get("name") in ("n_threads", "nthreads") or (id(F), x.d.get("did")) in seen for x in rhs.find("DeclRefExpr")):
                return True, "assigned", None
            return False, "assigned from something else", None
        if p is None:
            return False, "?", None
        if p.k == "CStyleCastExpr" and "void" in (p.ty or ""):
            return True, "discarded ((void) cast)", None
        if p.k == "BinaryOperator" and p.d["op"] == "=" and c.within(p.kids[1]) and is_flag(p.kids[0].strip().text()):
            return True, "copied into %s" % p.kids[0].text(), None
        if p.k == "CallExpr" and p.callee in sinks:
            return True, "argument of %s" % p.callee, None
        if p.k == "CallExpr" and p.callee and prog.fn(prog.resolve(p.callee, F.file), required=False) is not None:
            G = prog.fn(prog.resolve(p.callee, F.file))
            idx = next((k for k, a in enumerate(p.args) if c.within(a) or c is a), None)
            if idx is not None and idx < len(G.params):
                return True, "handed to %s as its parameter %s" % (G.name, G.params[idx]["name"]), (G, G.params[idx]["did"])
            return False, "argument of %s (parameter not resolved)" % p.callee, None
        if p.k == "ConditionalOperator" and c.role in ("then", "else") and const_value(p.child("else") if c.role == "then" else p.child("then")) is not None:
            return True, "the value of a clamp", None
        if p.k == "VarDecl" or (p.k == "DeclStmt"):
            return False, "initialises a local", None
        if p.k == "BinaryOperator" and p.d["op"] in ("<", "==", "!=", ">", "<=", ">="):
            other = p.kids[1] if c.within(p.kids[0]) else p.kids[0]
            if const_value(other) is None:
                return False, "compared with a run-time value", None
            gp, gc = p.up(casts=True)
            if gp is not None and gp.k == "IfStmt" and gc.role == "cond":
                # a comparison with a constant: must only gate the clamp or the run_parallel flag
                branches = [b for b in (gp.child("then"), gp.child("else")) if b is not None]
                stores = [x for b in branches for x in b.walk() if x.k == "BinaryOperator" and x.d["op"] == "="]
                tg = [x.kids[0].strip().text() for x in stores]
                calls = [x for b in branches for x in b.calls()]
                ok = bool(stores) and not calls and all(is_flag(t) for t in tg) and all(const_value(x.kids[1]) is not None for x in stores)
                return ok, "gates %s" % tg, None
            # value forms: flag = (n == 1) ? 0 : 1   /   flag = n > 1
            top = p
            while True:
                q, qc = top.up(casts=True)
                if q is not None and q.k == "ConditionalOperator" and qc.role == "cond" and \
                        const_value(q.child("then")) is not None and const_value(q.child("else")) is not None:
                    top = q
                    continue
                if q is not None and q.k == "UnaryOperator" and q.d["op"] == "!":
                    top = q
                    continue
                break
            q, qc = top.up(casts=True)
            if q is not None and q.k == "BinaryOperator" and q.d["op"] == "=" and qc.within(q.kids[1]) and is_flag(q.kids[0].strip().text()):
                return True, "its comparison with a constant is stored into %s" % q.kids[0].text(), None
            # the clamp written as a value:  int nt = (n < 1) ? 1 : n;   - the local carries the (clamped) thread count on
            pc_, cc_ = p.up(casts=True)
            if pc_ is not None and pc_.k == "ConditionalOperator" and cc_.role == "cond":
                arms = [pc_.child("then"), pc_.child("else")]
                if all(const_value(a_) is not None or (a_.strip(casts=True).k == "DeclRefExpr" and (a_.strip(casts=True).d.get("did") == u.d.get("did"))) for a_ in arms):
                    holder = pc_.parent
                    while holder is not None and holder.k in ("ParenExpr", "ImplicitCastExpr", "CStyleCastExpr"):
                        holder = holder.parent
                    if holder is not None and holder.role == "declinit" and holder.decl is not None:
                        return True, "clamped into the local %s" % holder.decl["name"], (F, holder.decl["did"])
                    if pc_.role == "declinit" and pc_.decl is not None:
                        return True, "clamped into the local %s" % pc_.decl["name"], (F, pc_.decl["did"])
                    if holder is not None and holder.k == "BinaryOperator" and holder.d["op"] == "=" and holder.kids[0].strip().k == "DeclRefExpr":
                        return True, "clamped into the local %s" % holder.kids[0].text(), (F, holder.kids[0].strip().d["did"])
            return False, "compared with a constant outside the clamp / run_parallel idioms", None
        return False, "", None

    while work:
        F, did = work.pop()
        for u in F.body.find("DeclRefExpr"):
            if u.d.get("did") != did:
                continue
            n += 1
            where = site(prog, u, u.text())
            ok, why, prop = judge(F, u)
            ck.inst("R02e", where, "%s uses the thread count: %s" % (F.name, why), prog.config)
            if prop is not None and (id(prop[0]), prop[1]) not in seen:
                seen.add((id(prop[0]), prop[1]))
                work.append(prop)
            if not ok:
                p, c = u.up(casts=True)
                ck.violation("R02e", "R02e/%s/%s" % (F.name, u.text().replace(" ", "")), where,
                             "%s uses the thread count %s in %s (%s): the result may depend on the number of threads" % (
                                 F.name, u.text(), p.text()[:60] if p is not None else "?", why), prog.config)
    for F in prog.all_functions:
        if "/tests/" in F.file:
            continue
        for u in F.body.find("MemberExpr"):
            if not (u.d.get("field") == "nthreads" and u.d.get("rec") in ("aln_param",)):
                continue
            n += 1
            where = site(prog, u, u.text())
            ok, why, prop = judge(F, u)
            ck.inst("R02e", where, "%s uses the thread count: %s" % (F.name, why), prog.config)
            if prop is not None:
                raise AnalysisBroken("R02e: aln_param.nthreads is handed to %s; following a field value into a callee is not implemented" % prop[0].name)
            if not ok:
                p, c = u.up(casts=True)
                ck.violation("R02e", "R02e/%s/%s" % (F.name, u.text().replace(" ", "")), where,
                             "%s uses the thread count %s in %s (%s): the result may depend on the number of threads" % (
                                 F.name, u.text(), p.text()[:60] if p is not None else "?", why), prog.config)
    ck.floor("R02e", n, 5, "uses of the thread count")
    # run_parallel is consumed only by if() clauses
    for rec in ("aln_mem", "msa"):
        for F in prog.lib_functions():
            for m in member_accesses(F.body, rec, "run_parallel"):
                mode = access_mode(m)
                if mode != "read":
                    continue
                in_clause = any("omp" in a.d for a in m.ancestors()) and not any(a.role == "body" and "omp" in (a.parent.d if a.parent else {}) for a in [m])
                p, c = m.up(casts=True)
                is_copy = p is not None and p.k == "BinaryOperator" and p.d["op"] == "=" and "run_parallel" in p.kids[0].text()
                role_ok = any(str(a.role).startswith("clause:if") for a in [m] + list(m.ancestors()))
                ck.inst("R02e", site(prog, m, "run_parallel"), "%s reads run_parallel (%s)" % (F.name, "if clause" if role_ok else "copy" if is_copy else "other"), prog.config)
                if not (role_ok or is_copy):
                    ck.violation("R02e", "R02e/%s/run_parallel" % F.name, site(prog, m),
                                 "%s reads the run_parallel flag outside an omp if() clause: it selects code, not just deferral" % F.name, prog.config)


# --------------------------------------------------------------------------- R02g
KINDS = ("aln_seqseq_", "aln_profileprofile_", "aln_seqprofile_")


def dispatch_table(F):
    """[(test text, [callee names])] for the kernel dispatch if-chain of an aln_runner variant (OpenMP nodes erased)"""
    from ..util import if_chain
    for n in F.body.find("IfStmt"):
        if n.role == "else":
            continue
        links, final = if_chain(n)
        branches = [(c.text(), th) for c, th in links] + ([("else", final)] if final is not None else [])
        tab = []
        for t, br in branches:
            calls = [c.callee for c in br.calls() if c.callee and c.callee.startswith("aln_") and any(c.callee.startswith(k) for k in KINDS)]
            tab.append((t, calls))
        if sum(len(c) for _, c in tab) >= 6:
            return tab, n
    return None, None


def r02g(ck, prog):
    P, S = prog.fn("aln_runner"), prog.fn("aln_runner_serial")
    tp, np_ = dispatch_table(P)
    ts, ns_ = dispatch_table(S)
    if tp is None or ts is None:
        raise AnalysisBroken("R02g slot: kernel dispatch chain not found in aln_runner / aln_runner_serial")
    ck.inst("R02g", site(prog, np_, "dispatch"), "aln_runner: %s" % tp, prog.config)
    ck.inst("R02g", site(prog, ns_, "dispatch"), "aln_runner_serial: %s" % ts, prog.config)
    if tp != ts:
        ck.violation("R02g", "R02g/aln_runner/siblings", site(prog, np_),
                     "the parallel and the serial Hirschberg step dispatch differently: %s vs %s; the 500-column switch "
                     "would change the alignment" % (tp, ts), prog.config)
    for name, tab, node in (("aln_runner", tp, np_), ("aln_runner_serial", ts, ns_)):
        for test, calls in tab:
            kinds = {k for c in calls for k in KINDS if c.startswith(k)}
            sufs = [c.split("_")[-1] for c in calls]
            if len(kinds) != 1 or sufs != ["foward", "backward", "meetup"]:
                ck.violation("R02g", "R02g/%s/branch" % name, site(prog, node),
                             "branch '%s' of %s calls %s: forward, backward and meetup of one kernel kind are expected" % (test, name, calls),
                             prog.config)
    # the tests select the right kernel: seq1 -> seqseq, prof2 -> profileprofile, else seqprofile
    want = [("seq1", "aln_seqseq_"), ("prof2", "aln_profileprofile_"), ("else", "aln_seqprofile_")]
    for (test, calls), (field, kind) in zip(tp, want):
        if (field != "else" and field not in test) or not all(c.startswith(kind) for c in calls):
            ck.violation("R02g", "R02g/aln_runner/selection", site(prog, np_),
                         "dispatch test '%s' selects %s (expected %s* under a test of %s)" % (test, calls, kind, field), prog.config)
    # other statements of the two functions agree (calls outside the dispatch)
    def outline(F):
        out = []
        for c in F.body.calls():
            if c.callee and not any(c.callee.startswith(k) for k in KINDS):
                args = [a.text() for a in c.args]
                if c.callee == "aln_continue":
                    args = args[:-1]
                out.append((c.callee, tuple(args)))
        return out
    op, os_ = outline(P), outline(S)
    op2 = [x for x in op if x[0] != "aln_runner_serial"]
    ck.inst("R02g", site(prog, P, "outline"), "other calls: %s vs %s" % (op2, os_), prog.config)
    if op2 != os_:
        ck.violation("R02g", "R02g/aln_runner/outline", site(prog, P),
                     "aln_runner and aln_runner_serial differ outside the kernel dispatch: %s vs %s" % (op2, os_), prog.config)
    # assignments to m->... before the dispatch agree
    def stores(F):
        return [(a.kids[0].text(), a.kids[1].text()) for a in F.body.find("BinaryOperator") if a.d["op"] == "=" and
                a.kids[0].strip().k in ("MemberExpr", "ArraySubscriptExpr")]
    if stores(P) != stores(S):
        ck.violation("R02g", "R02g/aln_runner/stores", site(prog, P),
                     "aln_runner and aln_runner_serial set up the sub-problem differently: %s vs %s" % (stores(P), stores(S)), prog.config)
    # aln_continue: every case recurses through both siblings under the serial flag.  Decided on the flattened code
    # (private helpers inlined): with the flag set only aln_runner_serial is reached, with the flag clear only aln_runner,
    # and both ways the same number of recursions happens at the same places
    from ..inline import flatten, executed, resolve
    C = prog.fn("aln_continue")
    sp = [p_ for p_ in C.params if p_["name"] == "serial"]
    if len(sp) != 1:
        raise AnalysisBroken("R02g slot: aln_continue has no parameter 'serial'")
    sdid = sp[0]["did"]

    def decide_with(val):
        def decide(cond, env):
            x, e = resolve(cond, env)
            neg = False
            while True:
                if x.k == "UnaryOperator" and x.d["op"] == "!":
                    neg = not neg
                    x, e = resolve(x.kids[0], e)
                    continue
                if x.k == "BinaryOperator" and x.d["op"] in ("==", "!=") and const_value(x.kids[1]) is not None:
                    if (x.d["op"] == "==") == (const_value(x.kids[1]) == 0):
                        neg = not neg
                    x, e = resolve(x.kids[0], e)
                    continue
                break
            if x.k == "DeclRefExpr" and x.d.get("did") == sdid:
                return val != neg
            if any(r.k == "DeclRefExpr" and r.d.get("did") == sdid for r in x.walk()):
                raise AnalysisBroken("R02g: a test of the serial flag in aln_continue is not understood: %s" % cond.text())
            return None
        return decide
    ev = flatten(prog, C, [C.body], exclude=("aln_runner", "aln_runner_serial", "aln_continue"))
    runs = {}
    for val in (True, False):
        seq, _ = executed(ev, decide_with(val))
        runs[val] = [e for e in seq if e[0] == "call" and e[1] in ("aln_runner", "aln_runner_serial")]
    ncase = len(runs[True])
    for val, want in ((True, "aln_runner_serial"), (False, "aln_runner")):
        for e in runs[val]:
            if e[1] != want:
                ck.violation("R02g", "R02g/aln_continue/recursion", site(prog, e[2]),
                             "aln_continue recurses into %s when the serial flag is %s (expected %s)" % (e[1], "set" if val else "clear", want),
                             prog.config)
    if len(runs[True]) != len(runs[False]):
        ck.violation("R02g", "R02g/aln_continue/unguarded", site(prog, C),
                     "aln_continue recurses %d time(s) with the serial flag set and %d time(s) with it clear" % (len(runs[True]), len(runs[False])),
                     prog.config)
    ck.inst("R02g", site(prog, C, "recursion"), "aln_continue: %d recursion sites select the sibling by the serial flag" % ncase, prog.config)
    ck.floor("R02g", ncase, 12, "recursion sites in aln_continue")


# --------------------------------------------------------------------------- R02h
def call_outline(F):
    out = []
    for c in F.body.calls():
        if c.callee and not c.callee.startswith("omp_") and not c.callee.startswith("__kmpc") and not c.callee.startswith("_mm") \
                and not c.callee.startswith("__builtin"):
            out.append(c.callee)
    return out


def r02h(ck, progs):
    pairs = [("omp+avx2", "serial+avx2"), ("omp", "serial")]
    n = 0
    for a, b in pairs:
        if a not in progs or b not in progs:
            continue
        A, B = progs[a], progs[b]
        fa = {F.name: F for F in A.lib_functions()}
        fb = {F.name: F for F in B.lib_functions()}
        for name in sorted(set(fa) | set(fb)):
            if name not in fa or name not in fb:
                ck.violation("R02h", "R02h/%s/exists" % name, name,
                             "function %s exists only in the %s configuration" % (name, a if name in fa else b), "%s|%s" % (a, b))
                continue
            n += 1
            oa, ob = call_outline(fa[name]), call_outline(fb[name])
            if oa != ob:
                ck.violation("R02h", "R02h/%s/calls" % name, site(A, fa[name]),
                             "%s makes different calls with and without OpenMP: %s vs %s" % (name, oa[:12], ob[:12]), "%s|%s" % (a, b))
        ck.inst("R02h", "lib", "%d functions compared between %s and %s" % (len(fa), a, b), "%s|%s" % (a, b))
    # every omp_* API call sits under #ifdef HAVE_OPENMP: it must not appear in a serial configuration
    for cfg, P in progs.items():
        if cfg.startswith("serial"):
            for F in P.all_functions:
                for c in F.body.calls():
                    if c.callee and c.callee.startswith("omp_"):
                        ck.violation("R02h", "R02h/%s/omp-api" % F.name, site(P, c),
                                     "%s is called in the configuration without OpenMP" % c.callee, cfg)
    return n


def run(ck, progs):
    describe(ck)
    for cfg, prog in progs.items():
        if cfg.startswith("omp"):
            groups = ck.attempt(r02a, ck, prog)
            ck.attempt(r02b, ck, prog, groups)
            n = ck.attempt(r02c, ck, prog)
            ck.attempt(r02d, ck, prog)
        ck.attempt(r02e, ck, prog)
        ck.attempt(r02g, ck, prog)
    if len(progs) > 1:
        ck.attempt(r02h, ck, progs)
    else:
        ck.info("R02h", "cross-configuration agreement is evaluated in the thorough tier (all four configurations)")
    return ("OpenMP structure from the clang AST built with -fopenmp: CFG open-region analysis from every task to its "
            "taskwait; field-level interprocedural effect summaries compared for every pair of tasks that may be active "
            "together; index-shape of shared-array writes in the tree recursion; store/callee analysis of the parallel "
            "for; dataflow of the thread count; sibling agreement of the parallel and serial Hirschberg steps.")
