"""C03 — the alignment does not depend on the order of the input sequences.

Decided as non-interference: after the canonical sort the only carriers of the caller's order are
`rank` and the relative position of records that compare equal (excluded by the premise: distinct
names).  R03a sort dominates every positional consumer; R03b the comparator is a function of
(len, name) only; R03c rank is write-only until the end (= R01b); R03d no hidden order carriers
(RNG, pointer values, clock) reachable from kalign_run; R03e only the two sorts (and the input
check before them) permute `sequences`.
"""
from ..build import AnalysisBroken
from ..callgraph import CallGraph
from ..model import access_mode
from ..util import site, member_accesses, comparator_spec, const_value
from . import c01

RNG = ("rand", "random", "srand", "srandom", "drand48", "lrand48", "erand48", "rand_r", "arc4random",
       "tl_random_int", "tl_random_double", "tl_random_gaussian", "tl_random_gamma", "init_rng", "init_rng_from_rng")
CLOCK = ("time", "clock", "clock_gettime", "gettimeofday", "getpid", "omp_get_wtime")
# functions allowed to read the clock: stopwatch / log sinks whose values never flow back (void or status only)
CLOCK_SINKS = {"esl_stopwatch_Start", "esl_stopwatch_Stop", "esl_stopwatch_Create", "esl_stopwatch_Display",
               "stopwatch_getclocks", "get_time", "log_message", "warning", "error", "message"}
CONSUMERS = ("build_tree_kmeans", "create_msa_tree", "finalise_alignment")


def describe(ck):
    ck.rule("R03a", "msa_sort_len_name precedes every positional consumer of msa->sequences in kalign_run")
    ck.rule("R03b", "the canonical-order comparator reads len and name of its two arguments and nothing else")
    ck.rule("R03c", "msa_seq.rank is written by the input check and read only by the final rank sort (= R01b)")
    ck.rule("R03d", "nothing reachable from kalign_run draws random numbers, reads the clock into data, or orders/hashes pointer values")
    ck.rule("R03e", "between entry and exit of kalign_run only the input check, the canonical sort and the rank sort permute msa->sequences")
    ck.assumptions += ["sequence names are pairwise distinct (premise of the property)",
                       "the computation between the sorts is a deterministic function of memory contents (R02*/R16*)"]
    ck.not_decided += ["names longer than MSA_NAME_LEN that share a 256-byte prefix compare equal"]


def r03a(ck, prog):
    from ..lift import Lifted
    F = prog.fn("kalign_run")
    L = Lifted(prog, CallGraph(prog))
    if not L.sites(F, "msa_sort_len_name", "may"):
        ck.violation("R03a", "R03a/kalign_run/sort-missing", site(prog, F),
                     "kalign_run does not call msa_sort_len_name: anchors, distances and tree ties follow input order",
                     prog.config)
        return
    n = 0
    for name in CONSUMERS + ("convert_msa_to_internal", "alloc_tasks"):
        sites_ = L.sites(F, name, "may")
        if not sites_:
            continue
        n += len(sites_)
        where = site(prog, sites_[0], name)
        ck.inst("R03a", where, "canonical sort dominates %s" % name, prog.config)
        why = L.precedes(F, "msa_sort_len_name", name)
        if why:
            ck.violation("R03a", "R03a/kalign_run/%s" % name, where,
                         "%s is reachable without the canonical sort having run (%s)" % (name, why), prog.config)
    ck.floor("R03a", n, 4, "consumers")


def r03b(ck, prog):
    S = prog.fn("msa_sort_len_name")
    comps = set()
    for c in S.body.calls("qsort"):
        base = c.args[0].text() if c.args else ""
        if "sequences" not in base:
            ck.violation("R03b", "R03b/msa_sort_len_name/array", site(prog, c), "qsort does not sort msa->sequences", prog.config)
        n = c.args[1].text() if len(c.args) > 1 else ""
        if "numseq" not in n:
            ck.violation("R03b", "R03b/msa_sort_len_name/count", site(prog, c),
                         "qsort sorts %s elements instead of numseq" % n, prog.config)
        for a in c.args:
            a0 = a.strip(casts=True)
            if a0.k == "DeclRefExpr" and a0.d.get("dk") == "Fn":
                comps.add(a0.d["name"])
    # the sort is unconditional: no success return of msa_sort_len_name without the qsort
    qpos = [S.cfg.position(c) for c in S.body.calls("qsort")]
    for r in S.success_returns()[:1]:
        if not qpos or S.succeeds_avoiding(qpos):
            ck.violation("R03b", "R03b/msa_sort_len_name/conditional", site(prog, r),
                         "msa_sort_len_name can return success without sorting: records that compare equal on the shortcut's "
                         "criterion keep their input order", prog.config)
    ck.inst("R03b", site(prog, S, "unconditional"), "every success return of msa_sort_len_name passes through qsort", prog.config)
    if len(comps) != 1:
        raise AnalysisBroken("R03b slot: msa_sort_len_name must pass exactly one comparator to qsort (%s)" % sorted(comps))
    C = prog.fn(comps.pop())
    fields = {m.d["field"] for m in C.body.find("MemberExpr")}
    where = site(prog, C, "comparator")
    ck.inst("R03b", where, "%s reads fields %s" % (C.name, sorted(fields)), prog.config)
    if fields != {"len", "name"}:
        ck.violation("R03b", "R03b/%s/fields" % C.name, where,
                     "the canonical comparator reads %s; it must be a function of (len, name) only%s" % (
                         sorted(fields), " — the name tie-break is gone" if "name" not in fields else ""), prog.config)
    # no globals, no calls except str(n)cmp, no comparison of the pointer arguments themselves
    for r in C.body.find("DeclRefExpr"):
        if r.d.get("g"):
            ck.violation("R03b", "R03b/%s/global" % C.name, site(prog, r), "comparator reads global %s" % r.d["name"], prog.config)
    for c in C.body.calls():
        if c.callee not in ("strncmp", "strcmp", "strnlen", "strlen", "memcmp"):
            ck.violation("R03b", "R03b/%s/call" % C.name, site(prog, c),
                         "comparator calls %s: its result may depend on more than (len, name)" % c.callee, prog.config)
        if c.callee in ("strncmp", "memcmp") and len(c.args) == 3:
            nv = c.args[2].cv
            lim = prog.macro_int("MSA_NAME_LEN")
            ck.inst("R03b", site(prog, c, "name span"), "names compared over %s bytes (MSA_NAME_LEN=%d)" % (nv, lim), prog.config)
            if nv is None or nv < lim:
                ck.violation("R03b", "R03b/%s/name-span" % C.name, site(prog, c),
                             "names are compared over %s bytes only; distinct names sharing that prefix tie and keep "
                             "input order" % nv, prog.config)
    for b in C.body.find("BinaryOperator"):
        if b.d["op"] in ("<", ">", "<=", ">=", "==", "!=", "-"):
            if all(k.ty.endswith("*") for k in b.kids) and not any(const_value(k) == 0 or "NULL" in k.mac for k in b.kids):
                ck.violation("R03b", "R03b/%s/pointer-compare" % C.name, site(prog, b),
                             "comparator compares addresses (%s)" % b.text(), prog.config)
    spec = comparator_spec(C)
    lens = [x for x in spec if x["kind"] == "field" and x["field"] == "len" and x["field_b"] == "len"]
    ck.inst("R03b", site(prog, C, "len tests"), "%d test(s) on len; name compared on the equal-length branch" % len(lens), prog.config)
    eq = [x for x in lens if x["op"] == "=="]
    strc = [c for c in C.body.calls("strncmp", "strcmp", "memcmp")]
    if not strc:
        ck.violation("R03b", "R03b/%s/shape" % C.name, where,
                     "comparator does not compare names", prog.config)
    # the name comparison must be reached exactly when the lengths are equal
    for c in strc:
        from ..util import guards
        g = [cond for cond, pol in guards(c) if any(m.d["field"] == "len" for m in cond.find("MemberExpr"))]
        if not g and not list(C.body.find("IfStmt")):
            raise AnalysisBroken("R03b: comparator %s is not written with if-statements; the nesting of the name tie-break is not decided" % C.name)
        if not g:
            # a ternary / early-return formulation: accept when the length test textually precedes and controls it
            conds = [x for x in C.body.find("ConditionalOperator") if c.within(x) and any(m.d["field"] == "len" for m in x.child("cond").find("MemberExpr"))]
            early = [i for i in C.body.find("IfStmt") if any(m.d["field"] == "len" for m in i.child("cond").find("MemberExpr")) and
                     i.line <= c.line and any(r.k == "ReturnStmt" for r in i.child("then").walk())]
            if conds or early:
                continue
            ck.violation("R03b", "R03b/%s/tie" % C.name, site(prog, c),
                         "the name comparison is not nested under the length comparison", prog.config)


def permuters(prog, cg):
    """functions that (directly) reorder or replace elements of msa.sequences"""
    out = {}
    for F in cg.defined.values():
        why = None
        for m in member_accesses(F.body, "msa", "sequences"):
            mode = access_mode(m)
            if mode in ("write", "rmw"):
                why = "assigns msa->sequences"
            else:
                p, c = m.up()
                if p is not None and p.k == "ArraySubscriptExpr" and c.within(p.kids[0]) and \
                        access_mode(p) in ("write", "rmw"):
                    why = "stores into msa->sequences[...]"
                if p is not None and p.k == "CallExpr" and p.callee == "qsort":
                    why = "qsorts msa->sequences"
        if why:
            out[F.name] = why
    return out


def r03e(ck, prog, cg):
    from ..lift import Lifted
    F = prog.fn("kalign_run")
    L = Lifted(prog, cg)
    perm = permuters(prog, cg)
    allowed = {"kalign_essential_input_check", "msa_sort_len_name", "msa_sort_rank"}
    count = [0]

    def scan(G, depth=0):
        for c in G.body.calls():
            if not c.callee or c.callee not in cg.defined or c.callee == G.name:
                continue
            hit = sorted(set(cg.reachable({c.callee})) & set(perm))
            if not hit:
                continue
            where = site(prog, c, c.callee)
            if c.callee in allowed:
                count[0] += 1
                ck.inst("R03e", where, "%s -> %s reaches permuter(s) %s" % (G.name, c.callee, hit), prog.config)
                continue
            H = cg.defined[c.callee]
            if H.static and H.file == F.file and depth < 3:
                scan(H, depth + 1)          # a private helper of the pipeline: look inside
                continue
            count[0] += 1
            ck.inst("R03e", where, "%s -> %s reaches permuter(s) %s" % (G.name, c.callee, hit), prog.config)
            ck.violation("R03e", "R03e/kalign_run/%s" % c.callee, where,
                         "%s (called between the sorts) reorders msa->sequences via %s (%s): the canonical order is "
                         "lost before or after the computation" % (c.callee, hit[0], perm[hit[0]]), prog.config)
    scan(F)
    # nothing follows the rank sort that reaches a permuter
    for G, c in L.find_call(F, "msa_sort_rank"):
        cfg = G.cfg
        pr = cfg.position(c)
        for d in G.body.calls():
            if d is c or not d.callee or d.callee not in cg.defined:
                continue
            if set(cg.reachable({d.callee})) & set(perm) and cfg.reaches(pr, cfg.position(d)):
                ck.violation("R03e", "R03e/kalign_run/after-rank-%s" % d.callee, site(prog, d),
                             "%s permutes sequences after the caller's order was restored" % d.callee, prog.config)
    ck.floor("R03e", count[0], 3, "permuting calls in kalign_run")


def _clock_only_formatted(F, call):
    """the value of a clock read flows only into date formatting: it is stored in a local whose only uses are
    &local arguments of localtime / localtime_r / ctime / difftime / gmtime (a date line in a file header)"""
    p, c = call.up(casts=True)
    if p is None or not (p.k == "BinaryOperator" and p.d["op"] == "=" and p.kids[0].strip().k == "DeclRefExpr"):
        return False
    did = p.kids[0].strip().d["did"]
    for r in F.body.refs(did=did):
        if r.within(p.kids[0]):
            continue
        q, cc = r.up(casts=True)
        if q is not None and q.k == "UnaryOperator" and q.d["op"] == "&":
            q2, c2 = q.up(casts=True)
            if q2 is not None and q2.k == "CallExpr" and q2.callee in ("localtime", "localtime_r", "ctime", "ctime_r", "gmtime", "gmtime_r", "difftime"):
                continue
        return False
    return True


def _ptr_roots(F, e, depth=0, seen=None):
    """the objects a pointer expression may point into: names of parameters / arrays / pointer fields it is derived from by
    arithmetic, or 'data:<text>' when the pointer value itself is loaded from memory (an element of an array of pointers,
    *p, a call result)"""
    from ..util import local_defs
    seen = set() if seen is None else seen
    x = e.strip(casts=True)
    if depth > 6:
        return {"data:" + x.text()[:30]}
    if x.k == "BinaryOperator" and x.d["op"] in ("+", "-"):
        ps = [k for k in x.kids if k.ty.endswith("*") or k.ty.endswith("]")]
        return _ptr_roots(F, ps[0], depth + 1, seen) if len(ps) == 1 else {"data:" + x.text()[:30]}
    if x.k == "UnaryOperator" and x.d["op"] == "&":
        y = x.kids[0].strip()
        if y.k == "ArraySubscriptExpr":
            return _ptr_roots(F, y.kids[0], depth + 1, seen)
        return {"&" + y.text()}
    if x.k == "UnaryOperator" and x.d["op"] in ("++", "--"):
        return _ptr_roots(F, x.kids[0], depth + 1, seen)
    if x.k == "ConditionalOperator":
        return _ptr_roots(F, x.child("then"), depth + 1, seen) | _ptr_roots(F, x.child("else"), depth + 1, seen)
    if x.k == "DeclRefExpr":
        if x.d.get("dk") == "Parm" or x.d.get("g") or x.ty.endswith("]"):
            return {x.d["name"]}
        did = x.d["did"]
        if did in seen:
            return set()
        seen.add(did)
        out = set()
        for d, _ in local_defs(F, did):
            if d is None:
                continue
            d0 = d.strip(casts=True)
            if d0.cv == 0 or "NULL" in "".join(d0.mac or []):
                continue
            r = _ptr_roots(F, d, depth + 1, seen)
            # a variable that holds a pointer obtained from a call or loaded from memory pins one object: it is the root
            out |= {("var:" + x.d["name"]) if q.startswith("data:") else q for q in r}
        return out or {x.d["name"]}
    if x.k == "MemberExpr" and not any(k.k in ("ArraySubscriptExpr", "CallExpr") for k in x.walk() if k is not x):
        return {"var:" + x.text()}          # a pointer field: one pinned value per spelling
    return {"data:" + x.text()[:30]}


def r03d(ck, prog, cg, roots=("kalign_run",), rule="R03d"):
    reach = cg.reachable(set(roots))
    nfn = 0
    for name in sorted(reach):
        F = cg.defined.get(name)
        if F is None:
            if name in RNG:
                caller = cg.path_to(name)
                ck.violation(rule, "%s/%s/%s" % (rule, caller[-2] if len(caller) > 1 else "?", name), "call graph",
                             "random source %s() is reachable from %s: %s" % (name, roots[0], " -> ".join(caller)),
                             prog.config, path=caller)
            continue
        nfn += 1
        if name in RNG:
            caller = cg.path_to(name)
            ck.violation(rule, "%s/%s/%s" % (rule, caller[-2] if len(caller) > 1 else "?", name), site(prog, F),
                         "random source %s() is reachable from %s: %s" % (name, roots[0], " -> ".join(caller)),
                         prog.config, path=caller)
        for c in F.body.calls(*CLOCK):
            if name in CLOCK_SINKS or F.file.endswith(("esl_stopwatch.c", "tldevel.c")):
                continue
            if _clock_only_formatted(F, c):
                continue
            ck.violation(rule, "%s/%s/%s" % (rule, name, c.callee), site(prog, c),
                         "%s reads %s() on a path reachable from %s and is not one of the log/stopwatch sinks" % (
                             name, c.callee, roots[0]), prog.config)
        for b in F.body.find("BinaryOperator"):
            if b.d["op"] in ("<", ">", "<=", ">=") and all(k.ty.endswith("*") for k in b.kids):
                ra, rb = _ptr_roots(F, b.kids[0]), _ptr_roots(F, b.kids[1])
                if len(ra) == 1 and ra == rb and not next(iter(ra)).startswith("data:"):
                    # cursor and end of one array (p = base; end = base + n; p < end): positions, not addresses, are compared
                    ck.inst(rule, site(prog, b), "%s compares two pointers into the same array %s (%s)" % (name, next(iter(ra)), b.text()), prog.config)
                    continue
                if any(r.startswith("data:") for r in ra | rb) or \
                        (len(ra) == 1 and len(rb) == 1 and ra != rb and all(r.startswith("var:") for r in ra | rb)):
                    ck.violation(rule, "%s/%s/ptr-order" % (rule, name), site(prog, b),
                                 "%s orders pointer values (%s): heap addresses depend on allocation history / input order" % (
                                     name, b.text()), prog.config)
                    continue
                raise AnalysisBroken("%s: %s compares the pointers %s; whether they point into one array is not decided (%s / %s)" % (
                    rule, name, b.text(), sorted(ra), sorted(rb)))
        for x in F.body.walk():
            if x.k in ("CStyleCastExpr", "ImplicitCastExpr") and x.d.get("ck") == "PointerToIntegral":
                ck.violation(rule, "%s/%s/ptr-int" % (rule, name), site(prog, x),
                             "%s converts a pointer to an integer (%s): addresses become data" % (name, x.text()[:50]), prog.config)
    ck.inst(rule, "call graph", "%d functions reachable from %s scanned for RNG / clock / pointer-order / pointer-to-integer" % (
        nfn, ",".join(roots)), prog.config)
    if nfn < 60:
        raise AnalysisBroken("%s: only %d functions reachable from %s" % (rule, nfn, roots))
    return reach


def r03f(ck, prog, cg):
    """what is computed from the records before the canonical sort must not single out a prefix of the input:
    every loop over msa->sequences in the functions that run on the unsorted msa covers [0, numseq)"""
    from ..affine import loop_range, single_defs
    from ..lift import Lifted
    K = prog.fn("kalign_run")
    L = Lifted(prog, cg)
    pre = set()
    for G, c in L.find_call(K, "msa_sort_len_name"):
        cfg = G.cfg
        pre |= {x.callee for x in G.body.calls() if x.callee in cg.defined and x is not c and cfg.reaches(cfg.position(x), cfg.position(c))}
    pre -= {"msa_sort_len_name"}
    # what the readers leave behind is also computed on the caller's order
    pre |= {"detect_alphabet", "detect_aligned", "set_sip_nsip", "merge_msa", "null_terminate_sequences"}
    n = 0
    for name in sorted(pre):
        F = cg.defined.get(name)
        if F is None:
            continue
        subst = single_defs(F)
        for lp in F.body.find("ForStmt"):
            idx = None
            rng = loop_range(lp, subst)
            if rng is None:
                continue
            var = rng[0]
            uses = [s_ for s_ in lp.find("ArraySubscriptExpr") if s_.kids[1].strip(casts=True).text() == var and
                    s_.kids[0].strip(casts=True).k == "MemberExpr" and s_.kids[0].strip(casts=True).d.get("field") == "sequences"]
            if not uses:
                continue
            n += 1
            lo, hi = rng[1], rng[2]
            where = site(prog, lp, "%s loop" % name)
            full = lo.is_const() and lo.c == 0 and hi.c == 0 and len(hi.t) == 1 and list(hi.t)[0].endswith("->numseq") and list(hi.t.values()) == [1]
            # loops that start at numseq walk the spare, pre-allocated slots behind the live records: not a prefix
            spare = (not lo.is_const()) and lo.c == 0 and len(lo.t) == 1 and list(lo.t)[0].endswith("->numseq")
            ck.inst("R03f", where, "%s visits sequences [%s, %s) of the unsorted msa%s" % (name, lo, hi, " (spare slots)" if spare else ""), prog.config)
            if not full and not spare and name not in ("merge_msa",):
                ck.violation("R03f", "R03f/%s/prefix" % name, where,
                             "%s looks only at sequences [%s, %s) of the msa in the caller's order: what it computes depends on "
                             "which records come first" % (name, lo, hi), prog.config)
    ck.floor("R03f", n, 4, "loops over the unsorted msa")


def run(ck, progs):
    describe(ck)
    ck.rule("R03g", "distinct FASTA headers stay distinct names: read_fasta copies the whole header line (= R01l), so the (length, name) key of the canonical sort has no input-order ties")
    ck.rule("R03f", "every loop over msa->sequences that runs before the canonical sort covers all numseq records (no prefix of the input order is singled out)")
    for cfg, prog in progs.items():
        cg = CallGraph(prog)
        ck.attempt(r03a, ck, prog)
        ck.attempt(r03b, ck, prog)
        sub_before = len(ck.instances)
        ck.borrow(c01.r01l, prog, "R03g", ("R01l",))
        ck.attempt(c01.r01b, ck, prog)
        for i in ck.instances[sub_before:]:
            i["rule"] = "R03c"
        for v in ck.violations:
            if v["rule"] == "R01b":
                v["rule"] = "R03c"
                v["key"] = v["key"].replace("R01b", "R03c")
        ck.attempt(r03d, ck, prog, cg)
        ck.attempt(r03e, ck, prog, cg)
        ck.attempt(r03f, ck, prog, cg)
    from ..controls import control_program
    cp = control_program(ck.work, "c03.c")
    from ..report import Check
    sub = Check(ck.prop, ck.tier, ck.seed)
    sub.known = {}
    try:
        r03d(sub, cp, CallGraph(cp), roots=("ctl_root",))
    except AnalysisBroken:
        pass
    keys = {v["key"] for v in sub.violations}
    for want in ("R03d/ctl_uses_rand/rand", "R03d/ctl_ptr_order/ptr-order", "R03d/ctl_ptr_hash/ptr-int", "R03d/ctl_clock/time"):
        ck.control("R03d", want, want in keys, True)
    ck.control("R03d", "ctl_clean", any("ctl_clean" in k for k in keys), False)
    ck.control("R03d", "ctl_ptr_same", any("ctl_ptr_same" in k for k in keys), False)
    return ("Non-interference of input order: CFG dominance of the canonical sort over every positional consumer in "
            "kalign_run; field-level read set and shape of the (len,name) comparator; who-may-read/write of msa_seq.rank "
            "over all functions; call-graph reachability from kalign_run to random sources, clocks, pointer ordering and "
            "pointer-to-integer conversions; set of functions that permute msa->sequences vs the calls kalign_run makes.")
