"""C04 — the result depends only on names and residues, not on the presentation (clauses only).

Decided: the three readers classify characters alike (R04a); de-alignment is effective: every gap
slot of every sequence is visited by the loops that zero / total / materialise gaps, UNALIGNED is
only assigned where all gaps are known to be zero, nothing before the merge phase reads gaps
(R04b); several inputs accumulate (R04c).
Not decided: byte-identical output for two presentations (whole parser semantics over all byte strings).
"""
from ..build import AnalysisBroken
from ..bytedom import _CTYPE
from ..callgraph import CallGraph
from ..model import access_mode
from ..affine import lin, single_defs, induction_bound
from ..util import site, guards, stores_to_field, member_accesses, macro_of_const, if_chain, const_value, local_defs

READERS = ("read_fasta", "read_clu", "read_msf")


def describe(ck):
    ck.rule("R04a", "read_fasta / read_clu / read_msf contain the same character-classification chain (histogram; isalpha -> append, len++, growth check; ispunct -> gaps[len]++)")
    ck.rule("R04j", "read_msf: the block loop starts on the line after the '//' divider (header and block phase partition the lines)")
    ck.rule("R04i", "per byte value: every letter is appended, every punctuation character counted as a gap, the three readers treat all 128 byte values alike, and a letter and its case twin take the same branch")
    ck.rule("R04b", "gap slots: every loop that zeroes, totals or materialises gaps covers 0..len of every sequence; UNALIGNED is assigned only where all gaps are zero; nothing before the merge phase reads gaps")
    ck.rule("R04c", "kalign_read_input accumulates: *msa receives the new msa only when it was NULL, otherwise merge_msa; never NULL; merge_msa recomputes alphabet, status and profiles")
    ck.not_decided += ["equality of the outputs for two presentations of the same records",
                       "format sniffing thresholds, the 'is the file empty' heuristic"]
    ck.assumptions += ["C-locale ctype semantics"]


def _ctype_of(cond):
    names = set()
    for x in cond.walk():
        for m in x.mac:
            if m in _CTYPE:
                names.add(m)
        if x.k == "CallExpr" and x.callee in _CTYPE:
            names.add(x.callee)
    return names


def _ctype_arg(cond):
    """text of the character expression a ctype test (or an explicit range test) looks at"""
    for x in cond.walk():
        if x.k == "ArraySubscriptExpr" and any(c.callee == "__ctype_b_loc" for c in x.kids[0].calls()):
            return x.kids[1].strip(casts=True).text()
        if x.k == "CallExpr" and x.callee in _CTYPE:
            return x.args[0].strip(casts=True).text()
    for x in cond.walk():
        if x.k in ("ArraySubscriptExpr", "DeclRefExpr") and x.ty.replace("const ", "") == "char":
            return x.text()
    return None


_PROG = [None]


def _char_of(F, cond):
    """(symbol, texts): the character a classification test looks at - a char-typed expression (line[i]) or an integer
    local with one definition that converts such an expression (c = (unsigned char)line[i]); texts = all spellings of it"""
    from ..bytedom import Sym
    for x in cond.walk():
        if x.k in ("ArraySubscriptExpr", "DeclRefExpr") and x.ty.replace("const ", "") in ("char", "unsigned char", "signed char") \
                and not (x.k == "DeclRefExpr" and x.d.get("g")) and not (x.k == "ArraySubscriptExpr" and x.kids[0].strip(casts=True).d.get("g")):
            return Sym(text=x.text(), ty=x.ty.replace("const ", "")), {x.text()}
    for x in cond.find("DeclRefExpr"):
        if x.d.get("dk") == "Var" and not x.d.get("g") and x.ty in ("int", "unsigned int", "unsigned char"):
            defs = [d for d, _ in local_defs(F, x.d["did"]) if d is not None]
            if len(defs) == 1:
                src = [y for y in defs[0].walk() if y.k == "ArraySubscriptExpr" and y.ty.replace("const ", "") == "char"]
                if src:
                    conv = defs[0].strip().ty if defs[0].strip().k == "CStyleCastExpr" else "int"
                    sy = Sym(did=x.d["did"], ty=x.ty)
                    sy.conv = conv
                    return sy, {x.d["name"], src[0].text()}
    return None, set()


def _actions(body, chartext, depth=0):
    texts = chartext if isinstance(chartext, (set, frozenset)) else ({chartext} if chartext else set())
    """summarise what a branch does to the current sequence record (private helpers the branch calls are looked into, the
    character argument followed into the parameter that receives it)"""
    acts = set()
    for n in body.walk():
        if n.k == "CallExpr" and n.callee and not n.callee.startswith("resize_") and _PROG[0] is not None and depth < 2:
            H = _PROG[0].functions.get(n.callee)
            if H is not None and H.body is not None and H.static:
                ct = None
                for i, a in enumerate(n.args):
                    if a.strip(casts=True).text() in texts and i < len(H.params):
                        ct = H.params[i]["name"]
                if ct is not None:      # a per-character helper: it acts on the character this branch tested
                    acts |= _actions(H.body, ct, depth + 1)
                continue
        if n.k == "BinaryOperator" and n.d["op"] == "=":
            l = n.kids[0].strip()
            if l.k == "ArraySubscriptExpr":
                b = l.kids[0].strip(casts=True)
                if b.k == "MemberExpr" and b.d.get("rec") == "msa_seq":
                    idx = l.kids[1].strip(casts=True)
                    idx_t = idx.d.get("field") if idx.k == "MemberExpr" else idx.text()
                    src = "char" if n.kids[1].strip(casts=True).text() in texts else "other:" + n.kids[1].text()
                    acts.add("%s[%s]=%s" % (b.d["field"], idx_t, src))
        elif n.k == "UnaryOperator" and n.d["op"] in ("++", "--"):
            t = n.kids[0].strip()
            if t.k == "MemberExpr" and t.d.get("rec") == "msa_seq":
                acts.add("%s%s" % (t.d["field"], n.d["op"]))
            elif t.k == "ArraySubscriptExpr":
                b = t.kids[0].strip(casts=True)
                if b.k == "MemberExpr" and b.d.get("rec") == "msa_seq":
                    idx = t.kids[1].strip(casts=True)
                    idx_t = idx.d.get("field") if idx.k == "MemberExpr" else idx.text()
                    acts.add("%s[%s]%s" % (b.d["field"], idx_t, n.d["op"]))
        elif n.k == "CallExpr" and n.callee and n.callee.startswith("resize_"):
            g = [c.text() for c, pol in guards(n, stop=body)]
            fields = sorted({m.d["field"] for c, pol in guards(n, stop=body) for m in c.find("MemberExpr")})
            acts.add("grow-if(%s)" % ",".join(fields))
        elif n.k == "GotoStmt":
            pass
    return acts


def find_chains(prog, F):
    """the character-classification chain(s) of a reader: innermost if / else-if chains inside a loop whose branches append a
    residue or count a gap; looked for in the reader and in the private helpers it calls.
    -> [(function, if-node, links, final else, symbol, spellings of the character, enclosing loop)]"""
    _PROG[0] = prog
    fns = [F] + [prog.functions[c.callee] for c in F.body.calls() if c.callee in prog.functions and prog.functions[c.callee].static
                 and prog.functions[c.callee].file == F.file and prog.functions[c.callee] is not F]
    for G in fns:
        kept = []
        for n in G.body.find("IfStmt"):
            if n.role == "else":
                continue
            loops = [x for x in n.ancestors() if x.k in ("ForStmt", "WhileStmt")]
            if not loops:
                continue
            links, final = if_chain(n)
            sym, texts = _char_of(G, links[0][0])
            if sym is None:
                continue
            acts = [_actions(th, texts) for c, th in links] + ([_actions(final, texts)] if final is not None else [])
            if any("len++" in x or "gaps[len]++" in x for x in acts):
                kept.append((G, n, links, final, sym, texts, loops[0]))
        kept = [c for c in kept if not any(o[1] is not c[1] and o[1].within(c[1]) for o in kept)]
        if kept:
            return kept
    return []


def reader_signature(prog, F):
    sig = []
    where = None
    for G, n, links, final, sym, texts, loop in find_chains(prog, F):
        entry = []
        for c, then in links:
            same = any(x.text() in texts for x in c.walk() if x.k in ("ArraySubscriptExpr", "DeclRefExpr"))
            entry.append((tuple(sorted(_ctype_of(c))), tuple(sorted(_actions(then, texts))), same))
        if final is not None:
            entry.append((("else",), tuple(sorted(_actions(final, texts))), True))
        # histogram statement in the same loop body, on the same character
        hist = []
        for u in loop.find("UnaryOperator"):
            if u.d["op"] == "++":
                t = u.kids[0].strip()
                if t.k == "ArraySubscriptExpr" and t.kids[0].strip(casts=True).k == "MemberExpr" and \
                        t.kids[0].strip(casts=True).d.get("field") == "letter_freq":
                    # counted for every character of the line: on the same character, and not inside one branch of the chain
                    hist.append(t.kids[1].strip(casts=True).text() in texts and not u.within(n))
        sig.append((tuple(entry), tuple(hist)))
        where = n
    return sig, where


def reader_byte_classes(prog, F):
    """for the character-classification chain of a reader: {byte 0..127: tuple of actions of the branch that byte takes},
    by exact evaluation of the chain's conditions for every byte value (ctype predicates with C-locale semantics, explicit
    ranges, lookups in constant tables, negations, && / || alike); (None, why) if the chain is not understood"""
    from .. import bytedom
    from ..bytedom import ev
    bytedom.PROG[0] = prog
    chains = find_chains(prog, F)
    if len(chains) != 1:
        return None, "expected one classification chain in %s, found %d" % (F.name, len(chains))
    G, n, links, final, sym, texts, loop = chains[0]
    acts = [tuple(sorted(_actions(th, texts))) for c, th in links]
    felse = tuple(sorted(_actions(final, texts))) if final is not None else ()
    out = {}
    for b in range(128):
        cls = felse
        for (c, th), a in zip(links, acts):
            v = ev(c, sym, b)
            if v is None:
                return None, "condition %s of %s cannot be evaluated for byte %d" % (c.text()[:40], G.name, b)
            if v:
                cls = a
                break
        out[b] = cls
    return out, n


def r04i(ck, prog, rule="R04i", case_only=False):
    """what a reader does with a character depends only on its class, evaluated for every byte: (1) every letter is
    appended, every punctuation character is counted as a gap, and the three readers treat every byte alike;
    (2) a letter and its other-case twin take the same branch (C14: case cannot change what is read)"""
    import string
    maps = {}
    for r in READERS:
        m, where = reader_byte_classes(prog, prog.fn(r))
        if m is None:
            raise AnalysisBroken("%s: %s" % (rule, where))
        maps[r] = (m, where)
        letters = {m[ord(c)] for c in string.ascii_letters}
        ck.inst(rule, site(prog, where, r), "%s: %d distinct treatments over 128 byte values; letters -> %s" % (
            r, len(set(m.values())), sorted(letters)[:2]), prog.config)
        for c in string.ascii_uppercase:
            if m[ord(c)] != m[ord(c.lower())]:
                ck.violation(rule, "%s/%s/case-%s" % (rule, r, c), site(prog, where, r),
                             "%s treats '%s' (%s) and '%s' (%s) differently: changing the case of a residue changes what is read" % (
                                 r, c, list(m[ord(c)]) or "ignored", c.lower(), list(m[ord(c.lower())]) or "ignored"), prog.config)
        if case_only:
            continue
        for c in string.ascii_letters:
            a = m[ord(c)]
            if not ({"seq[len]=char", "len++"} <= set(a)):
                ck.violation(rule, "%s/%s/letter-%s" % (rule, r, c), site(prog, where, r),
                             "%s does not append the letter '%s' (it does %s): residues are lost" % (r, c, list(a) or "nothing"), prog.config)
                break
        for b in range(33, 127):
            if chr(b) in string.punctuation and "gaps[len]++" not in maps[r][0][b]:
                ck.violation(rule, "%s/%s/punct-%d" % (rule, r, b), site(prog, where, r),
                             "%s does not count '%s' as a gap symbol (it does %s)" % (r, chr(b), list(m[b]) or "nothing"), prog.config)
                break
    if not case_only:
        ref = READERS[0]
        for r in READERS[1:]:
            diff = [b for b in range(128) if maps[r][0][b] != maps[ref][0][b]]
            if diff:
                b = diff[0]
                ck.violation(rule, "%s/%s/differs" % (rule, r), site(prog, maps[r][1], r),
                             "%s and %s treat %d byte value(s) differently, e.g. %r: %s vs %s" % (
                                 r, ref, len(diff), chr(b), list(maps[r][0][b]) or "ignored", list(maps[ref][0][b]) or "ignored"), prog.config)


def r04j(ck, prog, rule="R04j"):
    """read_msf reads a file in two phases, header lines up to the '//' divider and block lines after it: the block loop
    starts on the line after the divider (the divider is not read as a row of the first block, and no line is skipped)"""
    F = prog.fn("read_msf")
    loops = [l for l in F.body.find("ForStmt") if not any(a.k in ("ForStmt", "WhileStmt") for a in l.ancestors())]
    H = next((l for l in loops if any(b.k == "BreakStmt" and any("//" in (x.d.get("s") or "") for c, _ in guards(b, stop=l) for x in c.find("StringLiteral"))
                                      for b in l.find("BreakStmt"))), None)
    if H is None:
        raise AnalysisBroken("%s: header loop of read_msf (break on the '//' divider) not found" % rule)
    after = [l for l in loops if l.line > H.line]
    if not after:
        raise AnalysisBroken("%s: block loop of read_msf not found" % rule)
    B = after[0]
    hv = H.child("inc").strip().kids[0].strip() if H.child("inc") is not None else None
    if hv is None or hv.k != "DeclRefExpr":
        raise AnalysisBroken("%s: header loop variable not recognised" % rule)
    # offset of the block loop's first index relative to the divider's index k (= value of the header variable at the break)
    init = B.child("init")
    off = None
    how = ""
    if init is None:
        bv = B.child("inc").strip().kids[0].strip() if B.child("inc") is not None else None
        if bv is not None and bv.k == "DeclRefExpr" and bv.d["did"] == hv.d["did"]:
            off, how = 0, "continues with the header loop's variable"
    elif init.k == "BinaryOperator" and init.d["op"] == "=":
        r = init.kids[1].strip(casts=True)
        if r.k == "DeclRefExpr" and r.d["did"] == hv.d["did"]:
            off, how = 0, "starts at the header loop's variable"
        elif r.k == "BinaryOperator" and r.d["op"] == "+" and r.kids[0].strip(casts=True).k == "DeclRefExpr" \
                and r.kids[0].strip(casts=True).d["did"] == hv.d["did"] and r.kids[1].cv is not None:
            off, how = r.kids[1].cv, "starts at %s" % r.text()
        elif r.k == "DeclRefExpr" and r.d.get("dk") == "Var":
            # a counter: initialised to c0 before the header loop, incremented exactly once per iteration, before the divider test
            defs = local_defs(F, r.d["did"])
            inits = [d for d, nd in defs if d is not None and not nd.within(H)]
            incs = [nd for d, nd in defs if d is None and nd.within(H)]
            others = [nd for d, nd in defs if d is not None and nd.within(H)]
            brk = next(b for b in H.find("BreakStmt"))
            if len(inits) == 1 and const_value(inits[0]) is not None and len(incs) == 1 and not others and incs[0].k == "UnaryOperator" \
                    and incs[0].d["op"] == "++" and not guards(incs[0], stop=H) and incs[0].line < brk.line:
                hinit = H.child("init")
                h0 = const_value(hinit.kids[1]) if hinit is not None and hinit.k == "BinaryOperator" else None
                if h0 is not None:
                    off, how = const_value(inits[0]) + 1 - h0, "starts at the counter %s, which is the divider's index + %d there" % (r.d["name"], const_value(inits[0]) + 1 - h0)
    if off is None:
        raise AnalysisBroken("%s: where the block loop of read_msf starts relative to the divider line is not decided for this shape" % rule)
    where = site(prog, B, "block loop")
    ck.inst(rule, where, "read_msf: the block loop %s: first line read = divider + %d" % (how, off), prog.config)
    if off != 1:
        ck.violation(rule, "%s/read_msf/block-start" % rule, where,
                     "the block loop of read_msf %s, i.e. at the divider line %+d: %s" % (
                         how, off, "the '//' line itself is read as the first row of the first block, every row of a block that follows "
                         "'//' directly is attached to the next sequence" if off < 1 else "the first line(s) after '//' are skipped"), prog.config)


def r04a(ck, prog):
    sigs = {}
    for r in READERS:
        F = prog.fn(r)
        sig, where = reader_signature(prog, F)
        if len(sig) == 0:
            # the chain may live in a private helper the reader calls (static, same file)
            for c in F.body.calls():
                H = prog.functions.get(c.callee) if c.callee else None
                if H is not None and H.static and H.file == F.file:
                    hs, hw = reader_signature(prog, H)
                    if len(hs) == 1:
                        sig, where = hs, hw
                        break
        if len(sig) != 1:
            raise AnalysisBroken("R04a: expected exactly one classification chain in %s, found %d" % (r, len(sig)))
        sigs[r] = (sig[0], where)
        entry, hist = sig[0]
        ck.inst("R04a", site(prog, where, r), "%s: %s ; histogram on same char: %s" % (
            r, " | ".join("%s->{%s}" % ("+".join(p), ",".join(a)) for p, a, _ in entry), list(hist)), prog.config)
    ref_name = READERS[0]
    ref = sigs[ref_name][0]
    # which bytes take which branch is decided value by value in R04i (so isalpha(c) and ('A' <= c && c <= 'Z' || ...) are the
    # same thing); here the branches themselves are compared: what each does, in which order, on which character
    strip = lambda sg: (tuple((a, same) for p, a, same in sg[0]), sg[1])
    for r in READERS[1:]:
        if strip(sigs[r][0]) != strip(ref):
            a = sigs[r][0]
            ck.violation("R04a", "R04a/%s/differs" % r, site(prog, sigs[r][1], r),
                         "%s handles the classified characters differently from %s: %s  vs  %s" % (r, ref_name, a[0], ref[0]), prog.config)
    want_preds = [("isalpha",), ("ispunct",)]
    for r in READERS:
        entry, hist = sigs[r][0]
        preds = [p for p, a, same in entry if p != ("else",)]
        where = site(prog, sigs[r][1], r + " shape")
        if preds != want_preds:
            ck.info("R04a", "%s spells its tests as %s; the branch each byte takes is decided in R04i" % (r, preds))
            continue
        alpha = set(entry[0][1])
        punct = set(entry[1][1])
        need_alpha = {"seq[len]=char", "len++"}
        if not alpha:
            raise AnalysisBroken("R04a: what %s does with a letter is not visible in the branch or a private helper it calls; not decided" % r)
        if not need_alpha <= alpha or not any(x.startswith("grow-if(") and "alloc_len" in x and "len" in x for x in alpha):
            ck.violation("R04a", "R04a/%s/append" % r, where,
                         "%s: the letter branch does %s; it must append the tested character at seq[len], increment len "
                         "and test len against alloc_len" % (r, sorted(alpha)), prog.config)
        if "gaps[len]++" not in punct:
            ck.violation("R04a", "R04a/%s/gap" % r, where,
                         "%s: the punctuation branch does %s; it must count a gap before residue len (gaps[len]++)" % (r, sorted(punct)),
                         prog.config)
        if not all(same for _, _, same in entry) or list(hist) != [True]:
            ck.violation("R04a", "R04a/%s/char" % r, where,
                         "%s: the tests / the histogram do not all look at the same character" % r, prog.config)


def gap_loops(prog, F):
    """for-loops whose induction variable subscripts msa_seq.gaps"""
    out = []
    for loop in F.body.find("ForStmt"):
        ib = induction_bound(loop)
        if not ib:
            continue
        var, op, bound = ib
        hits = []
        for m in member_accesses(loop.child("body") or loop, "msa_seq", "gaps"):
            p, c = m.up()
            if p is not None and p.k == "ArraySubscriptExpr" and c.within(p.kids[0]):
                i0 = p.kids[1].strip(casts=True)
                if i0.k == "DeclRefExpr" and i0.d["did"] == var.d["did"]:
                    hits.append(p)
        if hits:
            out.append((loop, var, op, bound, hits))
    return out


def _capped_bound(F, loop):
    """text of the bound if the loop runs to min(<constant>, msa->numseq) - a fixed-size prefix of the sequences"""
    c = loop.child("cond")
    if c is None:
        return None
    c = c.strip(casts=True)
    if c.k != "BinaryOperator" or c.d["op"] not in ("<", "<="):
        return None
    b = c.kids[1].strip(casts=True)
    if b.k == "DeclRefExpr" and b.d.get("dk") == "Var":
        defs = [d for d, _ in local_defs(F, b.d["did"]) if d is not None]
        if len(defs) != 1:
            return None
        b = defs[0].strip(casts=True)
    if b.k == "ConditionalOperator":
        parts = [b.child("then").strip(casts=True), b.child("else").strip(casts=True)]
        if any(p_.cv is not None for p_ in parts) and any("numseq" in p_.text() for p_ in parts):
            return "min(%s)" % ", ".join(p_.text() for p_ in parts)
    return None


def r04b(ck, prog):
    n = 0
    # (1) span of every loop over gaps
    for F in prog.lib_functions():
        subst = None
        for loop, var, op, bound, hits in gap_loops(prog, F):
            b0 = bound.strip(casts=True)
            uses_len = any(m.d.get("field") == "len" and m.d.get("rec") == "msa_seq" for m in bound.find("MemberExpr"))
            if not uses_len:
                if subst is None:
                    subst = single_defs(F)
                l = lin(bound, subst)
                uses_len = l is not None and any(a.endswith("->len") for a in l.t)
                if not uses_len:
                    continue
            n += 1
            where = site(prog, loop, "gaps loop")
            ck.inst("R04b", where, "%s: for(%s %s %s) over %s" % (F.name, var.text(), op, bound.text(), hits[0].text()), prog.config)
            if op == "<":
                # the trailing slot gaps[len] must be handled explicitly in the same function
                explicit = False
                for m in member_accesses(F.body, "msa_seq", "gaps"):
                    p, c = m.up()
                    if p is not None and p.k == "ArraySubscriptExpr" and c.within(p.kids[0]):
                        it = p.kids[1].strip(casts=True)
                        if it.k == "MemberExpr" and it.d.get("field") in ("len", "alloc_len"):
                            explicit = True
                if not explicit:
                    ck.violation("R04b", "R04b/%s/gap-span" % F.name, where,
                                 "%s walks gaps[0..len) and never touches gaps[len]: gap symbols after the last residue "
                                 "(trailing gaps, '*' terminators) are invisible to it, while the other loops over gaps "
                                 "include slot len" % F.name, prog.config)
    # (2) who assigns UNALIGNED
    for F in prog.all_functions:
        if "/tests/" in F.file:
            continue
        for a, lhs, rhs in stores_to_field(F.body, "msa", "aligned"):
            if macro_of_const(rhs.strip(casts=True)) != "ALN_STATUS_UNALIGNED":
                continue
            n += 1
            where = site(prog, a, "aligned=UNALIGNED")
            ck.inst("R04b", where, "%s assigns ALN_STATUS_UNALIGNED" % F.name, prog.config)
            if F.name == "dealign_msa":
                from ..util import expand_aliases
                from ..affine import loop_range as _lr, single_defs as _sd
                loop_range, subst = _lr, _sd(F)
                ok = False
                recognised = False
                for z in F.body.find("BinaryOperator"):
                    if z.d["op"] != "=" or const_value(z.kids[1]) != 0 or z.kids[0].strip().k != "ArraySubscriptExpr":
                        continue
                    base = expand_aliases(F, z.kids[0].strip().kids[0])
                    if not base.endswith("->gaps"):
                        continue
                    owner = base[:-len("->gaps")]
                    loops = [x for x in z.ancestors() if x.k in ("ForStmt", "WhileStmt")]
                    if len(loops) < 2:
                        continue
                    ri, ro = loop_range(loops[0], subst), loop_range(loops[1], subst)
                    if ri is None or ro is None:
                        continue
                    recognised = True
                    idx = z.kids[0].strip().kids[1].strip(casts=True).text()
                    def same_len(t):
                        """is the text t (an atom of the bound) the len of the record whose gaps are zeroed?"""
                        if t == owner + "->len":
                            return True
                        for m in F.body.find("MemberExpr"):
                            if m.d.get("field") == "len" and m.text() == t and expand_aliases(F, m) == owner + "->len":
                                return True
                        return False
                    inner_full = idx == ri[0] and ri[1].is_const() and ri[1].c == 0 and ri[2].c == 1 and len(ri[2].t) == 1 and \
                        list(ri[2].t.values()) == [1] and same_len(list(ri[2].t)[0])
                    outer_full = ro[1].is_const() and ro[1].c == 0 and ro[2].c == 0 and list(ro[2].t.items()) == [("msa->numseq", 1)] and \
                        ("sequences[%s]" % ro[0]) in owner
                    unguarded = not [c for c, p_ in guards(z, stop=loops[1]) if c.parent.k not in ("ForStmt", "WhileStmt")]
                    if inner_full and outer_full and unguarded:
                        pa, pl = F.cfg.position(a), F.cfg.position(loops[1].child("cond"))
                        if F.cfg.dominates(pl, pa) and not a.within(loops[1]):
                            ok = True
                if not ok:
                    # the per-sequence clearing may live in a private helper: clear_gaps(msa->sequences[i]) inside the loop over all
                    # numseq sequences, the helper zeroing gaps[0..len] of its parameter unconditionally
                    for c in F.body.calls():
                        H = prog.fn(prog.resolve(c.callee, F.file), required=False) if c.callee else None
                        if H is None or H.body is None or not (H.static and H.file == F.file) or not c.args:
                            continue
                        hsub = _sd(H)
                        for z in H.body.find("BinaryOperator"):
                            if z.d["op"] != "=" or const_value(z.kids[1]) != 0 or z.kids[0].strip().k != "ArraySubscriptExpr":
                                continue
                            b_ = z.kids[0].strip().kids[0].strip(casts=True)
                            if not (b_.k == "MemberExpr" and b_.d.get("field") == "gaps" and b_.kids and b_.kids[0].strip(casts=True).k == "DeclRefExpr"
                                    and b_.kids[0].strip(casts=True).d.get("dk") == "Parm"):
                                continue
                            pname = b_.kids[0].strip(casts=True).d["name"]
                            hl = [x for x in z.ancestors() if x.k in ("ForStmt", "WhileStmt")]
                            ri = loop_range(hl[0], hsub) if len(hl) == 1 else None
                            if ri is None:
                                continue
                            recognised = True
                            idx = z.kids[0].strip().kids[1].strip(casts=True).text()
                            inner_full = idx == ri[0] and ri[1].is_const() and ri[1].c == 0 and ri[2].c == 1 and list(ri[2].t.items()) == [(pname + "->len", 1)]
                            plain = not [g_ for g_, p_ in guards(z) if g_.parent.k not in ("ForStmt", "WhileStmt")]
                            pidx = H.param_index(pname)
                            arg = expand_aliases(F, c.args[pidx]) if pidx is not None and pidx < len(c.args) else ""
                            ol = [x for x in c.ancestors() if x.k in ("ForStmt", "WhileStmt")]
                            ro = loop_range(ol[0], subst) if ol else None
                            outer_full = ro is not None and ro[1].is_const() and ro[1].c == 0 and ro[2].c == 0 and \
                                list(ro[2].t.items()) == [("msa->numseq", 1)] and ("sequences[%s]" % ro[0]) in arg
                            unguarded = bool(ol) and not [g_ for g_, p_ in guards(c, stop=ol[0]) if g_.parent.k not in ("ForStmt", "WhileStmt")]
                            if inner_full and plain and outer_full and unguarded:
                                pa, pl = F.cfg.position(a), F.cfg.position(ol[0].child("cond"))
                                if F.cfg.dominates(pl, pa) and not a.within(ol[0]):
                                    ok = True
                if not ok and not recognised:
                    raise AnalysisBroken("R04b: the loop nest of dealign_msa that zeroes the gap counts is not in a recognised counting form")
                if not ok:
                    ck.violation("R04b", "R04b/dealign_msa/zeroing", where,
                                 "dealign_msa marks the msa unaligned without an unconditional loop zeroing gaps[0..len] "
                                 "of all numseq sequences before it", prog.config)
            elif F.name == "detect_aligned":
                # must sit where the gap total over ALL sequences and ALL slots is zero
                gs = guards(a)
                tot = None
                for c, pol in gs:
                    c0 = c.strip()
                    if c0.k == "DeclRefExpr" and not pol:
                        tot = c0
                if tot is None:
                    ck.violation("R04b", "R04b/detect_aligned/guard", where,
                                 "ALN_STATUS_UNALIGNED is not assigned on the 'no gap symbol seen' branch", prog.config)
                    continue
                subst = single_defs(F)
                from ..affine import loop_range as _lr2
                ok = False
                undecided = None
                seen_total = False
                for acc in list(F.body.find("CompoundAssignOperator")):
                    if acc.d["op"] != "+=" or not any(m_.d.get("field") == "gaps" and m_.d.get("rec") == "msa_seq" for m_ in acc.kids[1].find("MemberExpr")):
                        continue
                    loops = [x for x in acc.ancestors() if x.k in ("ForStmt", "WhileStmt")]
                    if len(loops) < 2:
                        continue
                    seen_total = True
                    ri, ro = _lr2(loops[0], subst), _lr2(loops[1], subst)
                    ck.inst("R04b", site(prog, loops[0], "gap total"), "detect_aligned totals gaps over sequences %s, slots %s" % (
                        "[%s, %s)" % (ro[1], ro[2]) if ro else "?", "[%s, %s)" % (ri[1], ri[2]) if ri else "?"), prog.config)
                    if _capped_bound(F, loops[1]):
                        ck.violation("R04b", "R04b/detect_aligned/coverage", where,
                                     "the gap total that decides 'unaligned' runs over the first %s sequences only: gaps in the "
                                     "others survive because kalign_run skips dealign_msa" % _capped_bound(F, loops[1]), prog.config)
                        ok = True           # reported; do not add the generic message
                        continue
                    if ri is None or ro is None:
                        undecided = "a loop of the gap total in detect_aligned is not a recognised counting loop"
                        continue
                    covers_all = ro[1].is_const() and ro[1].c == 0 and ro[2].c == 0 and list(ro[2].t.items()) == [("msa->numseq", 1)]
                    covers_slots = ri[1].is_const() and ri[1].c == 0 and ri[2].c == 1 and len(ri[2].t) == 1 and \
                        list(ri[2].t.values()) == [1] and list(ri[2].t)[0].endswith("->len")
                    if covers_all and covers_slots:
                        ok = True
                    elif not (ro[1].is_const() and set(ro[2].t) <= {"msa->numseq"} and ri[1].is_const() and
                              all(k_.endswith("->len") for k_ in ri[2].t)):
                        undecided = "the range of the gap total in detect_aligned is not comparable with all sequences x all slots"
                if not ok and (undecided or not seen_total):
                    raise AnalysisBroken("R04b: %s" % (undecided or "the gap total of detect_aligned was not found"))
                if not ok:
                    ck.violation("R04b", "R04b/detect_aligned/coverage", where,
                                 "the gap total that decides 'unaligned' does not cover every slot 0..len of every one of the "
                                 "numseq sequences: gaps in the uncovered part survive because kalign_run skips dealign_msa", prog.config)
            else:
                ck.violation("R04b", "R04b/%s/unaligned-assign" % F.name, where,
                             "%s declares an msa unaligned; only dealign_msa (after zeroing) and detect_aligned (gap total zero) may" % F.name,
                             prog.config)
    # (3) nothing before the merge phase reads gaps
    cg = CallGraph(prog)
    from ..lift import Lifted
    K = prog.fn("kalign_run")
    L = Lifted(prog, cg)
    pre = set()
    found = L.find_call(K, "create_msa_tree")
    if not found:
        raise AnalysisBroken("R04b slot: create_msa_tree is not called from kalign_run or its private helpers")
    for G, t in found:
        cfg = G.cfg
        for c in G.body.calls():
            if c.callee in cg.defined and c.callee != "create_msa_tree" and cfg.reaches(cfg.position(c), cfg.position(t)):
                pre.add(c.callee)
        if G is not K:
            cfgk = K.cfg
            hs = L.sites(K, "create_msa_tree", "may")
            for c in K.body.calls():
                if c.callee in cg.defined and c not in hs and any(cfgk.reaches(cfgk.position(c), cfgk.position(h)) for h in hs):
                    pre.add(c.callee)
    reach = cg.reachable(pre)
    for name in sorted(reach):
        F = cg.defined.get(name)
        if F is None or name == "dealign_msa":
            continue
        for m in member_accesses(F.body, "msa_seq", "gaps"):
            # writing zero into a gap count reads nothing (a clearing helper of dealign_msa)
            pm, cm = m.up(casts=True)
            if pm is not None and pm.k == "ArraySubscriptExpr" and cm.within(pm.kids[0]):
                qa, qc = pm.up(casts=True)
                if qa is not None and qa.k == "BinaryOperator" and qa.d["op"] == "=" and (qc is qa.kids[0] or qc.within(qa.kids[0])) and const_value(qa.kids[1]) == 0:
                    continue
            n += 1
            ck.violation("R04b", "R04b/%s/reads-gaps" % name, site(prog, m),
                         "%s (reachable from kalign_run before create_msa_tree) touches msa_seq.gaps: input gaps could "
                         "influence the guide tree" % name, prog.config)
    ck.inst("R04b", "call graph", "%d functions reachable from kalign_run before create_msa_tree; none but dealign_msa touches gaps" % len(reach), prog.config)
    ck.floor("R04b", n, 5, "gap loops / status assignments")


def r04c(ck, prog):
    F = prog.fn("kalign_read_input")
    outp = None
    for p in F.params:
        if p["ty"].replace(" ", "") == "structmsa**":
            outp = p
    if outp is None:
        raise AnalysisBroken("R04c slot: kalign_read_input has no struct msa** parameter")
    n = 0
    for a in F.body.find("BinaryOperator"):
        if a.d["op"] != "=":
            continue
        l = a.kids[0].strip()
        if not (l.k == "UnaryOperator" and l.d["op"] == "*" and l.kids[0].strip().k == "DeclRefExpr" and
                l.kids[0].strip().d["did"] == outp["did"]):
            continue
        n += 1
        rhs = a.kids[1]
        where = site(prog, a, "*%s=" % outp["name"])
        ck.inst("R04c", where, "kalign_read_input stores %s into the accumulator" % rhs.text(), prog.config)
        r0 = rhs.strip(casts=True)
        if "NULL" in rhs.mac or "NULL" in r0.mac or r0.cv == 0:
            ck.violation("R04c", "R04c/kalign_read_input/reset", where,
                         "the accumulator *%s is reset to NULL: sequences read from earlier files are dropped (and leaked) "
                         "when a later file is empty or unrecognised" % outp["name"], prog.config)
            continue
        ok = False
        for c, pol in guards(a):
            t = c.strip()
            if t.k == "BinaryOperator" and t.d["op"] in ("!=", "==") and ("*%s" % outp["name"]) in t.text():
                ok = (t.d["op"] == "!=" and not pol) or (t.d["op"] == "==" and pol)
            if t.k == "UnaryOperator" and t.d["op"] == "!" and ("*%s" % outp["name"]) in t.text():
                ok = pol
        if not ok:
            ck.violation("R04c", "R04c/kalign_read_input/overwrite", where,
                         "*%s is overwritten without testing that it is NULL: an earlier file's sequences are lost" % outp["name"],
                         prog.config)
    merges = list(F.body.calls("merge_msa"))
    ck.inst("R04c", site(prog, F, "merge"), "kalign_read_input calls merge_msa %d time(s)" % len(merges), prog.config)
    if not merges:
        ck.violation("R04c", "R04c/kalign_read_input/merge-missing", site(prog, F),
                     "kalign_read_input never merges into an existing msa", prog.config)
    for m in merges:
        ok = False
        for c, pol in guards(m):
            t = c.strip()
            if t.k == "BinaryOperator" and ("*%s" % outp["name"]) in t.text():
                ok = (t.d["op"] == "!=" and pol) or (t.d["op"] == "==" and not pol)
        if not ok:
            ck.violation("R04c", "R04c/kalign_read_input/merge-guard", site(prog, m),
                         "merge_msa is not called exactly when an msa already exists", prog.config)
    M = prog.fn("merge_msa")
    cfg = M.cfg
    succ = [cfg.position(r) for r in M.success_returns()]
    for need in ("detect_alphabet", "detect_aligned", "set_sip_nsip"):
        calls = [cfg.position(c) for c in M.body.calls(need)]
        n += 1
        ck.inst("R04c", site(prog, M, need), "merge_msa recomputes via %s on every success path" % need, prog.config)
        if not calls or M.succeeds_avoiding(calls):
            ck.violation("R04c", "R04c/merge_msa/%s" % need, site(prog, M),
                         "merge_msa can succeed without %s: the merged msa keeps the kind/status/profile tables of the first file" % need,
                         prog.config)
    # the recomputation looks at the merged set: no store that moves a record into the accumulated msa (sequences[...] = ...,
    # numseq = ... / numseq++) is still to come when detect_aligned / set_sip_nsip run
    appends = [a for a in M.body.walk() if ((a.k == "BinaryOperator" and a.d["op"] == "=") or a.k == "CompoundAssignOperator" or
                                             (a.k == "UnaryOperator" and a.d["op"] in ("++", "--"))) and
               any(m_.k == "MemberExpr" and m_.d.get("rec") == "msa" and m_.d.get("field") in ("sequences", "numseq") for m_ in a.kids[0].walk())]
    for need in ("detect_aligned", "set_sip_nsip"):
        for c in M.body.calls(need):
            cp = cfg.position(c)
            late = [a for a in appends if cfg.position(a) is not None and cp is not None and cfg.reaches(cp, cfg.position(a))]
            n += 1
            ck.inst("R04c", site(prog, c, need), "merge_msa runs %s %s the records of the new file have been appended" % (need, "BEFORE" if late else "after"), prog.config)
            if late:
                ck.violation("R04c", "R04c/merge_msa/%s-early" % need, site(prog, c),
                             "merge_msa runs %s and appends records afterwards (%s): the status / tables are computed for the records of the "
                             "earlier files only - gaps in the file just read are not seen and survive into the alignment" % (
                                 need, late[0].text()[:40]), prog.config)
    # histogram merge is additive
    mfns = [M] + [H for H in (prog.fn(prog.resolve(c_.callee, M.file), required=False) for c_ in M.body.calls() if c_.callee)
                  if H is not None and H.body is not None and H.static and H.file == M.file]
    hist = [x for G_ in mfns for x in G_.body.find("CompoundAssignOperator") if "letter_freq" in x.kids[0].text()]
    if not any(x.d["op"] == "+=" and "letter_freq" in x.kids[1].text() for x in hist):
        ck.violation("R04c", "R04c/merge_msa/histogram", site(prog, M),
                     "merge_msa does not add the new file's letter histogram to the accumulated one", prog.config)
    ck.floor("R04c", n, 4, "accumulation sites")


def r04g(ck, prog):
    """no reader parses by absolute line position: a loop over the input lines whose body ends in an unconditional
    break runs exactly once, i.e. it treats 'line 0' specially - leading blank lines then shift the whole file"""
    n = 0
    for name in READERS + ("detect_alignment_format", "kalign_read_input"):
        F = prog.fn(name)
        for lp in F.body.find("ForStmt", "WhileStmt"):
            body = lp.child("body")
            if body is None or body.k != "CompoundStmt":
                continue
            uses_lines = any(m.d.get("field") in ("l", "n_lines") and m.d.get("rec") == "in_buffer" for m in lp.find("MemberExpr"))
            if not uses_lines:
                continue
            n += 1
            uncond = [x for x in body.kids if x.k == "BreakStmt"]
            where = site(prog, lp, "%s line loop" % name)
            ck.inst("R04g", where, "%s: loop over input lines; unconditional break in body: %s" % (name, bool(uncond)), prog.config)
            if uncond:
                ck.violation("R04g", "R04g/%s/first-line" % name, where,
                             "%s takes exactly the first line of the input as special (the loop body always breaks): a blank line "
                             "before it shifts the parse and the real header is read as data" % name, prog.config)
    ck.floor("R04g", n, 5, "loops over input lines")


def r04h(ck, prog):
    """any line width: read_file_stdin obtains whole physical lines (getline) and keeps every byte getline returned up
    to the first control character; a fixed-size fgets/fread buffer or a copy loop that stops short drops data"""
    from ..affine import loop_range, single_defs, lin
    F = prog.fn("read_file_stdin")
    gl = list(F.body.calls("getline", "getdelim"))
    fixed = list(F.body.calls("fgets", "fread", "fscanf"))
    where = site(prog, gl[0] if gl else F, "line acquisition")
    ck.inst("R04h", where, "read_file_stdin reads lines with %s" % ([c.callee for c in gl + fixed]), prog.config)
    for c in fixed:
        ck.violation("R04h", "R04h/read_file_stdin/%s" % c.callee, site(prog, c),
                     "read_file_stdin reads input with %s into a buffer of fixed size (%s): a longer line is split into several "
                     "buffer lines, and block rows wider than the buffer are mis-parsed" % (c.callee, c.args[1].text() if len(c.args) > 1 else "?"),
                     prog.config)
    if not gl:
        if not fixed:
            raise AnalysisBroken("R04h slot: read_file_stdin uses neither getline nor fgets")
        return
    g = gl[0]
    # the variable that receives getline's result
    p, c = g.up(casts=True)
    res = p.kids[0].strip() if p is not None and p.k == "BinaryOperator" and p.d["op"] == "=" else None
    if res is None:
        raise AnalysisBroken("R04h slot: result of getline is not stored")
    subst = single_defs(F)
    found = False
    for lp in F.body.find("ForStmt"):
        rng = loop_range(lp, subst)
        if rng is None:
            continue
        # the copy loop: stores into a freshly allocated buffer from the getline buffer
        stores = [a for a in lp.find("BinaryOperator") if a.d["op"] == "=" and a.kids[0].strip().k == "ArraySubscriptExpr" and
                  a.kids[1].strip(casts=True).k == "ArraySubscriptExpr"]
        if not stores:
            continue
        found = True
        lo, hi = rng[1], rng[2]
        diff = hi.add(lin(res), -1) if lin(res) is not None else None
        ck.inst("R04h", site(prog, lp, "copy loop"), "copies bytes [%s, %s) of the %s bytes getline returned" % (lo, hi, res.text()), prog.config)
        if not (lo.is_const() and lo.c == 0):
            ck.violation("R04h", "R04h/read_file_stdin/copy-start", site(prog, lp), "the line copy starts at %s" % lo, prog.config)
        if diff is None or not diff.is_const():
            raise AnalysisBroken("R04h: the bound of the line copy loop (%s) is not comparable with getline's result" % hi)
        if diff.c < 0:
            ck.violation("R04h", "R04h/read_file_stdin/copy-short", site(prog, lp),
                         "the line copy stops %d byte(s) before the end of what getline returned: a last line without a newline loses "
                         "its final character(s) (the newline itself is already excluded by the control-character test)" % -diff.c, prog.config)
    if not found:
        raise AnalysisBroken("R04h slot: line copy loop not found in read_file_stdin")


def _ev_count(n, val):
    """value of an integer / boolean expression in which every msa.numseq reads as val; None if anything else is read"""
    x = n.strip(casts=True)
    if x.cv is not None and x.k != "DeclRefExpr":
        return x.cv
    if x.k == "MemberExpr" and x.d.get("field") == "numseq" and x.d.get("rec") == "msa":
        return val
    if x.k == "DeclRefExpr" and (x.ty or "").replace("const ", "").startswith("struct msa *"):
        return 1                              # the msa exists (it holds val records)
    if x.k == "UnaryOperator" and x.d["op"] in ("!", "-"):
        v = _ev_count(x.kids[0], val)
        return None if v is None else (int(not v) if x.d["op"] == "!" else -v)
    if x.k == "BinaryOperator":
        op = x.d["op"]
        a, b = _ev_count(x.kids[0], val), _ev_count(x.kids[1], val)
        if op == "&&":
            return 0 if (a == 0 or b == 0) else (1 if a is not None and b is not None else None)
        if op == "||":
            return 1 if (a or b) else (0 if a is not None and b is not None else None)
        if a is None or b is None:
            return None
        return {"<": a < b, ">": a > b, "<=": a <= b, ">=": a >= b, "==": a == b, "!=": a != b,
                "+": a + b, "-": a - b, "*": a * b}.get(op, None) if op in ("<", ">", "<=", ">=", "==", "!=", "+", "-", "*") else None
    return None


def r04l(ck, prog):
    """how many records there are is judged once, after all input files have been merged (kalign_essential_input_check in
    kalign_run): kalign_read_input, which runs once per file on the accumulated msa, has no failure exit that is taken when
    exactly one record has been read so far - otherwise {s1} + {s2, s3} is rejected while {s1, s2} + {s3} is accepted"""
    K = prog.fn("kalign_read_input")
    fns = [K]
    for c in K.body.calls():
        H = prog.fn(prog.resolve(c.callee, K.file), required=False) if c.callee else None
        if H is not None and H.body is not None and "/lib/" in H.file and H not in fns and \
                any((p_["ty"] or "").replace("const ", "").startswith("struct msa *") for p_ in H.params) and H.name not in ("read_fasta", "read_msf", "read_clu"):
            fns.append(H)
    n = 0
    for F in fns:
        exits = [g for g in F.body.find("GotoStmt")] + [r for r in F.body.find("ReturnStmt") if r not in F.success_returns()]
        for e in exits:
            gs = [(c, pol) for c, pol in guards(e) if c.parent is not None and c.parent.k == "IfStmt" and
                  any(m.k == "MemberExpr" and m.d.get("field") == "numseq" and m.d.get("rec") == "msa" for m in c.walk())]
            # a test of the count alone (numseq against constants): anything else (i < numseq in a loop, numseq == alloc_numseq)
            # is bookkeeping, not a judgement of how many records there are
            gs = [(c, pol) for c, pol in gs if _ev_count(c, 1) is not None]
            if not gs:
                continue
            n += 1
            where = site(prog, e, "exit")
            vals = []
            for c, pol in gs:
                v = _ev_count(c, 1)
                vals.append(None if v is None else (bool(v) == pol))
            ck.inst("R04l", where, "%s: failure exit under %s; taken with one record so far: %s" % (
                F.name, " and ".join(("" if pol else "not ") + c.text()[:30] for c, pol in gs), vals), prog.config)
            if all(v is True for v in vals):
                ck.violation("R04l", "R04l/%s/one-record" % F.name, where,
                             "%s fails when the records read so far number exactly one (%s); it runs after every input file, so a first "
                             "file holding a single sequence is rejected although more files follow - the same records in one file, or "
                             "split otherwise, are accepted" % (F.name, " and ".join(("" if pol else "not ") + c.text()[:30] for c, pol in gs)),
                             prog.config)
            elif any(v is None for v in vals):
                raise AnalysisBroken("R04l: a failure exit of %s depends on the record count in a way that is not understood" % F.name)
    E = prog.fn("kalign_essential_input_check")
    if not any(_ev_count(c, 1) is not None for i in E.body.find("IfStmt") for c in [i.child("cond")]):
        raise AnalysisBroken("R04l slot: the test of the record count in kalign_essential_input_check was not found")
    ck.floor("R04l", n, 1, "count-dependent failure exits on the per-file path")


def run(ck, progs):
    describe(ck)
    ck.rule("R04m", "no reader identifies the record a block row belongs to by a prefix comparison of names (= R06c): which record a row goes to must not depend on the presentation")
    ck.rule("R04l", "no failure exit of kalign_read_input (run once per input file) is taken for exactly one record read so far; the count is judged after the merge")
    ck.rule("R04k", "input positions are numbered once, over the merged set of records (= R01b): msa_seq.rank is assigned a position only by the input check that runs after all files are read, so records split over several files keep one numbering")
    ck.rule("R04h", "read_file_stdin reads whole physical lines (no fixed-size line buffer) and keeps all bytes up to the first control character")
    ck.rule("R04g", "no reader treats an absolute line number as special: loops over the input lines never break unconditionally")
    for cfg, prog in progs.items():
        ck.attempt(r04a, ck, prog)
        ck.attempt(r04i, ck, prog)
        ck.attempt(r04j, ck, prog)
        ck.attempt(r04b, ck, prog)
        from . import c01
        ck.attempt(c01.dealign_rule, ck, prog, "R04b")
        ck.attempt(r04c, ck, prog)
        ck.attempt(r04g, ck, prog)
        ck.attempt(r04h, ck, prog)
        ck.borrow(c01.r01b, prog, "R04k", ("R01b",))
        ck.attempt(r04l, ck, prog)
        from . import c06
        ck.borrow(c06.r06c, prog, "R04m", ("R06c",))
    return ("Sibling cross-check of the three readers' classification chains (predicate, actions, histogram, same "
            "character); span of every loop over msa_seq.gaps and coverage of the totals deciding the alignment status; "
            "who assigns ALN_STATUS_UNALIGNED; who touches gaps before the merge phase; stores into kalign_read_input's "
            "accumulator and merge_msa's must-call set.")
