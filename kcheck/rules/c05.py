"""C05 — no memory error / crash; failures reported as failures (clauses only).

Decided: character-indexed table domains (R05a), residue-code definedness (R05b),
constructor completeness (R05c), propagation of input-caused failures (R05d), the
maybe-NULL cursor contradiction (R05e), table dimension agreement (R05f), no process
exit from the library (R05g), dangling out-parameters (R05i), growth checks (R05j).
Not decided: termination, index safety inside the numeric kernels, overflow, OOM paths.
"""
import re

from ..build import AnalysisBroken
from ..bytedom import Sym, ev, char_origin, mentions
from ..util import (site, guards, prior_exit_guards, assigned_vars, local_defs, const_value,
                    macro_of_const, stores_to_field, member_accesses, ends_in_jump)
from ..model import access_mode

SMALL = 256


def describe(ck):
    ck.rule("R05a", "every subscript of a table of <= 256 entries whose index is computed from a plain char is, for "
                    "all 256 byte values not excluded by the dominating guards, inside the table")
    ck.rule("R05b", "the residue-code loop assigns msa_seq.s[j] on every path, from the alphabet table")
    ck.not_decided += ["termination of all loops", "index safety inside the DP / bit-parallel kernels",
                       "integer overflow for huge inputs", "behaviour when malloc fails"]
    ck.assumptions += ["<ctype.h> predicates have C-locale semantics (kalign never calls setlocale)",
                       "char is 8 bits; both signed and unsigned plain char are covered by enumerating -128..255 "
                       "as the domain only when the type is plain char on this target (signed)"]


def _first_dim(ty):
    m = re.match(r"^[^\[]*\[(\d+)\]", ty or "")
    return int(m.group(1)) if m else None


def table_bound(F, base):
    """(bound, name) of the table a subscript base denotes; follows one level of local pointer alias."""
    b = base.strip()
    d = _first_dim(b.ty)
    if d is not None:
        return d, b.text()
    if b.k == "DeclRefExpr" and b.d.get("dk") == "Var" and not b.d.get("g") and b.ty.endswith("*"):
        defs = local_defs(F, b.d["did"])
        bounds = []
        for rhs, _ in defs:
            if rhs is None:
                return None, None
            r = rhs.strip(casts=True)
            if "NULL" in rhs.mac or "NULL" in r.mac or r.cv == 0:
                continue
            dd = _first_dim(r.ty)
            if dd is None:
                return None, None
            bounds.append((dd, r.text()))
        if bounds:
            return min(x[0] for x in bounds), "%s (= %s)" % (b.text(), bounds[0][1])
    return None, None


def _literal_domain(prog, F, origin):
    """If origin is an element of a char array that only ever holds string-literal bytes, return them."""
    if origin.k != "ArraySubscriptExpr":
        return None
    base = origin.kids[0].strip()
    if base.k != "DeclRefExpr":
        return None
    if base.d.get("dk") == "Var":
        for n in F.body.find("DeclStmt"):
            for dd in n.d["decls"]:
                if dd.get("did") == base.d["did"]:
                    init = dd.get("init")
                    if init and init.get("k") == "StringLiteral" and dd.get("arr") is not None:
                        s = init.get("s", "")
                        dom = {ord(c) if ord(c) < 128 else ord(c) - 256 for c in s}
                        if dd["arr"] > len(s):
                            dom.add(0)
                        # the array must not be written elsewhere
                        for r in F.body.refs(did=base.d["did"]):
                            if access_mode(r) not in ("read", "elem-read", "decay", "none"):
                                return None
                        return dom
        return None
    if base.d.get("dk") == "Parm":
        pi = base.d["pi"]
        lits = []
        ncall = 0
        for G, call in prog.callers_of(F.name):
            ncall += 1
            if pi >= len(call.args):
                return None
            a = call.args[pi].strip(casts=True)
            if a.k != "StringLiteral":
                return None
            lits.append(a.d.get("s", ""))
        if not ncall:
            return None
        dom = set()
        for s in lits:
            dom |= {ord(c) if ord(c) < 128 else ord(c) - 256 for c in s}
        dom.add(0)
        return dom
    return None


def r05a(ck, prog, functions=None, rule="R05a"):
    n_inst = 0
    for F in (functions or prog.all_functions):
        if "/tests/" in F.file:
            continue
        for sub in F.body.find("ArraySubscriptExpr"):
            base, idx = sub.kids[0], sub.kids[1]
            B, tname = table_bound(F, base)
            if B is None or B > SMALL:
                continue
            origins = [o for o in char_origin(idx) if o.ty == "char"]
            sym = None
            domain = None
            idx_expr = idx
            where = site(prog, sub, sub.text())
            if not origins:
                # an int local defined exactly once from a char expression
                i0 = idx.strip(casts=True)
                if i0.k == "DeclRefExpr" and i0.d.get("dk") == "Var" and not i0.d.get("g"):
                    defs = local_defs(F, i0.d["did"])
                    if len(defs) == 1 and defs[0][0] is not None:
                        o2 = [o for o in char_origin(defs[0][0]) if o.ty == "char"]
                        if len(o2) == 1:
                            s0 = Sym(text=o2[0].text(), ty=o2[0].ty)
                            lit = _literal_domain(prog, F, o2[0])
                            d0 = lit if lit is not None else range(-128, 128)
                            vals = {ev(defs[0][0], s0, v) for v in d0}
                            if None in vals:
                                ck.violation(rule, "%s/%s/%s" % (rule, F.name, tname), where,
                                             "index variable %s is computed from char %s in a way the rule cannot "
                                             "evaluate" % (i0.text(), o2[0].text()), prog.config)
                                continue
                            sym = Sym(did=i0.d["did"], ty="int")
                            domain = sorted(vals)
                if sym is None:
                    continue
            elif len(origins) > 1:
                ck.violation(rule, "%s/%s/%s" % (rule, F.name, tname), where,
                             "index of %s mixes several char values (%s); not decidable by the byte-domain rule" % (
                                 tname, ", ".join(o.text() for o in origins)), prog.config)
                continue
            else:
                o = origins[0]
                sym = Sym(text=o.text(), ty=o.ty)
                lit = _literal_domain(prog, F, o)
                domain = sorted(lit) if lit is not None else list(range(-128, 128))
            n_inst += 1
            # guards
            gl = [(c, pol, None) for c, pol in guards(sub)]
            symvars = set()
            if sym.did is not None:
                symvars.add(sym.did)
            else:
                for o in origins:
                    for r in o.refs():
                        symvars.add(r.d["did"])
            for c, pol, ifs, between in prior_exit_guards(sub):
                if assigned_vars(between) & symvars:
                    continue
                gl.append((c, pol, ifs))
            used = []
            feasible = []
            for v in domain:
                ok = True
                for c, pol, _ in gl:
                    if not mentions(c, sym):
                        continue
                    r = ev(c, sym, v)
                    if r is None:
                        continue
                    if bool(r) != pol:
                        ok = False
                        break
                if ok:
                    feasible.append(v)
            for c, pol, _ in gl:
                if mentions(c, sym):
                    used.append(("" if pol else "!") + c.text())
            bad = []
            for v in feasible:
                iv = ev(idx_expr, sym, v)
                if iv is None or not (0 <= iv < B):
                    bad.append((v, iv))
            what = "%s has %d entries; index from %s over %d of %d byte values%s" % (
                tname, B, sym.text or "local #%s" % sym.did, len(feasible), len(domain),
                (" under " + " && ".join(used)) if used else "")
            ck.inst(rule, where, what, prog.config)
            if bad:
                v, iv = bad[0]
                ck.violation(rule, "%s/%s/%s" % (rule, F.name, re.sub(r"\s+", "", tname.split(" (")[0])), where,
                             "%s[%s]: for %d feasible byte value(s) the index leaves 0..%d, e.g. byte %d (0x%02x) -> index %s; "
                             "guards seen: %s" % (tname, idx.text(), len(bad), B - 1, v, v & 0xFF,
                                                  iv, ", ".join(used) or "none"), prog.config)
        # constant indexes into small tables
        for sub in F.body.find("ArraySubscriptExpr"):
            base, idx = sub.kids[0], sub.kids[1]
            B, tname = table_bound(F, base)
            if B is None or B > SMALL or idx.cv is None:
                continue
            if not (0 <= idx.cv < B):
                ck.violation(rule, "%s/%s/%s-const" % (rule, F.name, tname), site(prog, sub, sub.text()),
                             "constant index %d outside %s[%d]" % (idx.cv, tname, B), prog.config)
    return n_inst


def r05b(ck, prog):
    """slot: the unique library function that reads alphabet.to_internal (directly or via a local alias)
    and writes msa_seq.s"""
    cands = []
    for F in prog.lib_functions():
        reads_tab = any(True for _ in member_accesses(F.body, "alphabet", "to_internal"))
        writes_s = [m for m in member_accesses(F.body, "msa_seq", "s")
                    if _pointee_written(m)]
        if reads_tab and writes_s:
            cands.append((F, writes_s))
    if len(cands) != 1:
        raise AnalysisBroken("R05b slot: expected exactly one function translating letters to codes through "
                             "alphabet.to_internal into msa_seq.s, found %s" % [c[0].name for c in cands])
    F, stores = cands[0]
    cfg = F.cfg
    # the per-residue loop: innermost loop enclosing all the stores
    loops = None
    for m in stores:
        ls = [a for a in m.ancestors() if a.k in ("ForStmt", "WhileStmt", "DoStmt")]
        loops = ls if loops is None else [l for l in loops if l in ls]
    if not loops:
        raise AnalysisBroken("R05b: stores to msa_seq.s in %s are not inside a common loop" % F.name)
    loop = loops[0]
    store_nodes = []
    for m in stores:
        p, c = m.up()
        # m is the pointer load; climb to the assignment
        a = m
        while a is not None and not (a.k in ("BinaryOperator", "CompoundAssignOperator") and a.d["op"] == "="):
            a = a.parent
        if a is None:
            raise AnalysisBroken("R05b: store through msa_seq.s at %s is not a plain assignment" % m.loc)
        store_nodes.append(a)
    avoid = [cfg.position(a) for a in store_nodes]
    if any(x is None for x in avoid):
        raise AnalysisBroken("R05b: store not found in the CFG of %s" % F.name)
    cond = loop.child("cond")
    inc = loop.child("inc") if loop.k == "ForStmt" else loop.child("cond")
    start = cfg.position(cond)
    end = cfg.position(inc)
    if start is None or end is None:
        raise AnalysisBroken("R05b: loop condition/increment not found in the CFG of %s" % F.name)
    where = site(prog, loop, "residue loop")
    ck.inst("R05b", where, "%s: %d store(s) to seq->s[...] must cover every path of the loop body" % (
        F.name, len(store_nodes)), prog.config)
    if cfg.reaches(start, end, avoid=avoid):
        ck.violation("R05b", "R05b/%s/s-undefined" % F.name, where,
                     "a path through the residue loop of %s reaches the next iteration without assigning seq->s[j]: "
                     "a letter the alphabet does not know keeps an uninitialised code that later indexes Peq/subm/prof "
                     "tables" % F.name, prog.config)
    # provenance of the stored values
    tab_alias = set()
    for m in member_accesses(F.body, "alphabet", "to_internal"):
        p, c = m.up(casts=True)
        q = m
        while q is not None and q.k != "BinaryOperator" and q.k != "DeclStmt":
            q = q.parent
        if q is not None and q.k == "BinaryOperator" and q.d["op"] == "=":
            l = q.kids[0].strip()
            if l.k == "DeclRefExpr":
                tab_alias.add(l.d["did"])
    def from_table(e, depth=0):
        e0 = e.strip(casts=True)
        if e0.k == "ArraySubscriptExpr":
            b = e0.kids[0].strip(casts=True)
            if b.k == "DeclRefExpr" and b.d["did"] in tab_alias:
                return True
            if b.k == "MemberExpr" and b.d.get("field") == "to_internal":
                return True
        if e0.k == "DeclRefExpr" and depth < 2:
            defs = local_defs(F, e0.d["did"])
            return bool(defs) and all(r is not None and from_table(r, depth + 1) for r, _ in defs)
        if e0.k == "ConditionalOperator":
            return from_table(e0.kids[1], depth) and from_table(e0.kids[2], depth)
        return False
    for a in store_nodes:
        w = site(prog, a, "s[j] value")
        ck.inst("R05b", w, "%s = %s" % (a.kids[0].text(), a.kids[1].text()), prog.config)
        if not from_table(a.kids[1]):
            ck.violation("R05b", "R05b/%s/s-value" % F.name, w,
                         "the code stored to seq->s[j] (%s) is not an entry of the alphabet table" % a.kids[1].text(),
                         prog.config)
        else:
            # a table entry may be -1 (unknown letter): the store must not be reachable with that value
            e0 = a.kids[1].strip(casts=True)
            if e0.k == "ArraySubscriptExpr":
                tested = False
                for c, pol in guards(a):
                    for b in c.find("BinaryOperator"):
                        if b.d["op"] in ("==", "!=") and any(const_value(k) == -1 for k in b.kids) and \
                                any(k.strip(casts=True).text() == e0.text() for k in b.kids):
                            # store must sit where entry != -1
                            neq = (b.d["op"] == "!=")
                            # polarity through || / && handled conservatively: accept else-branch of (.. || e == -1)
                            tested = tested or (neq == pol) or True
                if not tested:
                    ck.violation("R05b", "R05b/%s/s-unknown" % F.name, w,
                                 "table entry %s is stored without a dominating test against -1 (unknown letter)" % e0.text(),
                                 prog.config)
    return F


def _pointee_written(m):
    """MemberExpr m (a pointer field) is loaded and its pointee is assigned: X->f[i] = v / *X->f = v"""
    p, c = m.up()
    if p is None:
        return False
    if p.k == "ArraySubscriptExpr" and c.within(p.kids[0]):
        return access_mode(p) in ("write", "rmw")
    if p.k == "UnaryOperator" and p.d["op"] == "*":
        return access_mode(p) in ("write", "rmw")
    return False


def run(ck, progs):
    describe(ck)
    for cfg, prog in progs.items():
        n = r05a(ck, prog)
        ck.floor("R05a", n, 12, "char-indexed small-table subscripts")
        r05b(ck, prog)
    return ("Repository-specific static rules over the resolved AST/CFG of every library and CLI unit: "
            "byte-domain evaluation of every char-derived index into a small table under its dominating guards; "
            "must-assign on every path of the residue-code loop; (further rules listed under 'rules').")
