"""C05 — no memory error / crash; failures reported as failures (clauses only).

Decided: character-indexed table domains (R05a), residue-code definedness (R05b),
constructor completeness (R05c), propagation of input-caused failures (R05d), the
maybe-NULL cursor contradiction (R05e), table dimension agreement (R05f), no process
exit from the library (R05g), dangling out-parameters (R05i), growth checks (R05j).
Not decided: termination, index safety inside the numeric kernels, overflow, OOM paths.
"""
import re

from ..build import AnalysisBroken
from ..bytedom import Sym, ev, char_origin, mentions, unq
from ..util import (site, guards, prior_exit_guards, assigned_vars, local_defs, const_value,
                    macro_of_const, stores_to_field, member_accesses, ends_in_jump)
from ..model import access_mode

SMALL = 256


def describe(ck):
    ck.rule("R05a", "every subscript of a table of <= 256 entries whose index is computed from a plain char is, for "
                    "all 256 byte values not excluded by the dominating guards, inside the table")
    ck.rule("R05b", "the residue-code loop assigns msa_seq.s[j] on every path, from the alphabet table")
    ck.rule("R05c", "every constructor sets every field of its struct that is read anywhere (or a verified later phase does, before any reader); sibling constructors agree; allocated character buffers are written")
    ck.rule("R05d", "every call whose callee can fail because of the input has its status consumed (RUN/RUNP/test/return); main returns EXIT_FAILURE after ERROR")
    ck.rule("R05e", "a local pointer that is NULL-tested somewhere is not dereferenced on a path from a NULL definition without assignment or test")
    ck.rule("R05g", "no path in the call graph from an API function to exit/abort")
    ck.rule("R05i", "a local pointer published through an out-parameter is not released afterwards on any path without reassignment")
    ck.rule("R05f", "the alphabets kalign_run selects (constructors evaluated at analysis time) have exactly id classes, all codes < the table sizes of the phase that uses them, and a code for the ambiguity letter")
    ck.rule("R05l", "heap buffers allocated in a function hold every index / copy length used on them in that function (affine comparison; decided only when the symbolic parts cancel)")
    ck.rule("R05m", "bpm_block clamps the pattern length to what its fixed-size block tables hold (cap <= blocks x 64), before any use, and Peq has SIGMA residue rows")
    ck.rule("R05n", "counted loops over the DP workspace buffers stay within the capacity resize_aln_mem guarantees for them (cross-function affine comparison)")
    ck.rule("R05o", "aln_param_init rejects an infinite gap penalty (a test that is true for +inf leads to the error exit) for each of gpo, gpe, tgpe")
    ck.rule("R05p", "an array that replaces msa->sequences receives no NULL slot: every record of the old array is carried over")
    ck.rule("R05r", "loops bounded by the length of an input line index that line, or a pointer at a known offset with the bound reduced by it, or test for the terminating NUL")
    ck.rule("R05s", "every function that (re)allocates msa_seq.gaps zeroes the counters up to exactly the allocated count")
    ck.rule("R05w", "a local buffer filled through a counter that one loop increments has room for the trip count (plus one for a terminator stored after the loop)")
    ck.rule("R05u", "fclose(f) without a test of f is reachable neither from the failure branch of the fopen test nor from the entry without an assignment to f")
    ck.rule("R05t", "a va_list is consumed by at most one callee between va_start/va_copy and va_end on every path")
    ck.rule("R05j", "loop-carried appends X->buf[X->count]; X->count++ test count against capacity before the next element access")
    ck.rule("R05k", "a local pointer that aliases storage owned by a struct field is not passed to a releaser while the owner still holds it")
    ck.not_decided += ["termination of all loops", "index safety inside the DP / bit-parallel kernels",
                       "integer overflow for huge inputs", "behaviour when malloc fails"]
    ck.assumptions += ["<ctype.h> predicates have C-locale semantics (kalign never calls setlocale)",
                       "char is 8 bits; both signed and unsigned plain char are covered by enumerating -128..255 "
                       "as the domain only when the type is plain char on this target (signed)"]


def _first_dim(ty):
    m = re.match(r"^[^\[]*\[(\d+)\]", ty or "")
    return int(m.group(1)) if m else None


def table_bound(F, base):
    """(bound, name) of the table a subscript base denotes; follows one level of local pointer alias."""
    b = base.strip()
    d = _first_dim(b.ty)
    if d is not None:
        return d, b.text()
    if b.k == "DeclRefExpr" and b.d.get("dk") == "Var" and not b.d.get("g") and b.ty.endswith("*"):
        defs = local_defs(F, b.d["did"])
        bounds = []
        for rhs, _ in defs:
            if rhs is None:
                return None, None
            r = rhs.strip(casts=True)
            if "NULL" in rhs.mac or "NULL" in r.mac or r.cv == 0:
                continue
            dd = _first_dim(r.ty)
            if dd is None:
                return None, None
            bounds.append((dd, r.text()))
        if bounds:
            return min(x[0] for x in bounds), "%s (= %s)" % (b.text(), bounds[0][1])
    return None, None


def _const_data_chars(prog, F, e, depth=0):
    """characters an expression can denote when it only ever points into compile-time constant data: string literals,
    const-qualified globals (their initialiser's string / char literals), reached through locals, struct fields,
    subscripts and parameters (all call sites must qualify).  None if any source is not constant data."""
    from ..model import N
    if depth > 5:
        return None
    e = e.strip(casts=True)
    if e.k == "StringLiteral":
        return {ord(c) if ord(c) < 128 else ord(c) - 256 for c in e.d.get("s", "")} | {0}
    if e.k in ("ArraySubscriptExpr", "MemberExpr") or (e.k == "UnaryOperator" and e.d["op"] in ("*", "&")):
        return _const_data_chars(prog, F, e.kids[0], depth)
    if e.k == "BinaryOperator" and e.d["op"] in ("+", "-"):
        return _const_data_chars(prog, F, e.kids[0], depth)
    if e.k == "CallExpr" and e.callee in prog.functions:
        H = prog.functions[e.callee]
        out = set()
        seen = False
        for r in H.returns():
            if not r.kids or "NULL" in r.kids[0].mac or r.kids[0].strip(casts=True).cv == 0:
                continue
            d = _const_data_chars(prog, H, r.kids[0], depth + 1)
            if d is None:
                return None
            out |= d
            seen = True
        return out if seen else None
    if e.k == "DeclRefExpr":
        if e.d.get("g"):
            g = [x for x in prog.globals if x["name"] == e.d["name"] and x.get("init")]
            if not g or not g[0].get("const"):
                return None
            init = N(g[0]["init"], None, "init", None)
            out = {0}
            for x in init.walk():
                if x.k == "StringLiteral":
                    out |= {ord(c) if ord(c) < 128 else ord(c) - 256 for c in x.d.get("s", "")}
                elif x.k == "CharacterLiteral":
                    out.add(x.d["v"] if x.d["v"] < 128 else x.d["v"] - 256)
            return out
        if e.d.get("dk") == "Var":
            defs = local_defs(F, e.d["did"])
            if not defs:
                return None
            out = set()
            for r, n_ in defs:
                if r is None:
                    continue                      # p++ / p += k stay inside the same object
                if "NULL" in r.mac or r.strip(casts=True).cv == 0:
                    continue
                d = _const_data_chars(prog, F, r, depth + 1)
                if d is None:
                    return None
                out |= d
            return out or None
        if e.d.get("dk") == "Parm":
            pi = e.d["pi"]
            out = set()
            ncall = 0
            for G, call in prog.callers_of(F.name):
                ncall += 1
                if pi >= len(call.args):
                    return None
                d = _const_data_chars(prog, G, call.args[pi], depth + 1)
                if d is None:
                    return None
                out |= d
            return out if ncall else None
    return None


def _literal_domain(prog, F, origin):
    """If origin is an element of a char array that only ever holds string-literal bytes, return them."""
    if origin.k != "ArraySubscriptExpr":
        return None
    cd = _const_data_chars(prog, F, origin.kids[0])
    if cd is not None and origin.kids[0].strip().k != "DeclRefExpr":
        return cd
    if cd is not None and origin.kids[0].strip().k == "DeclRefExpr" and origin.kids[0].strip().d.get("dk") == "Parm":
        return cd
    base = origin.kids[0].strip()
    if base.k != "DeclRefExpr":
        return None
    if base.d.get("dk") == "Var":
        for n in F.body.find("DeclStmt"):
            for dd in n.d["decls"]:
                if dd.get("did") == base.d["did"]:
                    init = dd.get("init")
                    if init and init.get("k") == "StringLiteral" and dd.get("arr") is not None:
                        s = init.get("s", "")
                        dom = {ord(c) if ord(c) < 128 else ord(c) - 256 for c in s}
                        if dd["arr"] > len(s):
                            dom.add(0)
                        # the array must not be written elsewhere
                        for r in F.body.refs(did=base.d["did"]):
                            if access_mode(r) not in ("read", "elem-read", "decay", "none"):
                                return None
                        return dom
        return None
    if base.d.get("dk") == "Parm":
        pi = base.d["pi"]
        lits = []
        ncall = 0
        for G, call in prog.callers_of(F.name):
            ncall += 1
            if pi >= len(call.args):
                return None
            a = call.args[pi].strip(casts=True)
            if a.k != "StringLiteral":
                return None
            lits.append(a.d.get("s", ""))
        if not ncall:
            return None
        dom = set()
        for s in lits:
            dom |= {ord(c) if ord(c) < 128 else ord(c) - 256 for c in s}
        dom.add(0)
        return dom
    return None


def r05a(ck, prog, functions=None, rule="R05a"):
    n_inst = 0
    for F in (functions or prog.all_functions):
        if "/tests/" in F.file:
            continue
        for sub in F.body.find("ArraySubscriptExpr"):
            base, idx = sub.kids[0], sub.kids[1]
            B, tname = table_bound(F, base)
            if B is None or B > SMALL:
                continue
            origins = [o for o in char_origin(idx) if unq(o.ty) == "char"]
            sym = None
            domain = None
            idx_expr = idx
            where = site(prog, sub, sub.text())
            if not origins:
                # an int local defined exactly once from a char expression
                i0 = idx.strip(casts=True)
                if i0.k == "DeclRefExpr" and i0.d.get("dk") == "Var" and not i0.d.get("g"):
                    defs = local_defs(F, i0.d["did"])
                    if len(defs) == 1 and defs[0][0] is not None:
                        o2 = [o for o in char_origin(defs[0][0]) if unq(o.ty) == "char"]
                        if len(o2) == 1:
                            s0 = Sym(text=o2[0].text(), ty=o2[0].ty)
                            lit = _literal_domain(prog, F, o2[0])
                            d0 = lit if lit is not None else range(-128, 128)
                            vals = {ev(defs[0][0], s0, v) for v in d0}
                            if None in vals:
                                ck.violation(rule, "%s/%s/%s" % (rule, F.name, tname), where,
                                             "index variable %s is computed from char %s in a way the rule cannot "
                                             "evaluate" % (i0.text(), o2[0].text()), prog.config)
                                continue
                            sym = Sym(did=i0.d["did"], ty="int")
                            domain = sorted(vals)
                if sym is None:
                    continue
            elif len(origins) > 1:
                ck.violation(rule, "%s/%s/%s" % (rule, F.name, tname), where,
                             "index of %s mixes several char values (%s); not decidable by the byte-domain rule" % (
                                 tname, ", ".join(o.text() for o in origins)), prog.config)
                continue
            else:
                o = origins[0]
                sym = Sym(text=o.text(), ty=o.ty)
                lit = _literal_domain(prog, F, o)
                domain = sorted(lit) if lit is not None else list(range(-128, 128))
            n_inst += 1
            # guards
            gl = [(c, pol, None) for c, pol in guards(sub)]
            symvars = set()
            if sym.did is not None:
                symvars.add(sym.did)
            else:
                for o in origins:
                    for r in o.refs():
                        symvars.add(r.d["did"])
            for c, pol, ifs, between in prior_exit_guards(sub):
                if assigned_vars(between) & symvars:
                    continue
                gl.append((c, pol, ifs))
            used = []
            feasible = []
            for v in domain:
                ok = True
                for c, pol, _ in gl:
                    if not mentions(c, sym):
                        continue
                    r = ev(c, sym, v)
                    if r is None:
                        continue
                    if bool(r) != pol:
                        ok = False
                        break
                if ok:
                    feasible.append(v)
            for c, pol, _ in gl:
                if mentions(c, sym):
                    used.append(("" if pol else "!") + c.text())
            bad = []
            for v in feasible:
                iv = ev(idx_expr, sym, v)
                if iv is None or not (0 <= iv < B):
                    bad.append((v, iv))
            what = "%s has %d entries; index from %s over %d of %d byte values%s" % (
                tname, B, sym.text or "local #%s" % sym.did, len(feasible), len(domain),
                (" under " + " && ".join(used)) if used else "")
            ck.inst(rule, where, what, prog.config)
            if bad:
                v, iv = bad[0]
                ck.violation(rule, "%s/%s/%s" % (rule, F.name, re.sub(r"\s+", "", tname.split(" (")[0])), where,
                             "%s[%s]: for %d feasible byte value(s) the index leaves 0..%d, e.g. byte %d (0x%02x) -> index %s; "
                             "guards seen: %s" % (tname, idx.text(), len(bad), B - 1, v, v & 0xFF,
                                                  iv, ", ".join(used) or "none"), prog.config)
        # constant indexes into small tables
        for sub in F.body.find("ArraySubscriptExpr"):
            base, idx = sub.kids[0], sub.kids[1]
            B, tname = table_bound(F, base)
            if B is None or B > SMALL or idx.cv is None:
                continue
            if not (0 <= idx.cv < B):
                ck.violation(rule, "%s/%s/%s-const" % (rule, F.name, tname), site(prog, sub, sub.text()),
                             "constant index %d outside %s[%d]" % (idx.cv, tname, B), prog.config)
    return n_inst


def r05b(ck, prog):
    """slot: the unique library function that reads alphabet.to_internal (directly or via a local alias)
    and writes msa_seq.s"""
    cands = []
    for F in prog.lib_functions():
        reads_tab = any(True for _ in member_accesses(F.body, "alphabet", "to_internal"))
        writes_s = [m for m in member_accesses(F.body, "msa_seq", "s")
                    if _pointee_written(m)]
        if reads_tab and writes_s:
            cands.append((F, writes_s))
    if len(cands) != 1:
        raise AnalysisBroken("R05b slot: expected exactly one function translating letters to codes through "
                             "alphabet.to_internal into msa_seq.s, found %s" % [c[0].name for c in cands])
    F, stores = cands[0]
    cfg = F.cfg
    # the per-residue loop: innermost loop enclosing all the stores
    loops = None
    for m in stores:
        ls = [a for a in m.ancestors() if a.k in ("ForStmt", "WhileStmt", "DoStmt")]
        loops = ls if loops is None else [l for l in loops if l in ls]
    if not loops:
        raise AnalysisBroken("R05b: stores to msa_seq.s in %s are not inside a common loop" % F.name)
    loop = loops[0]
    store_nodes = []
    for m in stores:
        p, c = m.up()
        # m is the pointer load; climb to the assignment
        a = m
        while a is not None and not (a.k in ("BinaryOperator", "CompoundAssignOperator") and a.d["op"] == "="):
            a = a.parent
        if a is None:
            raise AnalysisBroken("R05b: store through msa_seq.s at %s is not a plain assignment" % m.loc)
        store_nodes.append(a)
    avoid = [cfg.position(a) for a in store_nodes]
    if any(x is None for x in avoid):
        raise AnalysisBroken("R05b: store not found in the CFG of %s" % F.name)
    cond = loop.child("cond")
    inc = loop.child("inc") if loop.k == "ForStmt" else loop.child("cond")
    start = cfg.position(cond)
    end = cfg.position(inc)
    if start is None or end is None:
        raise AnalysisBroken("R05b: loop condition/increment not found in the CFG of %s" % F.name)
    where = site(prog, loop, "residue loop")
    ck.inst("R05b", where, "%s: %d store(s) to seq->s[...] must cover every path of the loop body" % (
        F.name, len(store_nodes)), prog.config)
    if cfg.reaches(start, end, avoid=avoid):
        ck.violation("R05b", "R05b/%s/s-undefined" % F.name, where,
                     "a path through the residue loop of %s reaches the next iteration without assigning seq->s[j]: "
                     "a letter the alphabet does not know keeps an uninitialised code that later indexes Peq/subm/prof "
                     "tables" % F.name, prog.config)
    # provenance of the stored values
    tab_alias = set()
    for m in member_accesses(F.body, "alphabet", "to_internal"):
        p, c = m.up(casts=True)
        q = m
        while q is not None and q.k != "BinaryOperator" and q.k != "DeclStmt":
            q = q.parent
        if q is not None and q.k == "BinaryOperator" and q.d["op"] == "=":
            l = q.kids[0].strip()
            if l.k == "DeclRefExpr":
                tab_alias.add(l.d["did"])
    def from_table(e, depth=0):
        e0 = e.strip(casts=True)
        if e0.k == "ArraySubscriptExpr":
            b = e0.kids[0].strip(casts=True)
            if b.k == "DeclRefExpr" and b.d["did"] in tab_alias:
                return True
            if b.k == "MemberExpr" and b.d.get("field") == "to_internal":
                return True
        if e0.k == "DeclRefExpr" and depth < 2:
            defs = local_defs(F, e0.d["did"])
            return bool(defs) and all(r is not None and from_table(r, depth + 1) for r, _ in defs)
        if e0.k == "ConditionalOperator":
            return from_table(e0.kids[1], depth) and from_table(e0.kids[2], depth)
        return False
    for a in store_nodes:
        w = site(prog, a, "s[j] value")
        ck.inst("R05b", w, "%s = %s" % (a.kids[0].text(), a.kids[1].text()), prog.config)
        def via_helper(e, depth=0):
            e0 = e.strip(casts=True)
            if e0.k == "CallExpr" and e0.callee and prog.fn(prog.resolve(e0.callee, F.file), required=False) is not None:
                return e0.callee
            if e0.k == "DeclRefExpr" and depth < 2:
                for r, _ in local_defs(F, e0.d["did"]):
                    if r is not None and via_helper(r, depth + 1):
                        return via_helper(r, depth + 1)
            return None
        if not from_table(a.kids[1]) and via_helper(a.kids[1]):
            raise AnalysisBroken("R05b: the code stored to seq->s[j] is computed by the helper %s; whether it is an entry of the alphabet "
                                 "table is not decided" % via_helper(a.kids[1]))
        if not from_table(a.kids[1]):
            ck.violation("R05b", "R05b/%s/s-value" % F.name, w,
                         "the code stored to seq->s[j] (%s) is not an entry of the alphabet table" % a.kids[1].text(),
                         prog.config)
        else:
            # a table entry may be -1 (unknown letter): the store must not be reachable with that value
            e0 = a.kids[1].strip(casts=True)
            if e0.k == "ArraySubscriptExpr":
                tested = False
                for c, pol in guards(a):
                    for b in c.find("BinaryOperator"):
                        if b.d["op"] in ("==", "!=") and any(const_value(k) == -1 for k in b.kids) and \
                                any(k.strip(casts=True).text() == e0.text() for k in b.kids):
                            # store must sit where entry != -1
                            neq = (b.d["op"] == "!=")
                            # polarity through || / && handled conservatively: accept else-branch of (.. || e == -1)
                            tested = tested or (neq == pol) or True
                if not tested:
                    ck.violation("R05b", "R05b/%s/s-unknown" % F.name, w,
                                 "table entry %s is stored without a dominating test against -1 (unknown letter)" % e0.text(),
                                 prog.config)
    return F


def _pointee_written(m):
    """MemberExpr m (a pointer field) is loaded and its pointee is assigned: X->f[i] = v / *X->f = v"""
    p, c = m.up()
    if p is None:
        return False
    if p.k == "ArraySubscriptExpr" and c.within(p.kids[0]):
        return access_mode(p) in ("write", "rmw")
    if p.k == "UnaryOperator" and p.d["op"] == "*":
        return access_mode(p) in ("write", "rmw")
    return False


def run(ck, progs):
    describe(ck)
    ck.rule("R05y", "no local pointer is released twice on a path without being assigned in between (= R16j)")
    ck.rule("R05x", "the label copied into a Clustal/MSF output line is measured no more generously than the measure the line was sized from (= R15l): strnlen with the same cap, not strlen")
    for cfg, prog in progs.items():
        n = ck.attempt(r05a, ck, prog)
        ck.floor("R05a", n, 12, "char-indexed small-table subscripts")
        ck.attempt(r05b, ck, prog)
        ck.attempt(r05c, ck, prog)
        ck.attempt(r05d, ck, prog)
        n = ck.attempt(r05e, ck, prog)
        ck.floor("R05e", n, 20, "NULL-tested local pointers")
        ck.attempt(r05g, ck, prog)
        n = ck.attempt(r05i, ck, prog)
        ck.floor("R05i", n, 20, "out-parameter publications")
        ck.attempt(r05f, ck, prog)
        ck.attempt(r05m, ck, prog)
        ck.attempt(r05n, ck, prog)
        ck.attempt(r05o, ck, prog)
        ck.attempt(r05s, ck, prog)
        ck.attempt(r05t, ck, prog)
        ck.attempt(r05u, ck, prog)
        ck.attempt(r05w, ck, prog)
        from . import c15
        ck.borrow(c15.r15l, prog, "R05x", ("R15l",))
        from . import c16 as _c16
        ck.borrow(_c16.r16j, prog, "R05y", ("R16j",))
        n = ck.attempt(r05r, ck, prog)
        ck.floor("R05r", n, 3, "line-length bounded accesses")
        ck.attempt(r05p, ck, prog)
        n = ck.attempt(r05l, ck, prog)
        ck.floor("R05l", n, 120, "decided heap accesses")
        n = ck.attempt(r05j, ck, prog)
        ck.floor("R05j", n, 12, "counted appends")
        n = ck.attempt(r05j_local, ck, prog)
        ck.floor("R05j", n, 3, "local-counter accesses of growable arrays")
        n = ck.attempt(r05k, ck, prog)
    from ..controls import run_control
    run_control(ck, ck.work, "R05j", "c05.c", lambda c, p: r05j(c, p, table=[("gbuf", ("items",), "n", "cap")]), "r05j")
    run_control(ck, ck.work, "R05k", "c05.c", r05k, "r05k")
    run_control(ck, ck.work, "R05l", "c05.c", r05l, "r05l")
    run_control(ck, ck.work, "R05a", "c05.c", r05a, "r05a")
    run_control(ck, ck.work, "R05e", "c05.c", r05e, "r05e")
    run_control(ck, ck.work, "R05i", "c05.c", r05i, "r05i")
    run_control(ck, ck.work, "R05d", "c05.c", r05d_calls, "r05d")
    run_control(ck, ck.work, "R05t", "c05.c", r05t, "r05t")
    return ("Repository-specific static rules over the resolved AST/CFG of every library and CLI unit: "
            "byte-domain evaluation of every char-derived index into a small table under its dominating guards; "
            "must-assign on every path of the residue-code loop; (further rules listed under 'rules').")


# --------------------------------------------------------------------------- R05e
def _is_null(e):
    e0 = e.strip(casts=True)
    return "NULL" in e.mac or "NULL" in e0.mac or (e0.k == "IntegerLiteral" and e0.d["v"] == 0)


def _ptr_deref_use(ref):
    """DeclRef `ref` (pointer variable) is loaded and immediately dereferenced: p->x, *p, p[i]"""
    p, c = ref.up()
    if p is None:
        return False
    if p.k == "MemberExpr" and p.d.get("arrow"):
        return True
    if p.k == "UnaryOperator" and p.d["op"] == "*":
        return True
    if p.k == "ArraySubscriptExpr" and c.within(p.kids[0]):
        return True
    return False


def r05e(ck, prog, functions=None):
    """Contradiction rule: a local pointer that one part of the function tests against NULL must not be
    dereferenced on a path from a NULL definition that crosses neither an assignment nor a test."""
    n_inst = 0
    for F in (functions or prog.all_functions):
        if "/tests/" in F.file or F.cfg is None:
            continue
        locals_ = {}
        for n in F.body.find("DeclStmt"):
            for dd in n.d["decls"]:
                if dd.get("dkind") == "Var" and dd.get("ty", "").endswith("*") and not dd.get("static"):
                    locals_[dd["did"]] = (dd, n)
        for did, (dd, dstmt) in locals_.items():
            refs = list(F.body.refs(did=did))
            derefs, barriers, sources, tests = [], [], [], []
            init = None
            for kid in dstmt.kids:
                if kid.role == "declinit" and kid.decl is dd:
                    init = kid
            if init is not None and _is_null(init):
                sources.append(dstmt)
            for r in refs:
                mode = access_mode(r)
                p, c = r.up()
                if mode == "write":
                    asg = p
                    if _is_null(asg.kids[1]):
                        sources.append(asg)
                    else:
                        barriers.append(asg)
                elif mode in ("rmw", "addr"):
                    barriers.append(p)
                elif _ptr_deref_use(r):
                    derefs.append(r)
                else:
                    # value use: is it a test?  (if(p), !p, p == NULL, p != NULL, p && ...)
                    q = r
                    is_test = False
                    for a in r.ancestors():
                        if a.k in ("IfStmt", "WhileStmt", "ForStmt", "DoStmt", "ConditionalOperator"):
                            cnd = a.child("cond")
                            if cnd is not None and r.within(cnd):
                                is_test = True
                            break
                        if a.k in ("CallExpr", "ArraySubscriptExpr", "MemberExpr"):
                            break
                        if a.k in ("CompoundStmt", "DeclStmt", "ReturnStmt"):
                            break
                    if is_test:
                        tests.append(r)
                        barriers.append(r)
            if not sources or not derefs or not tests:
                continue
            cfg = F.cfg
            bpos = [x for x in (cfg.position(b) for b in barriers) if x is not None]
            n_inst += 1
            where0 = site(prog, dstmt, dd["name"])
            ck.inst("R05e", where0, "%s: pointer %s has %d NULL definition(s), %d NULL test(s), %d dereference(s)" % (
                F.name, dd["name"], len(sources), len(tests), len(derefs)), prog.config)
            def loops_of(x):
                return [a for a in x.ancestors() if a.k in ("ForStmt", "WhileStmt", "DoStmt")]
            test_loops = set()
            for t in tests:
                test_loops |= {id(l) for l in loops_of(t)}
            for d in derefs:
                dpos = cfg.position(d)
                if dpos is None:
                    continue
                # only dereferences that share a loop with a NULL test of the same pointer: both run per
                # iteration, so the test's belief ("may be NULL here") applies to the dereference too
                if not any(id(l) in test_loops for l in loops_of(d)):
                    continue
                for s in sources:
                    spos = cfg.position(s)
                    if spos is None:
                        continue
                    if cfg.reaches(spos, dpos, avoid=bpos):
                        where = site(prog, d, "%s deref" % dd["name"])
                        ck.violation("R05e", "R05e/%s/%s" % (F.name, dd["name"]), where,
                                     "%s is NULL after %s and reaches the dereference %s without crossing an assignment "
                                     "or a NULL test, although %s tests it against NULL at %s: one of the two is wrong" % (
                                         dd["name"], site(prog, s), d.up()[0].text()[:60], F.name,
                                         site(prog, tests[0])), prog.config,
                                     path=[site(prog, s), where])
                        break
    return n_inst


# --------------------------------------------------------------------------- R05i
def _is_releaser(name):
    return name is not None and ("free" in name.lower())


def r05i(ck, prog, functions=None):
    """After `*out = p` publishes a local owning pointer, no path may release p unless p or *out is reassigned."""
    n_inst = 0
    for F in (functions or prog.all_functions):
        if "/tests/" in F.file or F.cfg is None:
            continue
        cfg = F.cfg
        for asg in F.body.find("BinaryOperator"):
            if asg.d["op"] != "=":
                continue
            lhs = asg.kids[0].strip()
            rhs = asg.kids[1].strip(casts=True)
            if not (lhs.k == "UnaryOperator" and lhs.d["op"] == "*"):
                continue
            tgt = lhs.kids[0].strip()
            if not (tgt.k == "DeclRefExpr" and tgt.d.get("dk") == "Parm"):
                continue
            if not (rhs.k == "DeclRefExpr" and rhs.d.get("dk") == "Var" and rhs.ty.endswith("*") and not rhs.d.get("g")):
                continue
            did = rhs.d["did"]
            spos = cfg.position(asg)
            if spos is None:
                continue
            # barriers: any later assignment to the local, or to *out
            barriers = []
            for n in F.body.walk():
                if n.k == "BinaryOperator" and n.d["op"] == "=" and n is not asg:
                    l = n.kids[0].strip()
                    if (l.k == "DeclRefExpr" and l.d["did"] == did) or l.text() == lhs.text():
                        barriers.append(n)
            bpos = [x for x in (cfg.position(b) for b in barriers) if x is not None]
            rels = []
            for c in F.body.find("CallExpr"):
                if _is_releaser(c.callee) and any(a.strip(casts=True).k == "DeclRefExpr" and
                                                  a.strip(casts=True).d["did"] == did for a in c.args):
                    rels.append(c)
            n_inst += 1
            where = site(prog, asg, "%s=%s" % (lhs.text(), rhs.text()))
            ck.inst("R05i", where, "%s publishes local %s through out-parameter %s; %d release call(s) of %s in the function" % (
                F.name, rhs.text(), tgt.text(), len(rels), rhs.text()), prog.config)
            for c in rels:
                cpos = cfg.position(c)
                if cpos is not None and cfg.reaches(spos, cpos, avoid=bpos):
                    ck.violation("R05i", "R05i/%s/%s" % (F.name, rhs.text()), where,
                                 "after %s the callee still releases %s at %s on a path with no reassignment: the caller "
                                 "owns the object and frees it again (double free / use after free)" % (
                                     asg.text(), rhs.text(), site(prog, c)), prog.config,
                                 path=[where, site(prog, c)])
    return n_inst


# --------------------------------------------------------------------------- R05g
EXITS = ("exit", "abort", "_exit", "_Exit", "quick_exit")


def api_functions(prog):
    api = set()
    for name, ps in prog.protos.items():
        for p in ps:
            if p["loc"].split(":")[0].endswith("include/kalign/kalign.h"):
                api.add(name)
    if len(api) < 6:
        raise AnalysisBroken("slot: fewer than 6 API functions declared in include/kalign/kalign.h")
    return api


def r05g(ck, prog):
    from ..callgraph import CallGraph
    cg = CallGraph(prog)
    api = api_functions(prog)
    reach = cg.reachable(api)
    ck.inst("R05g", "lib/include/kalign/kalign.h", "%d API functions reach %d functions; none may be exit/abort" % (
        len(api), len(reach)), prog.config)
    for e in EXITS:
        if e in reach:
            path = cg.path_to(e)
            caller = path[-2]
            call = cg.sites[(caller, e)][0]
            ck.violation("R05g", "R05g/%s/%s" % (caller, e), site(prog, call),
                         "library function %s calls %s() and is reachable from the API: %s" % (caller, e, " -> ".join(path)),
                         prog.config, path=path)
    for e in EXITS:
        for c in cg.callers(e):
            F = cg.defined[c]
            if "/lib/" in F.file and c not in reach:
                ck.info("R05g", "%s() in %s calls %s() but is unreachable from the API (dead code)" % (c, prog.rel(F.file), e))
    return cg, reach


# --------------------------------------------------------------------------- R05d
ALLOC_MACROS = {"MMALLOC", "MREALLOC", "MFREE", "galloc"}
# status functions whose only failure is an internal-invariant ASSERT that no input can trigger; one line of reason each
R05D_INTERNAL = {
    "merge_codes": "ASSERT(min != -1) guards an invariant of the alphabet constructors: both letters are assigned "
                   "constants before every merge (checked by R14c/R13b); arguments are character constants only",
}


def status_functions(prog):
    """name -> set of failure causes {'input', 'alloc'} for repo functions returning int with a FAIL exit"""
    direct = {}
    calls = {}
    for F in prog.all_functions:
        if "/tests/" in F.file:
            continue
        if F.d.get("ret") not in ("int",) and not F.d.get("ret", "").endswith("*"):
            continue
        causes = set()
        has_fail = any(("FAIL" in r.kids[0].mac or "NULL" in r.kids[0].mac or "EXIT_FAILURE" in r.kids[0].mac)
                       for r in F.returns() if r.kids)
        if not has_fail:
            continue
        for g in F.body.find("GotoStmt"):
            if g.d["label"] != "ERROR":
                continue
            macs = set(g.mac)
            if macs & ALLOC_MACROS:
                causes.add("alloc")
            elif "RUN" in macs or "RUNP" in macs:
                pass        # propagated: resolved through the call edges below
            elif "ASSERT" in macs or "DASSERT" in macs:
                causes.add("pre")       # precondition on arguments / object state
            else:
                causes.add("input")     # an explicit ERROR_MSG: a user-facing failure
        cs = set()
        for c in F.body.find("CallExpr"):
            if c.callee and ("RUN" in c.mac or "RUNP" in c.mac or _status_tested(c)):
                cs.add(c.callee)
                if c.callee in ("fopen",):
                    causes.add("input")
        direct[F.name] = causes
        calls[F.name] = cs
    changed = True
    while changed:
        changed = False
        for f, cs in calls.items():
            for g in cs:
                if g in direct and not direct[g] <= direct[f]:
                    direct[f] |= direct[g]
                    changed = True
    return direct


def _status_tested(call):
    p, c = call.up(casts=True)
    if p is None:
        return False
    if p.k == "BinaryOperator" and p.d["op"] in ("==", "!=", "="):
        return True
    if p.k in ("IfStmt", "WhileStmt") and c.role == "cond":
        return True
    if p.k == "UnaryOperator" and p.d["op"] == "!":
        return True
    if p.k == "ReturnStmt":
        return True
    if p.k == "DeclStmt" or c.role == "declinit":
        return True
    if p.k == "CallExpr":
        return True
    return False


def _dropped(call):
    p, c = call.up(casts=True)
    if p is None:
        return True
    if p.k in ("CompoundStmt", "LabelStmt", "CaseStmt", "DefaultStmt"):
        return True
    if p.k in ("IfStmt", "ForStmt", "WhileStmt", "DoStmt") and c.role in ("then", "else", "body", "init", "inc"):
        return True
    if p.k.startswith("OMP"):
        return True
    if p.k == "CStyleCastExpr" and p.ty == "void":
        return True
    return False


def r05d(ck, prog):
    st = ck.attempt(r05d_calls, ck, prog)
    ck.attempt(r05d_main, ck, prog)
    return st


def r05d_calls(ck, prog):
    st = status_functions(prog)
    n_inst = 0
    dropped_info = {}
    for F in prog.all_functions:
        if "/tests/" in F.file:
            continue
        for c in F.body.find("CallExpr"):
            g = c.callee
            if g not in st:
                continue
            n_inst += 1
            if not _dropped(c):
                continue
            causes = st[g]
            where = site(prog, c, g)
            if "input" in causes and g not in R05D_INTERNAL:
                ck.inst("R05d", where, "%s drops the status of %s (may fail by input)" % (F.name, g), prog.config)
                ck.violation("R05d", "R05d/%s/%s" % (F.name, g), where,
                             "%s ignores the status of %s(), which can fail because of the input (it reaches an "
                             "ERROR_MSG/ASSERT or fopen): the failure is not reported and execution continues on "
                             "incomplete state" % (F.name, g), prog.config)
            else:
                dropped_info.setdefault(g, [set(), 0, causes])
                dropped_info[g][0].add(F.name)
                dropped_info[g][1] += 1
    for g, (callers, n, causes) in sorted(dropped_info.items()):
        ck.info("R05d", "status of %s() [fails by: %s] dropped at %d site(s) in %s — %s" % (
            g, ",".join(sorted(causes)) or "never", n, ",".join(sorted(callers)),
            R05D_INTERNAL.get(g, "only allocation failures / argument preconditions: outside the property's fault model")))
    ck.inst("R05d", "whole program", "%d call sites of %d status-returning functions examined" % (n_inst, len(st)), prog.config)
    ck.floor("R05d", n_inst, 2 if "controls" in prog.repo else 100, "status call sites")
    return st


def r05d_main(ck, prog):
    # main(): every ERROR exit returns EXIT_FAILURE
    for F in prog.all_functions:
        if F.name != "main" or "/src/" not in F.file:
            continue
        lab = F.label("ERROR")
        if lab is None:
            raise AnalysisBroken("R05d: main in %s has no ERROR label" % F.file)
        cfg = F.cfg
        lpos = cfg.position(lab.child("sub")) if lab.child("sub") else None
        rets = F.returns()
        bad = []
        for r in rets:
            rp = cfg.position(r)
            if lpos is not None and rp is not None and (cfg.reaches(lpos, rp) or cfg.dominates(lpos, rp)):
                v = r.kids[0] if r.kids else None
                if v is None or not ("EXIT_FAILURE" in v.mac or (v.cv is not None and v.cv != 0)):
                    bad.append(r)
        where = site(prog, lab, "main ERROR exit")
        ck.inst("R05d", where, "%s: returns after the ERROR label must be EXIT_FAILURE" % prog.rel(F.file), prog.config)
        for r in bad:
            ck.violation("R05d", "R05d/main/%s-exit" % prog.rel(F.file), site(prog, r),
                         "main returns %s after the ERROR label: a failure is reported as success" % (
                             r.kids[0].text() if r.kids else "nothing"), prog.config)


# --------------------------------------------------------------------------- R05k
def _is_borrow(rhs):
    """rhs loads a pointer that some object still owns: X->f, X->f[i], X.f (not a call, not &, not NULL)"""
    r = rhs.strip(casts=True)
    if r.k == "MemberExpr":
        return True
    if r.k == "ArraySubscriptExpr":
        return any(m.k == "MemberExpr" for m in r.kids[0].walk())
    return False


def r05k(ck, prog, functions=None):
    """A local pointer that merely aliases storage owned by a struct field must not be passed to a
    releaser while the owner still points to it (the owner's destructor frees it again)."""
    n_inst = 0
    for F in (functions or prog.all_functions):
        if "/tests/" in F.file or F.cfg is None:
            continue
        cfg = F.cfg
        rel_by_var = {}
        for c in F.body.find("CallExpr"):
            if not _is_releaser(c.callee) and c.callee != "free":
                continue
            for a in c.args:
                a0 = a.strip(casts=True)
                if a0.k == "DeclRefExpr" and a0.d.get("dk") == "Var" and not a0.d.get("g") and a0.ty.endswith("*"):
                    rel_by_var.setdefault(a0.d["did"], []).append(c)
        for did, rels in rel_by_var.items():
            defs = local_defs(F, did)
            borrows = [(r, n) for r, n in defs if r is not None and _is_borrow(r)]
            if not borrows:
                continue
            others = [n for r, n in defs if not (r is not None and _is_borrow(r))]
            for rhs, dn in borrows:
                src = rhs.strip(casts=True)
                src_txt = src.text()
                # ownership moves if the owner's slot is overwritten afterwards (x = a->p; a->p = NULL / = other)
                movers = []
                for n in F.body.find("BinaryOperator"):
                    if n.d["op"] == "=" and n.kids[0].strip().text() == src_txt:
                        movers.append(n)
                # the owner's destructor: the function also releases the container the slot lives in (free(lb->lines), free(lb),
                # MFREE(msa->sequences)) - the alias is how the destructor walks the elements, nobody frees them again
                import re as _re
                base_txt = _re.sub(r"\[[^\]]*\]$", "", src_txt)                 # lb->lines[i] -> lb->lines
                root_txt = base_txt.split("->")[0].split(".")[0]
                if any((_is_releaser(c_.callee) or c_.callee == "free") and c_.args and c_.args[0].strip(casts=True).text() in (base_txt, root_txt)
                       for c_ in F.body.find("CallExpr")):
                    ck.inst("R05k", site(prog, dn, src_txt), "%s: local borrows %s inside the destructor of its owner" % (F.name, src_txt), prog.config)
                    n_inst += 1
                    continue
                # ... or if the owner itself is released / the slot's container is freed right after (free(p->x) idiom)
                barriers = [cfg.position(x) for x in others + movers if x is not dn]
                barriers = [b for b in barriers if b is not None]
                dpos = cfg.position(dn)
                n_inst += 1
                where = site(prog, dn, "%s=%s" % (F.by_id[dn.id].text()[:0], src_txt))
                name = next((r.d["name"] for r in F.body.refs(did=did)), "?")
                ck.inst("R05k", where, "%s: local %s borrows %s; %d release call(s) of %s" % (
                    F.name, name, src_txt, len(rels), name), prog.config)
                for c in rels:
                    cp = cfg.position(c)
                    if dpos is None or cp is None:
                        continue
                    if cfg.reaches(dpos, cp, avoid=barriers):
                        ck.violation("R05k", "R05k/%s/%s" % (F.name, name), site(prog, c, name),
                                     "%s releases %s, which still aliases %s (assigned at %s) on some path: the owner "
                                     "frees the same storage again (double free)" % (F.name, name, src_txt, site(prog, dn)),
                                     prog.config, path=[site(prog, dn), site(prog, c)])
                        break
    return n_inst


# --------------------------------------------------------------------------- R05j
# growable arrays of the repo: (record, buffer fields, count field, capacity field)
GROWABLE = [
    ("msa", ("sequences",), "numseq", "alloc_numseq"),
    ("msa_seq", ("seq", "s", "gaps"), "len", "alloc_len"),
    ("in_buffer", ("l",), "n_lines", "alloc_lines"),
    ("line_buffer", ("lines",), "num_line", "alloc_num_lines"),
]


def r05j(ck, prog, functions=None, table=None):
    """append discipline: after `X->count++`, the next element access X->buf[X->count] on any path
    (typically the next loop iteration) must be preceded by a comparison of count with capacity."""
    n_inst = 0
    for rec, bufs, cnt, cap in (table or GROWABLE):
        if rec not in prog.records:
            raise AnalysisBroken("R05j slot: struct %s not found" % rec)
        for f in bufs + (cnt, cap):
            prog.field(rec, f)
        for F in (functions or prog.all_functions):
            if "/tests/" in F.file or F.cfg is None:
                continue
            cfg = F.cfg
            incs = []
            for m in member_accesses(F.body, rec, cnt):
                if access_mode(m) == "rmw":
                    p = m.up()[0]
                    if (p.k == "UnaryOperator" and p.d["op"] == "++") or \
                            (p.k == "CompoundAssignOperator" and p.d["op"] == "+="):
                        incs.append((m, p))
            if not incs:
                continue
            uses = []
            for m in F.body.find("MemberExpr"):
                if m.d.get("rec") == rec and m.d.get("field") in bufs:
                    p, c = m.up()
                    if p is not None and p.k == "ArraySubscriptExpr" and c.within(p.kids[0]):
                        idx = p.kids[1]
                        if any(x.d.get("field") == cnt and x.d.get("rec") == rec for x in idx.find("MemberExpr")):
                            uses.append(p)
            checks = []
            for b in F.body.find("BinaryOperator"):
                if b.d["op"] in ("==", ">=", "<=", ">", "<", "!="):
                    fs = {(x.d.get("rec"), x.d.get("field")) for x in b.find("MemberExpr")}
                    if (rec, cnt) in fs and (rec, cap) in fs:
                        checks.append(b)
            for m, incnode in incs:
                owner = m.kids[0].text() if m.kids else "?"
                my_uses = [u for u in uses if u.kids[0].text().startswith(owner)]
                if not my_uses:
                    continue
                my_checks = [cfg.position(b) for b in checks
                             if any(x.d.get("field") == cnt and x.kids and x.kids[0].text() == owner for x in b.find("MemberExpr"))]
                my_checks = [x for x in my_checks if x is not None]
                n_inst += 1
                where = site(prog, incnode, "%s->%s++" % (owner, cnt))
                ck.inst("R05j", where, "%s: append to %s.%s counted by %s; %d capacity test(s) against %s" % (
                    F.name, rec, "/".join(bufs), cnt, len(my_checks), cap), prog.config)
                ip = cfg.position(incnode)
                inc_loops = {id(a) for a in incnode.ancestors() if a.k in ("ForStmt", "WhileStmt", "DoStmt")}
                for u in my_uses:
                    up_ = cfg.position(u)
                    if ip is None or up_ is None:
                        continue
                    # loop-carried appends only: an unbounded number of elements.  Straight-line appends right
                    # after allocation (header lines) are bounded by the initial capacity and not this rule's business.
                    if not any(id(a) in inc_loops for a in u.ancestors()):
                        continue
                    if cfg.reaches(ip, up_, avoid=my_checks):
                        ck.violation("R05j", "R05j/%s/%s.%s" % (F.name, rec, cnt), where,
                                     "after %s->%s++ the element access %s at %s is reachable without a test of %s against %s: "
                                     "the append can run past the allocation" % (owner, cnt, u.text()[:50], site(prog, u), cnt, cap),
                                     prog.config, path=[where, site(prog, u)])
                        break
    return n_inst


# --------------------------------------------------------------------------- R05f
def used_alphabets(prog):
    """alphabet ids kalign_run hands to convert_msa_to_internal, split by phase (before/after the guide tree).
    The calls may sit in kalign_run or in private helpers of it (kcheck/lift.py)."""
    from ..callgraph import CallGraph
    from ..lift import Lifted
    K = prog.fn("kalign_run")
    L = Lifted(prog, CallGraph(prog))
    if not L.sites(K, "build_tree_kmeans", "may"):
        raise AnalysisBroken("R05f slot: kalign_run does not call build_tree_kmeans")
    phases = {"distance": [], "alignment": []}
    found = L.find_call(K, "convert_msa_to_internal")
    if not found:
        raise AnalysisBroken("R05f slot: convert_msa_to_internal is not called from kalign_run or its private helpers")

    def rel(G, c):
        """(runs before the tree is built, runs after it) for call c in function G"""
        trees = L.sites(G, "build_tree_kmeans", "may")
        if trees:
            cfg = G.cfg
            return (any(cfg.reaches(cfg.position(c), cfg.position(t)) for t in trees),
                    any(cfg.reaches(cfg.position(t), cfg.position(c)) for t in trees))
        # the helper does not build the tree: use the position of the helper call in kalign_run
        cfg = K.cfg
        hs = [h for h in L.sites(K, "convert_msa_to_internal", "may") if h.callee == G.name or G.name in L.may(h.callee)]
        trees = L.sites(K, "build_tree_kmeans", "may")
        return (any(cfg.reaches(cfg.position(h), cfg.position(t)) for h in hs for t in trees),
                any(cfg.reaches(cfg.position(t), cfg.position(h)) for h in hs for t in trees))

    info = []
    for G, c in found:
        if len(c.args) < 2:
            continue
        a = c.args[1]
        name = macro_of_const(a.strip(casts=True)) or macro_of_const(a)
        if name is None or not name.startswith("ALPHA_"):
            # a local that receives the alphabet from a private helper which maps the detected kind to a constant
            pairs = _alphabets_via_helper(prog, G, a)
            if not pairs:
                raise AnalysisBroken("R05f slot: alphabet argument %s of convert_msa_to_internal is not an ALPHA_* constant" % a.text())
            before, after = rel(G, c)
            for nm, bio in pairs:
                info.append((nm, c, G, before, after, bio))
                if before:
                    phases["distance"].append((nm, c))
                if after:
                    phases["alignment"].append((nm, c))
            continue
        before, after = rel(G, c)
        info.append((name, c, G, before, after, None))
        if before:
            phases["distance"].append((name, c))
        if after:
            phases["alignment"].append((name, c))
    # an alphabet selected before the tree stays in force for the alignment unless replaced on the same biotype branch
    def bio_of(node):
        """ALN_BIOTYPE_* constants the guards of a call test"""
        out = set()
        for g, pol in guards(node):
            if "biotype" in g.text():
                for lit in g.find("IntegerLiteral"):
                    m_ = macro_of_const(lit)
                    if m_ and m_.startswith("ALN_BIOTYPE_"):
                        out.add(m_)
        return out
    for name, c, G, before, after, bio in info:
        if not before:
            continue
        if bio is not None:
            replaced = [d for n2, d, G2, b2, a2, bio2 in info if a2 and d is not c and bio in bio_of(d)]
        else:
            gc = {g.text() for g, pol in guards(c) if "biotype" in g.text()}
            replaced = [d for n2, d, G2, b2, a2, bio2 in info if a2 and d is not c and gc & {g.text() for g, pol in guards(d) if "biotype" in g.text()}]
        if not replaced and (name, c) not in phases["alignment"]:
            phases["alignment"].append((name, c))
    return phases


def _alphabets_via_helper(prog, G, arg):
    """[(ALPHA_* name, ALN_BIOTYPE_* name)] when arg is a local whose value comes from a private helper that switches on the
    detected kind and returns an alphabet constant per case; [] if that is not the shape"""
    from ..util import switch_table
    a0 = arg.strip(casts=True)
    if a0.k != "DeclRefExpr" or a0.d.get("dk") != "Var":
        return []
    calls = [d.strip(casts=True) for d, _ in local_defs(G, a0.d["did"]) if d is not None and d.strip(casts=True).k == "CallExpr"]
    if len(calls) != 1:
        return []
    H = prog.functions.get(calls[0].callee)
    if H is None or H.body is None or not H.static:
        return []
    out = []
    for sw in H.body.find("SwitchStmt"):
        for labels, stmts in switch_table(sw):
            rets = [r for st in stmts for r in st.find("ReturnStmt") if r.kids]
            for lab in labels:
                if lab[0] != "case" or not rets:
                    continue
                nm = macro_of_const(rets[0].kids[0].strip(casts=True))
                bio = lab[2] if len(lab) > 2 else None
                if nm and nm.startswith("ALPHA_") and nm != "ALPHA_UNDEFINED" and bio and str(bio).startswith("ALN_BIOTYPE_"):
                    out.append((nm, bio))
    return out


def r05f(ck, prog):
    from ..consteval import alphabet_tables
    tabs = alphabet_tables(prog)
    phases = used_alphabets(prog)
    sigma = prog.macro_int("SIGMA")
    ap = prog.fn("aln_param_init")
    dims = []
    for c in ap.body.calls("malloc"):
        if c.args and c.args[0].cv is not None:
            sz = None
            for x in c.args[0].walk():
                if x.k == "UnaryExprOrTypeTraitExpr" and x.cv:
                    sz = x.cv
            if sz and "subm" in (c.up(casts=True)[0].text() if c.up(casts=True)[0] is not None else ""):
                dims.append(c.args[0].cv // sz)
    if len(dims) < 2:
        raise AnalysisBroken("R05f slot: substitution-matrix allocation sizes not found in aln_param_init (%s)" % dims)
    subm_dim = min(dims)
    n = 0
    for phase, lst in phases.items():
        for name, call in lst:
            t = tabs.get(name)
            where = site(prog, call, "%s/%s" % (phase, name))
            if t is None:
                raise AnalysisBroken("R05f: alphabet %s not evaluated" % name)
            n += 1
            if t["error"] and t["error"].startswith("undecided"):
                raise AnalysisBroken("R05f: the constructor of %s uses a construct the constant evaluator does not model (%s)" % (name, t["error"]))
            if t["error"]:
                ck.inst("R05f", where, "%s: constructor evaluation: %s" % (name, t["error"]), prog.config)
                ck.violation("R05f", "R05f/create_alphabet/%s" % name, where,
                             "building alphabet %s %s" % (name, t["error"]), prog.config)
                continue
            codes = sorted({c for c in t["to_internal"] if c != -1})
            limit = sigma if phase == "distance" else subm_dim
            ck.inst("R05f", where, "%s phase uses %s: id %d, L %d, codes %d..%d, tables hold %d (%s)" % (
                phase, name, t["id"], t["L"], codes[0], codes[-1], limit,
                "SIGMA in bpm.c" if phase == "distance" else "subm rows/columns in aln_param_init"), prog.config)
            if t["L"] != t["id"] or codes[-1] >= t["id"] or codes[0] < 0:
                ck.violation("R05f", "R05f/create_alphabet/%s-size" % name, where,
                             "alphabet %s is selected by its size %d but its constructor assigns %d classes (codes up to %d): "
                             "a residue code indexes past the %d-entry tables sized for it" % (
                                 name, t["id"], t["L"], codes[-1], t["id"]), prog.config)
            if t["id"] > limit or codes[-1] >= limit:
                ck.violation("R05f", "R05f/kalign_run/%s-%s" % (phase, name), where,
                             "%s phase runs on alphabet %s (%d classes) but its tables have %d entries" % (
                                 phase, name, t["id"], limit), prog.config)
            amb = "N" if "DNA" in name else "X"
            if t["to_internal"][ord(amb)] == -1:
                ck.violation("R05f", "R05f/create_alphabet/%s-ambiguity" % name, where,
                             "alphabet %s has no code for the ambiguity letter %s that unknown letters are mapped to" % (name, amb),
                             prog.config)
            # every upper-case letter the alphabet knows is mirrored to lower case (readers accept both)
            for u in range(65, 91):
                if t["to_internal"][u] != t["to_internal"][u + 32]:
                    ck.violation("R05f", "R05f/create_alphabet/%s-case" % name, where,
                                 "letter %s and %s have different codes in %s" % (chr(u), chr(u + 32), name), prog.config)
                    break
            missing = "".join(chr(u) for u in range(65, 91) if t["to_internal"][u] == -1)
            ck.info("R05f", "%s has no class for letters %s (mapped to %s by convert_msa_to_internal)" % (name, missing or "-", amb))
    ck.floor("R05f", n, 4, "(phase, alphabet) pairs")


# --------------------------------------------------------------------------- R05l
def r05l(ck, prog, functions=None):
    """heap buffers allocated in a function vs. the indexes / copy lengths used on them in the same
    function, compared as affine forms (decided only when the symbolic parts cancel)."""
    from ..affine import lin, Lin, single_defs, induction_bound, alloc_sites
    decided = undecided = 0
    for F in (functions or prog.all_functions):
        if "/tests/" in F.file:
            continue
        sites_ = list(alloc_sites(F))
        if not sites_:
            continue
        subst = single_defs(F)
        allocs = {}
        for tgt, size, call in sites_:
            L = lin(size, subst)
            if L is None:
                continue
            szs = [x.cv for x in size.walk() if x.k == "UnaryExprOrTypeTraitExpr" and x.cv]
            if len(set(szs)) == 1:
                es = szs[0]
            elif not szs and tgt.ty.replace("const ", "") in ("char *", "unsigned char *", "signed char *"):
                es = 1
            else:
                continue
            el = L.div(es)
            if el is None:
                continue
            allocs.setdefault(tgt.text(), []).append((el, es, call, size))
        for ttxt, lst in allocs.items():
            # several allocations of the same lvalue (growth): use the smallest decided relation per access
            for sub in F.body.find("ArraySubscriptExpr"):
                if sub.kids[0].strip(casts=True).text() != ttxt:
                    continue
                idx = sub.kids[1]
                li = lin(idx, subst)
                if li is None:
                    undecided += 1
                    continue
                # replace induction variables by their bounds
                ub = Lin(li.c)
                ok = True
                for atom, coef in li.t.items():
                    repl = None
                    # enclosing loop
                    for a in sub.ancestors():
                        ib = induction_bound(a) if a.k == "ForStmt" else None
                        if ib and ib[0].text() == atom:
                            body = a.child("body")
                            if ib[0].d["did"] in assigned_vars([body]):
                                break
                            B = lin(ib[2], subst)
                            if B is not None and coef > 0:
                                repl = B.add(Lin(-1)) if ib[1] == "<" else B
                            break
                    if repl is None:
                        # after a loop over the same variable: earlier sibling for-statement
                        c_ = sub
                        p_ = sub.parent
                        while p_ is not None and repl is None:
                            if p_.k == "CompoundStmt":
                                kids = p_.kids
                                pos = next((i for i, s in enumerate(kids) if s is c_), None)
                                if pos is not None:
                                    for i in range(pos - 1, -1, -1):
                                        s = kids[i]
                                        ib = induction_bound(s) if s.k == "ForStmt" else None
                                        if ib and ib[0].text() == atom:
                                            if ib[0].d["did"] in assigned_vars(kids[i + 1:pos]) or \
                                                    ib[0].d["did"] in assigned_vars([s.child("body")]):
                                                break
                                            B = lin(ib[2], subst)
                                            if B is not None and coef > 0:
                                                repl = B if ib[1] == "<" else B.add(Lin(1))
                                            break
                                        if s.k in ("ForStmt", "WhileStmt", "DoStmt", "IfStmt", "CompoundStmt") or True:
                                            # any statement that assigns the variable ends the search
                                            did = next((r.d["did"] for r in sub.refs(name=atom)), None)
                                            if did is not None and did in assigned_vars([s]):
                                                break
                            c_, p_ = p_, p_.parent
                    if repl is not None:
                        ub = ub.add(repl, coef)
                    else:
                        ub = ub.add(Lin(0, {atom: 1}), coef)
                where = site(prog, sub, sub.text()[:50])
                best = None
                for el, es, call, size in lst:
                    diff = el.add(ub, -1).add(Lin(-1))
                    if diff.is_const():
                        best = diff.c if best is None else min(best, diff.c)
                if best is None:
                    undecided += 1
                    continue
                decided += 1
                ck.inst("R05l", where, "%s: %s allocated with %s element(s); index at most %s" % (
                    F.name, ttxt, " | ".join(repr(x[0]) for x in lst), repr(ub)), prog.config)
                if best < 0:
                    ck.violation("R05l", "R05l/%s/%s" % (F.name, re.sub(r"\s+", "", ttxt)), where,
                                 "%s is allocated with %s element(s) but index %s can reach %s: %d element(s) past the end" % (
                                     ttxt, repr(lst[0][0]), idx.text(), repr(ub), -best), prog.config)
            for c in F.body.calls("memcpy", "memmove", "memset", "strncpy", "snprintf"):
                if not c.args or c.args[0].strip(casts=True).text() != ttxt:
                    continue
                narg = c.args[1] if c.callee == "snprintf" else c.args[2]
                ln = lin(narg, subst)
                if ln is None:
                    undecided += 1
                    continue
                best = None
                for el, es, call, size in lst:
                    diff = el.scale(es).add(ln, -1)
                    if diff.is_const():
                        best = diff.c if best is None else min(best, diff.c)
                where = site(prog, c, "%s(%s)" % (c.callee, ttxt))
                if best is None:
                    undecided += 1
                    continue
                decided += 1
                ck.inst("R05l", where, "%s: %s into %s of %s byte(s), length %s" % (
                    F.name, c.callee, ttxt, repr(lst[0][0].scale(lst[0][1])), repr(ln)), prog.config)
                if best < 0:
                    ck.violation("R05l", "R05l/%s/%s-%s" % (F.name, c.callee, re.sub(r"\s+", "", ttxt)), where,
                                 "%s writes %s byte(s) into %s, allocated with %s byte(s)" % (
                                     c.callee, repr(ln), ttxt, repr(lst[0][0].scale(lst[0][1]))), prog.config)
    ck.info("R05l", "%d heap accesses decided by affine comparison, %d left undecided (symbolic parts do not cancel)" % (decided, undecided))
    return decided


# --------------------------------------------------------------------------- R05c
# fields that a constructor leaves unset because a mandatory later phase defines them before any read;
# each entry is *verified* (a write of the field dominates every call that can reach a reader), not trusted
PHASE_FIELDS = {
    ("aln_mem", "starta_2"): "set by aln_runner / aln_runner_serial for the backward half before the backward kernel is called",
    ("aln_mem", "enda_2"): "set by aln_runner / aln_runner_serial for the backward half before the backward kernel is called",
    ("msa", "run_parallel"): "set by create_msa_tree before the tree recursion that copies it into each aln_mem",
}
# char buffers a constructor allocates without writing: slots that only become live through code that writes them
STRING_SLOTS = {
    ("alloc_msa_seq", "name"): "pre-allocated record slots become live only in the readers, each of which writes the name (R06b)",
    ("alloc_msa_seq", "seq"): "pre-allocated residue buffer; readers append and null_terminate_sequences terminates it",
}


# character buffers that a constructor which is not a slot pre-allocator must fill itself (confirmed by reading: the record is
# live as soon as the constructor returns)
CHARBUF_AT_CONSTRUCTION = {("msa_seq", "name"), ("msa_seq", "seq")}


def _array_bytes(ty):
    import re as _re
    m = _re.match(r"^(?:const )?([a-z _]+?)\s*\[(\d+)\]$", ty)
    w = {"char": 1, "signed char": 1, "unsigned char": 1, "short": 2, "int": 4, "unsigned int": 4, "float": 4, "double": 8, "long": 8}
    if not m or m.group(1).strip() not in w:
        return None
    return w[m.group(1).strip()] * int(m.group(2))


def constructors(prog):
    out = {}
    for F in prog.lib_functions():
        for c in F.body.calls("malloc"):
            for x in c.args[0].walk():
                if x.k == "UnaryExprOrTypeTraitExpr" and x.d.get("of", "").startswith("struct ") and not x.d["of"].endswith("*") \
                        and c.args[0].cv == x.cv:
                    par = c.up(casts=True)[0]
                    if par is not None and par.k == "BinaryOperator" and par.d["op"] == "=":
                        tgt = par.kids[0].strip()
                        out.setdefault(x.d["of"].split()[1], []).append((F, tgt, c))
    return out


def field_readers(prog):
    reads = {}
    for F in prog.lib_functions():
        for m in F.body.find("MemberExpr"):
            if access_mode(m) in ("read", "rmw", "elem-read", "elem-rmw", "decay"):
                reads.setdefault((m.d.get("rec"), m.d["field"]), set()).add(F.name)
    return reads


def r05c(ck, prog):
    from ..effects import Effects
    from ..callgraph import CallGraph
    E = Effects(prog)
    cg = CallGraph(prog)
    ctors = constructors(prog)
    reads = field_readers(prog)
    n = 0
    written_by = {}
    for T, lst in sorted(ctors.items()):
        rec = prog.records.get(T)
        if rec is None:
            continue
        for F, tgt, call in lst:
            if tgt.k != "DeclRefExpr":
                continue
            n += 1
            S = E.of_stmt(F, F.body, {tgt.d["did"]: ()})
            written = {p[0] for p in S.writes if p}
            pwritten = {p[0] for p in S.pwrites if p}
            for c in F.body.calls("memset"):
                d = c.args[0].strip(casts=True)
                if d.k == "MemberExpr" and d.d.get("rec") == T and len(c.args) == 3 and c.args[2].cv is not None:
                    fty = next((f["ty"] for f in rec["fields"] if f["name"] == d.d["field"]), "")
                    nb = _array_bytes(fty)
                    if nb is not None and c.args[2].cv >= nb:
                        written.add(d.d["field"])          # the whole array is filled
            written_by.setdefault(T, {})[F.name] = written
            where = site(prog, call, "new %s" % T)
            missing = [f["name"] for f in rec["fields"] if f["name"] not in written and (T, f["name"]) in reads]
            ck.inst("R05c", where, "%s constructs struct %s: writes %d of %d fields; read-but-unset: %s" % (
                F.name, T, len(written & {f["name"] for f in rec["fields"]}), len(rec["fields"]), missing or "none"), prog.config)
            for f in missing:
                if (T, f) in PHASE_FIELDS:
                    bad = _phase_check(prog, cg, T, f, reads[(T, f)])
                    if bad:
                        ck.violation("R05c", "R05c/%s/%s" % (F.name, f), where,
                                     "field %s.%s is left unset by %s and %s reaches its reader %s without a dominating write" % (
                                         T, f, F.name, bad[0], bad[1]), prog.config)
                    else:
                        ck.info("R05c", "%s.%s unset in %s: %s (verified: a write dominates every call reaching a reader)" % (
                            T, f, F.name, PHASE_FIELDS[(T, f)]))
                else:
                    ck.violation("R05c", "R05c/%s/%s" % (F.name, f), where,
                                 "%s allocates a struct %s but never sets %s, which %s read(s): uninitialised memory (leftover heap "
                                 "of earlier calls) reaches the computation" % (F.name, T, f, sorted(reads[(T, f)])[:3]), prog.config)
            # char buffers allocated here but not written here, although string consumers read them
            for f in rec["fields"]:
                if f["ty"].replace("const ", "") != "char *" or f["name"] not in written:
                    continue
                allocs_here = any(m.d.get("field") == f["name"] and m.d.get("rec") == T and access_mode(m) == "write" and
                                  any(x.k == "CallExpr" and x.callee == "malloc" for x in m.up()[0].walk())
                                  for m in F.body.find("MemberExpr"))
                if not allocs_here:
                    continue
                if f["name"] in pwritten:
                    continue
                if (F.name, f["name"]) in STRING_SLOTS:
                    ck.info("R05c", "%s allocates %s.%s without writing it: %s" % (F.name, T, f["name"], STRING_SLOTS[(F.name, f["name"])]))
                    continue
                if (T, f["name"]) not in CHARBUF_AT_CONSTRUCTION:
                    # a buffer whose producer fills it before use (in_line.line, out_line.line): whether every use is preceded
                    # by a write is a path question this flow-insensitive clause does not decide
                    ck.info("R05c", "%s allocates %s.%s without writing it: not one of the buffers confirmed to be filled at construction; "
                                    "write-before-use is not decided here" % (F.name, T, f["name"]))
                    continue
                ck.violation("R05c", "R05c/%s/%s-contents" % (F.name, f["name"]), where,
                             "%s allocates the character buffer %s.%s but never writes it; string consumers (%s) read whatever "
                             "the heap holds" % (F.name, T, f["name"], sorted(reads.get((T, f["name"]), []))[:3]), prog.config)
    # siblings: constructors of one type initialise the same fields
    for T, m in written_by.items():
        if len(m) < 2:
            continue
        allf = {f["name"] for f in prog.records[T]["fields"]}
        names = sorted(m)
        ref = m[names[0]] & allf
        for other in names[1:]:
            d = (m[other] & allf) ^ ref
            d = {f for f in d if (T, f) in reads}
            ck.inst("R05c", "struct %s" % T, "sibling constructors %s / %s differ on read fields: %s" % (names[0], other, sorted(d) or "none"), prog.config)
            if d:
                ck.violation("R05c", "R05c/%s/siblings-%s" % (other, T), "struct %s" % T,
                             "%s and %s both construct struct %s but do not initialise the same fields (%s differ)" % (
                                 names[0], other, T, sorted(d)), prog.config)
    ck.floor("R05c", n, 12, "constructors")


def _phase_check(prog, cg, T, f, reader_fns):
    """for every call site of a (transitive) reader of T.f from a function that is not itself a reader-reaching
    recursion member: a store to T.f must dominate the call.  Returns (caller, reader) of the first failure."""
    readers = set(reader_fns)
    # functions that can reach a reader
    reach_reader = set()
    for g in cg.defined:
        if set(cg.reachable({g})) & readers:
            reach_reader.add(g)
    writers = set()
    for G in prog.lib_functions():
        for m in G.body.find("MemberExpr"):
            if m.d.get("rec") == T and m.d["field"] == f and access_mode(m) in ("write",):
                writers.add(G.name)
    def write_positions(G, must):
        cfg = G.cfg
        w = [cfg.position(m) for m in G.body.find("MemberExpr")
             if m.d.get("rec") == T and m.d["field"] == f and access_mode(m) == "write"]
        w += [cfg.position(c) for c in G.body.calls() if c.callee in must]
        return [x for x in w if x is not None]
    # helpers that set the field on every path to their exit (aln_split_setup): a call to one is a write in the caller
    must = set()
    for _ in range(3):
        grew = False
        for G in prog.lib_functions():
            if G.name in must or G.cfg is None:
                continue
            wp = write_positions(G, must)
            if wp and not G.cfg.reaches(None, G.cfg.exit, avoid=wp):
                must.add(G.name)
                grew = True
        if not grew:
            break
    for G in prog.lib_functions():
        if G.name not in must and any(c.callee in must for c in G.body.calls()):
            writers.add(G.name)
    for name in sorted(writers):
        G = cg.defined.get(name)
        if G is None:
            continue
        cfg = G.cfg
        wpos = write_positions(G, must)
        for c in G.body.calls():
            if c.callee in readers or (c.callee in reach_reader and c.callee not in writers):
                cp = cfg.position(c)
                if cp is not None and cfg.reaches(None, cp, avoid=wpos):
                    return (name, c.callee)
    # a reader reachable from a root that never passes a writer
    api = api_functions(prog)
    for root in api:
        seen = set()
        st = [root]
        while st:
            g = st.pop()
            if g in seen or g in writers:
                continue
            seen.add(g)
            if g in readers:
                return (root, g)
            st.extend(cg.edges.get(g, ()))
    return None


# --------------------------------------------------------------------------- R05m
def r05m(ck, prog):
    """bpm_block: the pattern-length cap fits the block tables: cap <= blocks x word bits for every
    fixed-size local table of the kernel, and the residue dimension of Peq equals SIGMA"""
    F = prog.fn("bpm_block")
    sigma = prog.macro_int("SIGMA")
    # the clamp  if(m > K) m = K
    caps = []
    for ifs in F.body.find("IfStmt"):
        c = ifs.child("cond").strip()
        if c.k == "BinaryOperator" and c.d["op"] in (">", ">=") and c.kids[1].cv is not None and c.kids[0].strip(casts=True).k == "DeclRefExpr" \
                and c.kids[0].strip(casts=True).d.get("dk") == "Parm":
            for a in ifs.child("then").find("BinaryOperator"):
                if a.d["op"] == "=" and a.kids[0].strip().text() == c.kids[0].strip(casts=True).text() and a.kids[1].cv is not None:
                    caps.append((c.kids[0].strip(casts=True).text(), a.kids[1].cv, c.kids[1].cv + (0 if c.d["op"] == ">" else -1), ifs))
    if len(caps) != 1:
        raise AnalysisBroken("R05m slot: pattern-length clamp of bpm_block not found (%d candidates)" % len(caps))
    pname, cap, thresh, node = caps[0]
    # the clamp must come before any use of the pattern length
    word_bits = None
    for d in F.body.find("DeclStmt"):
        pass
    for a in F.body.find("BinaryOperator"):
        if a.d["op"] == "=" and a.kids[0].strip().text() == "w_bytes" and a.kids[1].cv:
            word_bits = a.kids[1].cv * 8
    if word_bits is None:
        raise AnalysisBroken("R05m slot: word size of bpm_block not found")
    arrays = []
    for s in F.body.find("DeclStmt"):
        for dd in s.d["decls"]:
            m = re.match(r"^(\w[\w ]*?)((?:\[\d+\])+)$", dd.get("ty", ""))
            if m:
                dims = [int(x) for x in re.findall(r"\[(\d+)\]", m.group(2))]
                arrays.append((dd["name"], dims, s))
    where = site(prog, node, "cap")
    ck.inst("R05m", where, "bpm_block clamps the pattern to %d symbols (> %d); %d-bit words; local tables %s" % (
        cap, thresh, word_bits, [(n, d) for n, d, _ in arrays]), prog.config)
    if cap > thresh + 0 and cap != thresh:
        ck.violation("R05m", "R05m/bpm_block/clamp", where, "patterns longer than %d are clamped to %d" % (thresh, cap), prog.config)
    nblocks = -(-cap // word_bits)
    checked = 0
    for name, dims, s in arrays:
        blocks = dims[-1]
        checked += 1
        if blocks < nblocks:
            ck.violation("R05m", "R05m/bpm_block/%s" % name, site(prog, s, name),
                         "table %s has %d blocks of %d bits = %d symbols but patterns of up to %d symbols are processed" % (
                             name, blocks, word_bits, blocks * word_bits, cap), prog.config)
        if len(dims) == 2 and dims[0] != sigma:
            ck.violation("R05m", "R05m/bpm_block/%s-sigma" % name, site(prog, s, name),
                         "table %s has %d residue rows but SIGMA is %d" % (name, dims[0], sigma), prog.config)
    if checked < 3:
        raise AnalysisBroken("R05m slot: fixed-size tables of bpm_block not found")
    # the clamp precedes every other use of the length parameter
    cfg = F.cfg
    cpos = cfg.position(node.child("cond"))
    for r in F.body.refs(name=pname):
        if r.d.get("dk") == "Parm" and not r.within(node):
            rp = cfg.position(r)
            if rp is not None and cfg.reaches(None, rp, avoid=[cpos]):
                ck.violation("R05m", "R05m/bpm_block/clamp-late", site(prog, r),
                             "the pattern length is used before it is clamped", prog.config)
                break


# --------------------------------------------------------------------------- R05n
def r05n(ck, prog):
    """capacity contract of the DP workspace: resize_aln_mem guarantees  capacity >= g(len_a, len_b)  for the buffers it
    re-allocates; every counted loop in the library that indexes such a buffer must stay below that guarantee
    (affine comparison over m->len_a / m->len_b; undecided when the forms do not cancel)."""
    from ..affine import lin, Lin, loop_range, single_defs
    from ..util import local_defs
    R = prog.fn("resize_aln_mem")
    cfg = R.cfg
    guarantees = {}
    for ifs in R.body.find("IfStmt"):
        c = ifs.child("cond").strip()
        if not (c.k == "BinaryOperator" and c.d["op"] in (">", ">=")):
            continue
        gvar = c.kids[0].strip(casts=True)
        cap = c.kids[1].strip(casts=True)
        if gvar.k != "DeclRefExpr" or cap.k != "MemberExpr":
            continue
        # reaching definition of the requirement variable
        defs = [(r, n) for r, n in local_defs(R, gvar.d["did"]) if r is not None]
        reach = []
        pos_if = cfg.position(c)
        for r, n in defs:
            others = [cfg.position(n2) for r2, n2 in defs if n2 is not n]
            if cfg.reaches(cfg.position(n), pos_if, avoid=[o for o in others if o is not None]):
                reach.append(r)
        if len(reach) != 1:
            continue
        need = lin(reach[0])
        bufs = []
        for call in ifs.child("then").calls("realloc", "malloc"):
            for a in ifs.child("then").find("BinaryOperator"):
                pass
        for a in ifs.child("then").find("BinaryOperator"):
            if a.d["op"] == "=" and a.kids[1].strip(casts=True).k == "DeclRefExpr" and a.kids[1].strip(casts=True).d["name"] == "tmpp":
                t = a.kids[0].strip()
                if t.k == "MemberExpr":
                    bufs.append(t.d["field"])
        # the reallocation must be sized by the capacity that was just raised
        sized_by_cap = all(cap.d["field"] in x.text() for x in ifs.child("then").calls("realloc"))
        for b in bufs:
            guarantees[b] = (need, reach[0], cap.d["field"], sized_by_cap, ifs)
    if not guarantees:
        raise AnalysisBroken("R05n slot: no capacity guarantee recognised in resize_aln_mem")
    n = 0
    for b, (need, node, capf, ok_sz, ifs) in sorted(guarantees.items()):
        ck.inst("R05n", site(prog, ifs, b), "resize_aln_mem guarantees aln_mem.%s holds %s element(s) (capacity field %s)" % (
            b, need if need is not None else node.text(), capf), prog.config)
        if not ok_sz:
            ck.violation("R05n", "R05n/resize_aln_mem/%s-size" % b, site(prog, ifs), "the reallocation of %s is not sized by %s" % (b, capf), prog.config)
    for F in prog.lib_functions():
        if F.name in ("resize_aln_mem", "alloc_aln_mem", "free_aln_mem"):
            continue
        subst = single_defs(F)
        # names that denote one of the guaranteed buffers in this function
        alias = {}
        for t, l in list(subst.items()):
            pass
        for n_ in F.body.walk():
            rhs = None
            tgt = None
            if n_.k == "BinaryOperator" and n_.d["op"] == "=" and n_.kids[0].strip().k == "DeclRefExpr":
                tgt, rhs = n_.kids[0].strip().d["name"], n_.kids[1].strip(casts=True)
            elif n_.k == "DeclStmt":
                for kid in n_.kids:
                    if kid.role == "declinit":
                        r0 = kid.strip(casts=True)
                        if r0.k == "MemberExpr" and r0.d.get("rec") == "aln_mem" and r0.d["field"] in guarantees:
                            alias.setdefault(kid.decl["name"], set()).add(r0.d["field"])
                continue
            if rhs is not None and rhs.k == "MemberExpr" and rhs.d.get("rec") == "aln_mem" and rhs.d["field"] in guarantees:
                alias.setdefault(tgt, set()).add(rhs.d["field"])
        for sub in F.body.find("ArraySubscriptExpr"):
            base = sub.kids[0].strip(casts=True)
            fields = None
            if base.k == "MemberExpr" and base.d.get("rec") == "aln_mem" and base.d["field"] in guarantees:
                fields = {base.d["field"]}
            elif base.k == "DeclRefExpr" and base.d["name"] in alias:
                fields = alias[base.d["name"]]
            if not fields:
                continue
            idx = sub.kids[1].strip(casts=True)
            loops = [x for x in sub.ancestors() if x.k == "ForStmt"]
            rng = None
            for lp in loops:
                r = loop_range(lp, subst)
                if r is not None and r[0] == idx.text():
                    rng = r
                    break
            if rng is None:
                continue
            hi = rng[2]
            for f in fields:
                need = guarantees[f][0]
                if need is None:
                    continue
                diff = need.add(hi, -1)
                if not diff.is_const():
                    continue
                n += 1
                where = site(prog, sub, sub.text()[:40])
                ck.inst("R05n", where, "%s indexes aln_mem.%s up to %s (exclusive); guaranteed capacity %s" % (F.name, f, hi, need), prog.config)
                if diff.c < 0:
                    ck.violation("R05n", "R05n/%s/%s" % (F.name, f), where,
                                 "%s writes/reads aln_mem.%s up to index %s but resize_aln_mem only guarantees %s element(s): the two "
                                 "sites disagree by %d and the access runs past the allocation when the capacity is exactly met" % (
                                     F.name, f, hi.add(Lin(-1)), need, -diff.c), prog.config)
    ck.floor("R05n", n, 1, "decided uses of guaranteed buffers")


# --------------------------------------------------------------------------- R05o / R05p
_INF_PROG = [None]
_INF_DEPTH = [0]


def _inf_eval(n, names):
    """three-valued evaluation of a condition with every penalty in `names` bound to +infinity"""
    n = n.strip(casts=True)
    inf = float("inf")
    def val(x):
        x = x.strip(casts=True)
        if x.k == "DeclRefExpr" and x.d["name"] in names:
            return inf
        if x.k == "MemberExpr" and x.d["field"] in names:
            return inf
        v = const_value(x)
        return v
    if n.k == "CallExpr" and (n.callee or "").replace("__builtin_", "") in ("isfinite", "isinf", "isnan", "isinf_sign", "finite"):
        a = val(n.args[-1])
        if a is None:
            return None
        f = n.callee.replace("__builtin_", "")
        return {"isfinite": 0, "finite": 0, "isinf": 1, "isinf_sign": 1, "isnan": 0}[f]
    if n.k == "CallExpr" and n.callee and n.fn is not None and _INF_PROG[0] is not None and n.callee in _INF_PROG[0].functions and _INF_DEPTH[0] < 3:
        # a predicate helper:  static int ok(const struct aln_param* ap){ return isfinite(ap->gpo) && ...; }
        H = _INF_PROG[0].functions[n.callee]
        _INF_DEPTH[0] += 1
        try:
            for st in H.body.kids:
                if st.k == "IfStmt":
                    cv = _inf_eval(st.child("cond"), names)
                    rets = [r for r in st.child("then").find("ReturnStmt")] if st.child("then") is not None else []
                    if cv == 1 and rets and rets[0].kids:
                        return _inf_eval(rets[0].kids[0], names) if const_value(rets[0].kids[0]) is None else int(bool(const_value(rets[0].kids[0])))
                    if cv is None and rets:
                        return None
                elif st.k == "ReturnStmt" and st.kids:
                    cvv = const_value(st.kids[0])
                    return int(bool(cvv)) if cvv is not None else _inf_eval(st.kids[0], names)
            return None
        finally:
            _INF_DEPTH[0] -= 1
    if n.k == "UnaryOperator" and n.d["op"] == "!":
        v = _inf_eval(n.kids[0], names)
        return None if v is None else int(not v)
    if n.k == "BinaryOperator":
        op = n.d["op"]
        if op in ("&&", "||"):
            a, b = _inf_eval(n.kids[0], names), _inf_eval(n.kids[1], names)
            if op == "||":
                if a == 1 or b == 1:
                    return 1
                return 0 if a == 0 and b == 0 else None
            if a == 0 or b == 0:
                return 0
            return 1 if a == 1 and b == 1 else None
        a, b = val(n.kids[0]), val(n.kids[1])
        if a is None or b is None:
            return None
        return int({"<": a < b, ">": a > b, "<=": a <= b, ">=": a >= b, "==": a == b, "!=": a != b}.get(op, False))
    return None


def r05o(ck, prog):
    """an infinite gap penalty must be rejected before it reaches the DP: for each of gpo/gpe/tgpe some test in
    aln_param_init that is true for +inf sends control to the error exit"""
    F = prog.fn("aln_param_init")
    _INF_PROG[0] = prog
    for p in ("gpo", "gpe", "tgpe"):
        rejecting = []
        for ifs in F.body.find("IfStmt"):
            th = ifs.child("then")
            if th is None or not any(g.d["label"] == "ERROR" for g in th.find("GotoStmt")):
                continue
            if _inf_eval(ifs.child("cond"), {p}) == 1:
                rejecting.append(ifs)
        where = site(prog, rejecting[0] if rejecting else F, p)
        ck.inst("R05o", where, "aln_param_init: %d test(s) reject %s = +inf" % (len(rejecting), p), prog.config)
        if not rejecting:
            ck.violation("R05o", "R05o/aln_param_init/%s" % p, where,
                         "an infinite %s passes the '>= 0' override test and reaches the dynamic programming: every candidate "
                         "compares as -inf, no transition is chosen and the path buffer is over-read (kalign --%s inf crashes)" % (p, p),
                         prog.config)


def r05p(ck, prog):
    """a pointer array that replaces msa->sequences carries every element of the old array over: no slot of the
    replacement is filled with NULL (the records it stood for would be orphaned)"""
    n = 0
    for F in prog.lib_functions():
        for a in F.body.find("BinaryOperator"):
            if a.d["op"] != "=":
                continue
            l = a.kids[0].strip()
            r = a.kids[1].strip(casts=True)
            if not (l.k == "MemberExpr" and l.d.get("field") == "sequences" and l.d.get("rec") == "msa" and
                    r.k == "DeclRefExpr" and r.d.get("dk") == "Var"):
                continue
            # only replacements of an existing array (the old one is released in the same function)
            if not any("sequences" in x.text() for c in F.body.calls("free") for x in c.args):
                continue
            n += 1
            did = r.d["did"]
            where = site(prog, a, "sequences=%s" % r.text())
            nulls = []
            for s in F.body.find("BinaryOperator"):
                if s.d["op"] == "=" and s.kids[0].strip().k == "ArraySubscriptExpr":
                    b = s.kids[0].strip().kids[0].strip(casts=True)
                    if b.k == "DeclRefExpr" and b.d["did"] == did and _is_null(s.kids[1]):
                        nulls.append(s)
            ck.inst("R05p", where, "%s replaces msa->sequences by %s; %d NULL store(s) into the replacement" % (F.name, r.text(), len(nulls)), prog.config)
            for s in nulls:
                ck.violation("R05p", "R05p/%s/%s" % (F.name, r.text()), site(prog, s),
                             "%s fills a slot of the array that replaces msa->sequences with NULL: the record the old array held "
                             "there is neither carried over nor released (leak on the success path)" % F.name, prog.config)
    ck.floor("R05p", n, 1, "replacements of msa->sequences")


def r05j_local(ck, prog, functions=None, table=None):
    """growable arrays indexed by a local counter that the loop increments itself (not bounded by the loop
    condition): the element access must not be reachable from the increment / the loop entry without a comparison
    that involves the capacity field (sibling rule: read_clu tests alloc_numseq before sequences[active_seq])"""
    n_inst = 0
    for rec, bufs, cnt, cap in (table or GROWABLE):
        for F in (functions or prog.all_functions):
            if "/tests/" in F.file or F.cfg is None:
                continue
            cfg = F.cfg
            for sub in F.body.find("ArraySubscriptExpr"):
                b = sub.kids[0].strip(casts=True)
                if not (b.k == "MemberExpr" and b.d.get("rec") == rec and b.d["field"] in bufs):
                    continue
                v = sub.kids[1].strip(casts=True)
                if not (v.k == "DeclRefExpr" and v.d.get("dk") == "Var" and not v.d.get("g")):
                    continue
                loops = [a for a in sub.ancestors() if a.k in ("ForStmt", "WhileStmt", "DoStmt")]
                if not loops:
                    continue
                incs = []
                for lp in loops:
                    for u in lp.find("UnaryOperator"):
                        if u.d["op"] == "++" and u.kids[0].strip().k == "DeclRefExpr" and u.kids[0].strip().d["did"] == v.d["did"]:
                            # the increment clause of a counted for-loop is bounded by that loop's condition
                            q = u
                            while q.parent is not None and q.parent.k in ("ParenExpr", "ImplicitCastExpr"):
                                q = q.parent
                            if q.role == "inc" and q.parent is not None and q.parent.k == "ForStmt":
                                continue
                            # i++ at the end of  while(i < N){ ... }  is the same counted loop written with while
                            wc = lp.child("cond").strip(casts=True) if lp.k == "WhileStmt" and lp.child("cond") is not None else None
                            if wc is not None and wc.k == "BinaryOperator" and wc.d["op"] in ("<", "<=", "!=") and \
                                    wc.kids[0].strip(casts=True).k == "DeclRefExpr" and wc.kids[0].strip(casts=True).d["did"] == v.d["did"]:
                                continue
                            incs.append((u, lp))
                if not incs:
                    continue
                # bounded by the loop condition against the count / capacity field?  then not this rule's business
                bounded = False
                for lp in loops:
                    c = lp.child("cond")
                    if c is not None and any(r.d["did"] == v.d["did"] for r in c.find("DeclRefExpr")) and \
                            any(m.d.get("rec") == rec and m.d["field"] in (cnt, cap) for m in c.find("MemberExpr")):
                        bounded = True
                if not bounded:
                    # a compaction cursor: starts at 0, is incremented at most once per iteration of a counted loop [0, N) whose
                    # bound is the count / capacity field: cursor <= loop variable < N
                    from ..affine import loop_range as _lr, single_defs as _sd
                    for lp in loops:
                        rg = _lr(lp, _sd(F)) if lp.k == "ForStmt" else None
                        if rg is None or not (rg[1].is_const() and rg[1].c >= 0):
                            continue
                        hi_ok = rg[2].c <= 0 and len(rg[2].t) == 1 and list(rg[2].t.values()) == [1] and \
                            next(iter(rg[2].t)).split("->")[-1].split(".")[-1] in (cnt, cap)
                        mods = [u for u in F.body.walk() if ((u.k == "UnaryOperator" and u.d["op"] in ("++", "--")) or u.k == "CompoundAssignOperator" or
                                                             (u.k == "BinaryOperator" and u.d["op"] == "=")) and u.kids[0].strip().k == "DeclRefExpr" and
                                u.kids[0].strip().d["did"] == v.d["did"]]
                        inits = [d for d, _ in local_defs(F, v.d["did"]) if d is not None]
                        once = all(u.k == "UnaryOperator" and u.d["op"] == "++" and u.within(lp.child("body")) and
                                   not any(a.k in ("ForStmt", "WhileStmt", "DoStmt") and a.within(lp.child("body")) for a in u.ancestors()) for u in mods
                                   if not (u.k == "BinaryOperator"))
                        zero = bool(inits) and all(const_value(d) == 0 for d in inits) and \
                            not any(u.k == "BinaryOperator" and u.within(lp) for u in mods)
                        # the increments must lie on disjoint paths or be a single one: at most one per iteration
                        incs_in = [u for u in mods if u.k == "UnaryOperator"]
                        single = len(incs_in) == 1
                        if hi_ok and once and zero and single:
                            bounded = True
                            ck.inst("R05j", site(prog, sub, sub.text()[:40]), "%s: %s indexed by the compaction cursor %s <= %s < %s" % (
                                F.name, b.text(), v.text(), rg[0], rg[2]), prog.config)
                            n_inst += 1
                if bounded:
                    continue
                owner = b.kids[0].text() if b.kids else "?"
                checks = []
                for x in F.body.find("BinaryOperator"):
                    if x.d["op"] in ("==", ">=", "<=", ">", "<", "!=") and any(
                            m.d.get("rec") == rec and m.d["field"] == cap and m.kids and m.kids[0].text() == owner for m in x.find("MemberExpr")):
                        checks.append(cfg.position(x))
                checks = [c for c in checks if c is not None]
                n_inst += 1
                where = site(prog, sub, sub.text()[:40])
                ck.inst("R05j", where, "%s: %s indexed by local counter %s; %d capacity test(s) against %s" % (
                    F.name, b.text(), v.text(), len(checks), cap), prog.config)
                up_ = cfg.position(sub)
                bad = None
                for u, lp in incs:
                    if cfg.reaches(cfg.position(u), up_, avoid=checks):
                        bad = u
                        break
                if bad is not None:
                    ck.violation("R05j", "R05j/%s/%s[%s]" % (F.name, b.d["field"], v.text()), where,
                                 "%s is indexed by %s, which the loop keeps incrementing (%s), without a test against %s on the way "
                                 "back to this access: enough input rows run past the allocation (the sibling reader tests the "
                                 "capacity first)" % (b.text(), v.text(), site(prog, bad), cap), prog.config,
                                 path=[site(prog, bad), where])
    return n_inst


# --------------------------------------------------------------------------- R05r
def r05r(ck, prog, functions=None):
    """a loop bounded by the length of a line buffer must index that buffer - or account for the offset of the
    pointer it indexes: p = line + X needs i < len - X; a pointer at an unknown offset into the line (strstr result,
    p += k, p++) needs a test for the terminating NUL that leaves the loop"""
    from ..affine import lin, Lin, loop_range
    n = 0
    for F in (functions or prog.lib_functions()):
        if F.cfg is None:
            continue
        # (buffer var, length var) pairs:  line = E->line;  line_len = E->len;
        bufs, lens = {}, {}
        for a in F.body.find("BinaryOperator"):
            if a.d["op"] != "=" or a.kids[0].strip().k != "DeclRefExpr":
                continue
            r = a.kids[1].strip(casts=True)
            if r.k == "MemberExpr" and r.d.get("rec") == "in_line":
                key = r.kids[0].text()
                v = a.kids[0].strip()
                if r.d["field"] == "line":
                    bufs[v.d["did"]] = (v.d["name"], key)
                elif r.d["field"] == "len":
                    lens[key] = v.d["name"]
        if not bufs:
            continue
        for did, (bname, key) in bufs.items():
            lname = lens.get(key)
            if lname is None:
                continue
            # pointer variables that are ever derived from the buffer (flow-insensitive candidate set) ...
            cand = {did}
            grow = True
            while grow:
                grow = False
                for a in F.body.find("BinaryOperator"):
                    if a.d["op"] == "=" and a.kids[0].strip().k == "DeclRefExpr":
                        t = a.kids[0].strip().d["did"]
                        if t not in cand and any(r.d["did"] in cand for r in a.kids[1].find("DeclRefExpr")) and a.kids[0].ty.endswith("*"):
                            cand.add(t)
                            grow = True
            cfg = F.cfg

            def derivation(pdid, at):
                """... and what reaches a particular access (flow-sensitive): ('base'|'offset'|'unknown', Lin)"""
                if pdid == did:
                    return ("base", Lin(0))
                plain = [a for a in F.body.find("BinaryOperator") if a.d["op"] == "=" and a.kids[0].strip().k == "DeclRefExpr" and
                         a.kids[0].strip().d["did"] == pdid]
                bumps = [a for a in F.body.walk() if ((a.k == "CompoundAssignOperator" and a.d["op"] in ("+=", "-=")) or
                                                      (a.k == "UnaryOperator" and a.d["op"] in ("++", "--"))) and
                         a.kids[0].strip().k == "DeclRefExpr" and a.kids[0].strip().d["did"] == pdid]
                apos = cfg.position(at)
                ppos = [cfg.position(x) for x in plain]
                out = None
                for a_, pp in zip(plain, ppos):
                    if pp is None or not cfg.reaches(pp, apos, avoid=[q for q in ppos if q is not None and q != pp]):
                        continue
                    r = a_.kids[1].strip(casts=True)
                    if r.k == "DeclRefExpr" and r.d["did"] == did:
                        k = ("base", Lin(0))
                    elif r.k == "DeclRefExpr" and r.d["did"] in cand:
                        k = derivation(r.d["did"], a_)
                    else:
                        k = ("unknown", None)
                    others = [q for q in ppos if q is not None and q != pp]
                    live = [b_ for b_ in bumps if cfg.position(b_) is not None and cfg.reaches(pp, cfg.position(b_), avoid=others) and
                            cfg.reaches(cfg.position(b_), apos, avoid=others)]
                    for b_ in live:
                        if k[0] == "base" and b_.k == "CompoundAssignOperator" and b_.d["op"] == "+=" and lin(b_.kids[1]) is not None and len(live) == 1:
                            k = ("offset", lin(b_.kids[1]))
                        else:
                            k = ("unknown", None)
                    out = k if out is None or out == k else ("unknown", None)
                return out or ("unknown", None)
            ptrs = cand
            for sub in F.body.find("ArraySubscriptExpr"):
                b = sub.kids[0].strip(casts=True)
                if not (b.k == "DeclRefExpr" and b.d["did"] in ptrs):
                    continue
                idx = sub.kids[1].strip(casts=True)
                loops = [x for x in sub.ancestors() if x.k == "ForStmt"]
                rng = None
                for lp in loops:
                    r = loop_range(lp)
                    if r is not None and r[0] == idx.text():
                        rng = (r, lp)
                        break
                if rng is None:
                    continue
                (var, lo, hi), lp = rng
                if lname not in hi.t:
                    continue
                n += 1
                kind, off = derivation(b.d["did"], sub)
                where = site(prog, sub, sub.text())
                ck.inst("R05r", where, "%s: %s (%s%s of %s) indexed for %s in [%s, %s); buffer holds %s+1 bytes" % (
                    F.name, b.text(), kind, " " + repr(off) if off is not None else "", bname, var, lo, hi, lname), prog.config)
                if kind == "unknown":
                    # needs a NUL test on the same element that leaves the loop
                    ok = False
                    for t in lp.find("BinaryOperator"):
                        if t.d["op"] in ("==", "!=") and any(const_value(k) == 0 for k in t.kids) and \
                                any(k.strip(casts=True).text() == sub.text() for k in t.kids):
                            anc = t
                            while anc is not None and anc.k != "IfStmt":
                                anc = anc.parent
                            if anc is not None and any(x.k == "BreakStmt" for x in anc.child("then").walk()):
                                ok = True
                    if not ok:
                        ck.violation("R05r", "R05r/%s/%s" % (F.name, b.text()), where,
                                     "%s points somewhere inside %s (strstr / += / ++), yet the loop indexes it up to %s, the length of "
                                     "the whole line, without testing for the terminating NUL: a line in which nothing stops the "
                                     "copy earlier is read past its end" % (b.text(), bname, hi), prog.config)
                else:
                    tot = hi.add(off if off is not None else Lin(0)).add(Lin(0, {lname: 1}), -1)
                    if tot.is_const() and tot.c > 1:
                        ck.violation("R05r", "R05r/%s/%s" % (F.name, b.text()), where,
                                     "%s is indexed up to %s at offset %s of %s: %d byte(s) past the %s+1 bytes of the line" % (
                                         b.text(), hi, off, bname, tot.c - 1, lname), prog.config)
    return n


# --------------------------------------------------------------------------- R05s
def r05s(ck, prog):
    """gap counters are zeroed over everything that is (re)allocated for them: in every function that allocates
    msa_seq.gaps, the loop(s) storing 0 into gaps[i] end exactly at the allocated element count"""
    from ..affine import lin, Lin, single_defs, loop_range, alloc_sites
    n = 0
    for F in prog.lib_functions():
        allocs3 = [(t, sz, c) for t, sz, c in alloc_sites(F) if t.k == "MemberExpr" and t.d.get("field") == "gaps" and t.d.get("rec") == "msa_seq"]
        if not allocs3:
            continue
        if all(c.callee == "calloc" for _, _, c in allocs3):
            n += 1
            ck.inst("R05s", site(prog, allocs3[0][0], "gaps"), "%s allocates gaps with calloc: every counter starts at zero" % F.name, prog.config)
            continue
        if any(c.callee == "calloc" for _, _, c in allocs3):
            raise AnalysisBroken("R05s: %s mixes calloc and malloc/realloc for msa_seq.gaps" % F.name)
        allocs = [(t, sz) for t, sz, c in allocs3]
        subst = single_defs(F)
        es = None
        for t, sz in allocs:
            L = lin(sz, subst)
            szs = [x.cv for x in sz.walk() if x.k == "UnaryExprOrTypeTraitExpr" and x.cv]
            if L is None or len(set(szs)) != 1 or L.div(szs[0]) is None:
                raise AnalysisBroken("R05s: allocation size of msa_seq.gaps in %s is not affine" % F.name)
            es = L.div(szs[0])
        his = []
        for a in F.body.find("BinaryOperator"):
            if a.d["op"] == "=" and const_value(a.kids[1]) == 0 and a.kids[0].strip().k == "ArraySubscriptExpr":
                b = a.kids[0].strip().kids[0].strip(casts=True)
                if b.k == "MemberExpr" and b.d.get("field") == "gaps" and b.d.get("rec") == "msa_seq":
                    loops = [x for x in a.ancestors() if x.k == "ForStmt"]
                    rng = loop_range(loops[0], subst) if loops else None
                    if rng is None:
                        raise AnalysisBroken("R05s: the loop zeroing msa_seq.gaps in %s is not a recognised counting loop" % F.name)
                    his.append((rng, a))
        for c in F.body.calls("memset"):
            if len(c.args) != 3 or const_value(c.args[1]) != 0:
                continue
            d = c.args[0].strip(casts=True)
            off = Lin(0)
            while d.k == "BinaryOperator" and d.d["op"] == "+":
                o = lin(d.kids[1], subst)
                if o is None:
                    break
                off = off.add(o)
                d = d.kids[0].strip(casts=True)
            if not (d.k == "MemberExpr" and d.d.get("field") == "gaps" and d.d.get("rec") == "msa_seq"):
                continue
            L = lin(c.args[2], subst)
            szs = [x.cv for x in c.args[2].walk() if x.k == "UnaryExprOrTypeTraitExpr" and x.cv]
            if L is None or len(set(szs)) != 1 or L.div(szs[0]) is None:
                raise AnalysisBroken("R05s: the memset that clears msa_seq.gaps in %s has a size that is not affine" % F.name)
            his.append((("memset", off, off.add(L.div(szs[0]))), c))
        n += 1
        where = site(prog, allocs[0][0], "gaps")
        if not his:
            ck.inst("R05s", where, "%s allocates gaps with %s element(s); no zeroing loop" % (F.name, es), prog.config)
            ck.violation("R05s", "R05s/%s/gaps-uninitialised" % F.name, where,
                         "%s (re)allocates msa_seq.gaps but never zeroes it: gap counters start from stale heap contents" % F.name, prog.config)
            continue
        top = None
        for (var, lo, hi), a in his:
            d = es.add(hi, -1)
            ck.inst("R05s", site(prog, a, "gaps[i]=0"), "%s: gaps allocated with %s, zeroed over [%s, %s)" % (F.name, es, lo, hi), prog.config)
            if d.is_const():
                top = d.c if top is None else min(top, d.c)
        if top is None:
            raise AnalysisBroken("R05s: zeroing bound and allocation size of msa_seq.gaps in %s are not comparable" % F.name)
        # a re-allocation keeps the counters that were there: clearing must start right behind them.  The old count is
        # (old alloc_len) + 1 by the allocation invariant above, where `old alloc_len` is a local that saved the field
        # before it was increased
        if any(c.callee == "realloc" for _, _, c in allocs3):
            upd = [a for a, l, r in stores_to_field(F.body, "msa_seq", "alloc_len")]
            for (var, lo, hi), a in his:
                if var == "memset":
                    lo_raw = None
                    d0 = a.args[0].strip(casts=True)
                    if d0.k == "BinaryOperator" and d0.d["op"] == "+":
                        lo_raw = lin(d0.kids[1]) if d0.kids[0].strip(casts=True).k == "MemberExpr" else None
                        if lo_raw is None:      # gaps + old_len + 1 parses as (gaps + old_len) + 1
                            inner = d0.kids[0].strip(casts=True)
                            if inner.k == "BinaryOperator" and inner.d["op"] == "+":
                                x, y = lin(inner.kids[1]), lin(d0.kids[1])
                                lo_raw = x.add(y) if x is not None and y is not None else None
                else:
                    loops = [x for x in a.ancestors() if x.k == "ForStmt"]
                    rr = loop_range(loops[0]) if loops else None
                    lo_raw = rr[1] if rr else None
                if lo_raw is None or len(lo_raw.t) != 1 or list(lo_raw.t.values()) != [1]:
                    raise AnalysisBroken("R05s: start of the clearing of re-allocated gaps in %s is not `saved length + constant`" % F.name)
                vname = list(lo_raw.t)[0]
                saved = [(d_, nd) for r_ in F.body.find("DeclRefExpr") if r_.d.get("name") == vname and r_.d.get("dk") == "Var"
                         for d_, nd in local_defs(F, r_.d["did"])][:1]
                ok_saved = bool(saved) and saved[0][0] is not None and saved[0][0].strip(casts=True).k == "MemberExpr" \
                    and saved[0][0].strip(casts=True).d.get("field") == "alloc_len"
                if ok_saved and upd:
                    sp, up = F.cfg.position(saved[0][1]), F.cfg.position(upd[0])
                    ok_saved = sp is not None and up is not None and F.cfg.reaches(sp, up) and not F.cfg.reaches(up, sp)
                if not ok_saved:
                    raise AnalysisBroken("R05s: %s in %s is not a copy of alloc_len taken before it is increased" % (vname, F.name))
                ck.inst("R05s", site(prog, a, "gaps clear start"), "%s: clearing of the re-allocated counters starts at %s (old count = %s + 1)" % (F.name, lo_raw, vname), prog.config)
                if lo_raw.c < 1:
                    # clearing a slot of the old array is harmless exactly when that slot cannot have been used: slot alloc_len
                    # is used only while len == alloc_len, which never holds between characters if every `len++` is followed
                    # at once by `if (alloc_len == len) resize` (grow right after the store)
                    lazy = _len_increments_without_growth(prog)
                    if not lazy:
                        ck.info("R05s", "%s clears from index %s (one slot of the old array): harmless, every len++ is followed at once by the "
                                        "growth check, so slot alloc_len is never in use" % (F.name, lo_raw))
                    else:
                        G, inc = lazy[0]
                        ck.violation("R05s", "R05s/%s/gaps-head" % F.name, site(prog, a, "gaps"),
                                     "%s clears the re-allocated gap counters from index %s, but the old array held %s + 1 counters, and %s "
                                     "(line %d) lets a sequence sit at len == alloc_len between characters: gaps counted into gaps[len] in that "
                                     "state are wiped when the array grows" % (F.name, lo_raw, vname, G.name, inc.line), prog.config)
                elif lo_raw.c > 1:
                    ck.violation("R05s", "R05s/%s/gaps-hole" % F.name, site(prog, a, "gaps"),
                                 "%s clears the re-allocated gap counters from index %s, but the old array held only %s + 1 counters: slot(s) in "
                                 "between keep stale heap contents" % (F.name, lo_raw, vname), prog.config)
        if top > 0:
            ck.violation("R05s", "R05s/%s/gaps-tail" % F.name, where,
                         "%s allocates %s gap counters but zeroes %d fewer: the last slot(s) keep stale heap contents and are later "
                         "summed as gaps (the result depends on what earlier calls left on the heap)" % (F.name, es, top), prog.config)
    ck.floor("R05s", n, 3, "allocators of msa_seq.gaps")


def _len_increments_without_growth(prog):
    """[(function, node)] for every `X->len++` on an msa_seq that is not followed, as the next statement of its block, by
    `if (X->alloc_len == X->len) resize_...`"""
    out = []
    for G in prog.lib_functions():
        for u in G.body.find("UnaryOperator"):
            if u.d["op"] != "++":
                continue
            t = u.kids[0].strip()
            if not (t.k == "MemberExpr" and t.d.get("field") == "len" and t.d.get("rec") == "msa_seq"):
                continue
            blk = u.parent
            while blk is not None and blk.k != "CompoundStmt":
                blk = blk.parent
            nxt = None
            if blk is not None:
                ks = blk.kids
                for i, st in enumerate(ks):
                    if st is u or u.within(st):
                        nxt = ks[i + 1] if i + 1 < len(ks) else None
                        break
            ok = False
            if nxt is not None and nxt.k == "IfStmt":
                c = nxt.child("cond")
                fields = {m.d.get("field") for m in c.find("MemberExpr")}
                if {"alloc_len", "len"} <= fields and any((x.callee or "").startswith("resize_") for x in nxt.child("then").find("CallExpr")):
                    ok = True
            if not ok:
                out.append((G, u))
    return out


# --------------------------------------------------------------------------- R05t
def r05t(ck, prog):
    """a va_list is walked once: between va_start (or function entry, for a va_list parameter) and va_end, at most one
    call receives the list on any path - a second v*printf on the same list reads indeterminate arguments (C11 7.16/3)"""
    n = 0
    for F in prog.all_functions:
        if F.cfg is None or F.body is None:
            continue
        vars_ = {}
        for r in F.body.find("DeclRefExpr"):
            if "__va_list_tag" in r.ty and r.d.get("dk") in ("Var", "Parm"):
                vars_.setdefault(r.d["did"], r.d["name"])
        for did, name in vars_.items():
            uses, restarts = [], []
            for c in F.body.calls():
                if not any(x.k == "DeclRefExpr" and x.d.get("did") == did for a in c.kids[1:] for x in a.walk()):
                    continue
                cal = c.callee or ""
                if cal in ("__builtin_va_start", "va_start", "__builtin_va_copy", "va_copy") and \
                        any(x.k == "DeclRefExpr" and x.d.get("did") == did for x in c.kids[1].walk()):
                    restarts.append(c)
                elif cal in ("__builtin_va_end", "va_end", "__builtin_va_copy", "va_copy"):
                    continue
                elif cal == "__builtin_va_arg":
                    continue
                else:
                    uses.append(c)
            n += 1
            where = site(prog, uses[0] if uses else F, name)
            ck.inst("R05t", where, "%s: va_list %s is handed to %s" % (F.name, name, [u.callee for u in uses]), prog.config)
            rpos = [F.cfg.position(r) for r in restarts]
            for u in uses:
                for u2 in uses:
                    pu, pu2 = F.cfg.position(u), F.cfg.position(u2)
                    if pu is None or pu2 is None:
                        continue
                    if F.cfg.reaches(pu, pu2, avoid=[x for x in rpos if x is not None]):
                        ck.violation("R05t", "R05t/%s/%s" % (F.name, name), site(prog, u2, name),
                                     "%s passes the va_list %s to %s after %s (line %d) has already consumed it, without va_end/va_start or "
                                     "va_copy in between: the second callee reads indeterminate arguments (wild %%s pointer)" % (
                                         F.name, name, u2.callee, u.callee, u.line), prog.config)
                        break
    ck.floor("R05t", n, 3, "va_list variables")


# --------------------------------------------------------------------------- R05u
def r05u(ck, prog):
    """fclose is never handed a NULL stream: a call fclose(f) that is not guarded by a test of f is reachable neither from the
    failure branch of the `f = fopen(...)` test (where f is NULL) nor from the function entry without any assignment to f"""
    n = 0
    for F in prog.all_functions:
        if F.body is None or F.cfg is None or "/tests/" in F.file:
            continue
        cfg = F.cfg
        for c in F.body.calls("fclose"):
            a0 = c.args[0].strip(casts=True) if c.args else None
            if a0 is None or a0.k != "DeclRefExpr" or a0.d.get("dk") != "Var" or a0.d.get("g"):
                continue
            did, name = a0.d["did"], a0.d["name"]
            n += 1
            where = site(prog, c, "fclose(%s)" % name)
            tested = False
            for cond, pol in guards(c):
                c0 = cond.strip(casts=True)
                if c0.k == "DeclRefExpr" and c0.d.get("did") == did and pol:
                    tested = True
                if c0.k == "BinaryOperator" and c0.d["op"] == "!=" and any(r.d.get("did") == did for r in c0.find("DeclRefExpr")) and pol:
                    tested = True
            ck.inst("R05u", where, "%s: fclose(%s)%s" % (F.name, name, " under a test of the stream" if tested else ""), prog.config)
            if tested:
                continue
            pc = cfg.position(c)
            assigns = [a for a in F.body.find("BinaryOperator") if a.d["op"] == "=" and a.kids[0].strip().k == "DeclRefExpr"
                       and a.kids[0].strip().d["did"] == did]
            nonnull = [a for a in assigns if not (a.kids[1].strip(casts=True).cv == 0 or "NULL" in "".join(a.kids[1].strip(casts=True).mac))]
            apos = [cfg.position(a) for a in nonnull]
            apos = [x for x in apos if x is not None]
            bad = None
            # (a) the failure branch of `if ((f = fopen(..)) == NULL) { ...; goto ERROR; }`
            for a in nonnull:
                if not any(x.k == "CallExpr" and x.callee in ("fopen", "fdopen", "freopen", "tmpfile") for x in a.kids[1].walk()):
                    continue
                for ifs in F.body.find("IfStmt"):
                    if not a.within(ifs.child("cond")):
                        continue
                    for g in ifs.child("then").find("GotoStmt"):
                        gp = cfg.position(g)
                        if gp is not None and pc is not None and cfg.reaches(gp, pc, avoid=apos):
                            bad = "the failure branch of the fopen test at line %d (goto %s)" % (ifs.line, g.d["label"])
            # (b) from the entry without any assignment of a stream
            if bad is None and pc is not None and cfg.reaches(None, pc, avoid=apos) and not any(
                    dd.get("did") == did and dd.get("init") is not None and False for s_ in F.body.find("DeclStmt") for dd in s_.d["decls"]):
                bad = "the function entry, before any stream is assigned to %s" % name
            if bad:
                ck.violation("R05u", "R05u/%s/%s" % (F.name, name), where,
                             "%s calls fclose(%s) on a path that comes from %s: %s is NULL there, fclose(NULL) crashes instead of the "
                             "failure being reported" % (F.name, name, bad, name), prog.config)
    ck.floor("R05u", n, 4, "fclose calls on local streams")


# --------------------------------------------------------------------------- R05w
def r05w(ck, prog):
    """a buffer filled through a local counter: buf is allocated in the function with S elements, the counter c starts at a
    constant and is incremented by one statement of one counting loop with trip count T (resets to a constant allowed); then
    c <= T, so a store buf[c] inside the loop before the increment needs S - T >= 0 and a store after the loop (the
    terminator) needs S - T >= 1.  Decided when S - T is a constant; otherwise not decided (note)"""
    from ..affine import lin, Lin, single_defs, loop_range, alloc_sites
    n = 0
    for F in prog.all_functions:
        if F.body is None or F.cfg is None or "/tests/" in F.file:
            continue
        allocs = {}
        for t, sz, c in alloc_sites(F):
            if t.k == "DeclRefExpr" and c.callee in ("malloc", "calloc"):
                allocs.setdefault(t.d["did"], []).append((t, sz, c))
        if not allocs:
            continue
        subst = None
        for st in F.body.find("BinaryOperator"):
            if st.d["op"] != "=" or st.kids[0].strip().k != "ArraySubscriptExpr":
                continue
            sub = st.kids[0].strip()
            b, i = sub.kids[0].strip(casts=True), sub.kids[1].strip(casts=True)
            if not (b.k == "DeclRefExpr" and b.d["did"] in allocs and len(allocs[b.d["did"]]) == 1 and i.k == "DeclRefExpr" and i.d.get("dk") == "Var"):
                continue
            defs = local_defs(F, i.d["did"])
            consts = [d for d, nd in defs if d is not None]
            incs = [nd for d, nd in defs if d is None]
            if not incs or any(const_value(d) is None for d in consts) or not all(nd.k == "UnaryOperator" and nd.d["op"] == "++" for nd in incs):
                continue
            loops = {id(next((x for x in nd.ancestors() if x.k in ("ForStmt", "WhileStmt")), None)): next((x for x in nd.ancestors() if x.k in ("ForStmt", "WhileStmt")), None) for nd in incs}
            if len(loops) != 1 or None in loops.values() or len(incs) != 1:
                continue
            L = list(loops.values())[0]
            if any(x.k in ("ForStmt", "WhileStmt") and incs[0].within(x) for x in L.child("body").walk() if x is not L):
                continue                # the increment sits in a nested loop: more than one per iteration
            if subst is None:
                subst = single_defs(F)
            rng = loop_range(L, subst)
            t, sz, call = allocs[b.d["did"]][0]
            S = lin(sz, subst)
            szs = [x.cv for x in sz.walk() if x.k == "UnaryExprOrTypeTraitExpr" and x.cv]
            if rng is None or S is None or len(set(szs)) > 1 or rng[0] == i.d["name"]:
                continue
            if szs and S.div(szs[0]) is not None:
                S = S.div(szs[0])
            T = rng[2].add(rng[1], -1)
            base = max(const_value(d) for d in consts) if consts else 0
            slack = S.add(T, -1).add(Lin(base), -1)
            inside = st.within(L)
            need = 0 if inside else 1
            n += 1
            where = site(prog, st, "%s[%s]" % (b.d["name"], i.d["name"]))
            ck.inst("R05w", where, "%s: %s holds %s elements, %s is incremented at most %s times; store %s the loop: slack %s (needs >= %d)" % (
                F.name, b.d["name"], S, i.d["name"], T, "inside" if inside else "after", slack, need), prog.config)
            if slack.is_const() and slack.c < need:
                ck.violation("R05w", "R05w/%s/%s" % (F.name, b.d["name"]), where,
                             "%s allocates %s elements for %s but %s can reach %s when every iteration of the loop at line %d increments it: the "
                             "store %s writes one element past the allocation" % (
                                 F.name, S, b.d["name"], i.d["name"], T.add(Lin(base)), L.line, st.text()[:30]), prog.config)
    ck.floor("R05w", n, 2, "counter-indexed stores into local allocations")
