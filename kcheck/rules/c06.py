"""C06 — alignments survive a write/read round trip (lexical contract clauses only).

Decided: the tokens the reader needs to recognise and parse a format are substrings of what the
writer of that format emits, and detection tokens of one format do not occur in another writer
(R06a); copies into msa_seq.name are bounded by the allocation they write into (R06b); sequences
are identified by position or by full-length name comparison, never by a prefix match (R06c).
Not decided: equality of the re-read alignment.
"""
import re

from ..build import AnalysisBroken
from ..callgraph import CallGraph
from ..util import site, guards, macro_of_const, const_value, local_defs, stores_to_field
from ..affine import lin, single_defs

FORMATS = {"FORMAT_FA": "fasta", "FORMAT_MSF": "msf", "FORMAT_CLU": "clu"}


def describe(ck):
    ck.rule("R06i", "the effect summary of kalign_write_msa shows no store into rows, names or gap counts of the msa it writes")
    ck.rule("R06n", "rows are written block by block in the order of the msa (= R15m): the block readers assign rows by position")
    ck.rule("R06m", "a scanf scanset used to read a name accepts letters, digits and _ . | -")
    ck.rule("R06l", "a reader that grows a sequence record keeps the gap counts it has already counted: the clearing of the re-allocated counters starts behind the slots in use (= R05s)")
    ck.rule("R06k", "every path to a call of kalign_write_msa runs something that can set ALN_STATUS_FINAL first: a function that writes an msa without being able to render it can only fail")
    ck.rule("R06j", "every string write_msa_msf formats into a line is a literal, a sequence name, a strftime date without '/' or the base name from tlfilename - not a caller-supplied path")
    ck.rule("R06h", "the test that makes a block line the next row of read_clu / read_msf is equivalent to `first character is not a blank` for every byte value")
    ck.rule("R06a", "for each format: every token the reader searches for is a substring of a literal the writer of that format emits, and no detection token of format X occurs in a writer literal of format Y")
    ck.rule("R06b", "every copy into msa_seq.name in a reader is bounded by the buffer it writes into (MSA_NAME_LEN-1 guard or allocation size = copy length)")
    ck.rule("R06c", "rows are associated with sequences by position or full-length name comparison; a strncmp whose length is the strlen of one operand (prefix match) does not select a sequence")
    ck.rule("R06e", "lines of any width are read whole (names of 200 characters make block rows of 265+ columns) (= R04h)")
    ck.rule("R06d", "writers emit exactly the columns [0, alnlen) of every row (= R15e; recognised loop shapes only, otherwise no verdict)")
    ck.not_decided += ["equality of the re-read alignment (parser semantics over all names and widths)"]


def _printf_like(prog, call, argnode):
    """the literal is the format of a private formatting helper of the writers: the callee is defined outside the logging
    module and hands the parameter that receives the literal to a v*printf / *printf call as the format"""
    H = prog.functions.get(call.callee) if call.callee else None
    if H is None or H.body is None or H.file.endswith("tldevel.c"):
        return False
    idx = next((i for i, a in enumerate(call.args) if argnode.within(a) or a is argnode), None)
    if idx is None or idx >= len(H.params):
        return False
    did = H.params[idx]["did"]
    for c in H.body.calls("vsnprintf", "vfprintf", "vsprintf", "vprintf", "snprintf", "fprintf", "sprintf"):
        if any(a.strip(casts=True).k == "DeclRefExpr" and a.strip(casts=True).d.get("did") == did for a in c.args):
            return True
    return False


def writer_literals(prog, cg):
    """format constant -> (writer function, all string literals reachable from it)"""
    K = prog.fn("kalign_write_msa")
    out = {}
    for ifs in K.body.find("IfStmt"):
        c = ifs.child("cond").strip()
        if c.k != "BinaryOperator" or c.d["op"] != "==":
            continue
        fm = [macro_of_const(l) for l in c.find("IntegerLiteral")]
        fm = [f for f in fm if f in FORMATS]
        if not fm:
            continue
        calls = [x.callee for x in ifs.child("then").calls() if x.callee and x.callee.startswith("write_msa")]
        if len(calls) != 1:
            continue
        W = calls[0]
        lits = []
        for fn in sorted(cg.reachable({W})):
            G = cg.defined.get(fn)
            if G is None:
                continue
            for l in G.body.find("StringLiteral"):
                # only literals that reach the output: arguments of printf-family / stores into line buffers
                p, ch = l.up(casts=True)
                if p is not None and p.k == "CallExpr" and (p.callee in ("fprintf", "snprintf", "sprintf", "printf", "fputs")
                                                            or _printf_like(prog, p, ch)):
                    lits.append(l.d.get("s", ""))
        out[fm[0]] = (W, lits)
    if set(out) != set(FORMATS):
        from ..util import switch_table
        for sw in K.body.find("SwitchStmt"):
            for labels, stmts in switch_table(sw):
                fm = [lab[2] for lab in labels if lab[0] == "case" and lab[2] in FORMATS]
                calls = [x.callee for st in stmts for x in st.calls() if x.callee and x.callee.startswith("write_msa")]
                if len(fm) == 1 and len(calls) == 1:
                    W = calls[0]
                    lits = []
                    for fn in sorted(cg.reachable({W})):
                        G = cg.defined.get(fn)
                        if G is None:
                            continue
                        for l in G.body.find("StringLiteral"):
                            p_, ch = l.up(casts=True)
                            if p_ is not None and p_.k == "CallExpr" and p_.callee in ("fprintf", "snprintf", "sprintf", "printf", "fputs"):
                                lits.append(l.d.get("s", ""))
                    out[fm[0]] = (W, lits)
    if set(out) != set(FORMATS):
        raise AnalysisBroken("R06a slot: writers per format not resolved in kalign_write_msa (%s)" % sorted(out))
    return out


def detection_tokens(prog):
    """format constant -> list of (token, node) from detect_alignment_format: hints[k]++ under strstr(line, tok) /
    line[0] == 'c', and hints[k] -> *type = FORMAT_x"""
    D = prog.fn("detect_alignment_format")
    hint_tokens = {}
    for u in D.body.find("UnaryOperator"):
        if u.d["op"] != "++":
            continue
        t = u.kids[0].strip()
        if t.k != "ArraySubscriptExpr" or t.kids[0].strip(casts=True).text() != "hints" or t.kids[1].cv is None:
            continue
        k = t.kids[1].cv
        for c, pol in guards(u):
            if not pol:
                continue
            for call in c.calls("strstr"):
                a = call.args[1].strip(casts=True)
                if a.k == "StringLiteral":
                    hint_tokens.setdefault(k, []).append((a.d["s"], call, "substring"))
            c0 = c.strip()
            if c0.k == "BinaryOperator" and c0.d["op"] == "==":
                for side in c0.kids:
                    s0 = side.strip(casts=True)
                    if s0.k == "CharacterLiteral":
                        hint_tokens.setdefault(k, []).append((chr(s0.d["v"]), c0, "line-start"))
    fmt_of_hint = {}
    for a in D.body.find("BinaryOperator"):
        if a.d["op"] != "=":
            continue
        m = macro_of_const(a.kids[1].strip(casts=True))
        if m in FORMATS:
            for c, pol in guards(a):
                c0 = c.strip(casts=True)
                if c0.k == "ArraySubscriptExpr" and c0.kids[0].strip(casts=True).text() == "hints" and c0.kids[1].cv is not None and pol:
                    fmt_of_hint[c0.kids[1].cv] = m
    out = {}
    for k, toks in hint_tokens.items():
        if k not in fmt_of_hint:
            raise AnalysisBroken("R06a slot: hints[%d] is counted but selects no format" % k)
        out.setdefault(fmt_of_hint[k], []).extend(toks)
    if set(out) != set(FORMATS):
        raise AnalysisBroken("R06a slot: detection tokens per format not resolved (%s)" % sorted(out))
    return out


def r06a(ck, prog):
    cg = CallGraph(prog)
    W = writer_literals(prog, cg)
    det = detection_tokens(prog)
    n = 0
    for fmt, toks in sorted(det.items()):
        wname, lits = W[fmt]
        found_any = False
        for tok, node, kind in toks:
            n += 1
            if kind == "line-start":
                hit = any(l.startswith(tok) for l in lits)
            else:
                hit = any(tok in l for l in lits)
            found_any = found_any or hit
            ck.inst("R06a", site(prog, node, "%s:%s" % (fmt, tok)), "%s detection token %r %s by %s" % (
                FORMATS[fmt], tok, "emitted" if hit else "not emitted", wname), prog.config)
            # the probe runs over the first lines of any file, residue lines included: a token made of letters only can be
            # spelled by the residues of another format's file (C, L, U, S, T, A are all residue letters)
            if kind != "line-start" and tok.isalpha():
                ck.violation("R06a", "R06a/detect_alignment_format/%s-letters-only" % tok, site(prog, node),
                             "the %s detection token %r consists of letters only: a FASTA or MSF file whose residues (or names) spell it "
                             "in one of the probed lines is read as %s" % (FORMATS[fmt], tok, FORMATS[fmt]), prog.config)
            # must not be produced by another format's writer
            for other, (ow, olits) in W.items():
                if other == fmt:
                    continue
                bad = [l for l in olits if (l.startswith(tok) if kind == "line-start" else tok in l)]
                if bad:
                    ck.violation("R06a", "R06a/%s/%s-in-%s" % (ow, tok.strip(), FORMATS[fmt]), site(prog, node),
                                 "%s writes %r, which contains the %s detection token %r: kalign's own %s output is "
                                 "detected ambiguously (two formats hinted => detection fails)" % (
                                     ow, bad[0], FORMATS[fmt], tok, FORMATS[other]), prog.config)
        if not found_any:
            ck.violation("R06a", "R06a/%s/undetectable" % wname, site(prog, prog.fn(wname)),
                         "no detection token of the %s format %s occurs in what %s writes: kalign cannot re-read its own output" % (
                             FORMATS[fmt], [t for t, _, _ in toks], wname), prog.config)
    # parsing tokens of read_msf
    R = prog.fn("read_msf")
    wname, lits = W["FORMAT_MSF"]
    for call in R.body.calls("strstr"):
        a = call.args[1].strip(casts=True)
        if a.k != "StringLiteral":
            continue
        n += 1
        tok = a.d["s"]
        hit = any(tok in l for l in lits)
        ck.inst("R06a", site(prog, call, "msf:%s" % tok), "read_msf searches for %r; %s by %s" % (
            tok, "emitted" if hit else "NOT emitted", wname), prog.config)
        if not hit:
            ck.violation("R06a", "R06a/read_msf/%s" % tok.strip(), site(prog, call),
                         "read_msf needs the token %r, which %s never writes" % (tok, wname), prog.config)
    # what read_clu searches for (e.g. to find the header line) must be something write_msa_clu writes
    RC = prog.fn("read_clu")
    cname, clits = W["FORMAT_CLU"]
    for G in [RC] + [prog.functions[c.callee] for c in RC.body.calls() if c.callee in prog.functions and prog.functions[c.callee].static and prog.functions[c.callee].file == RC.file]:
        for call in G.body.calls("strstr", "strncmp", "strcmp"):
            lit = next((a.strip(casts=True) for a in call.args if a.strip(casts=True).k == "StringLiteral"), None)
            if lit is None:
                continue
            n += 1
            tok = lit.d["s"]
            hit = any(tok in l for l in clits)
            ck.inst("R06a", site(prog, call, "clu:%s" % tok), "read_clu looks for %r; %s by %s" % (tok, "emitted" if hit else "NOT emitted", cname), prog.config)
            if not hit:
                ck.violation("R06a", "R06a/read_clu/%s" % tok.strip(), site(prog, call),
                             "read_clu looks for the token %r, which %s never writes: kalign's own Clustal output (and every file with "
                             "another program's header) is parsed differently from what the reader expects" % (tok, cname), prog.config)
    # the literal skip after "Name:" must equal the token's length
    for a in R.body.find("CompoundAssignOperator"):
        if a.d["op"] == "+=" and a.kids[1].cv is not None:
            tgt = a.kids[0].strip()
            if tgt.k == "DeclRefExpr":
                defs = [r for r, nn in local_defs(R, tgt.d["did"]) if r is not None]
                for r in defs:
                    for c in r.calls("strstr"):
                        t = c.args[1].strip(casts=True)
                        if t.k == "StringLiteral":
                            n += 1
                            ck.inst("R06a", site(prog, a, "skip"), "pointer from strstr(%r) advanced by %d" % (t.d["s"], a.kids[1].cv), prog.config)
                            if a.kids[1].cv != len(t.d["s"]):
                                ck.violation("R06a", "R06a/read_msf/skip-%s" % t.d["s"].strip(":"), site(prog, a),
                                             "the name is read %d bytes after the start of %r (%d bytes long)" % (
                                                 a.kids[1].cv, t.d["s"], len(t.d["s"])), prog.config)
    # fasta record start: the writer begins name lines with the character the reader tests
    F = prog.fn("read_fasta")
    starts = [l.d["v"] for b in F.body.find("BinaryOperator") if b.d["op"] == "==" for l in b.find("CharacterLiteral")
              if "line[0]" in b.text()]
    wname, lits = W["FORMAT_FA"]
    for v in set(starts):
        n += 1
        hit = any(l.startswith(chr(v) + "%s") for l in lits)
        ck.inst("R06a", site(prog, F, "fasta:%s" % chr(v)), "read_fasta starts a record at %r; writer emits it before the name: %s" % (chr(v), hit), prog.config)
        if not hit:
            ck.violation("R06a", "R06a/write_msa_fasta/record-start", site(prog, prog.fn(wname)),
                         "write_msa_fasta does not begin name lines with %r followed by the name" % chr(v), prog.config)
    ck.floor("R06a", n, 10, "reader tokens")


def r06h(ck, prog):
    """a block line is a row exactly when it is not indented: in read_clu / read_msf the test that decides whether a non-empty
    line of a block is the next row (the if whose branch advances active_seq) is, for every value of the first character,
    equivalent to `!isspace(line[0])` - the writers start every row line with the name and every other line with a blank.
    A test that also looks at the rest of the line is not decided (no verdict)."""
    from ..bytedom import Sym, ev
    n = 0
    for rname in ("read_clu", "read_msf"):
        F = prog.fn(rname)
        fns = [F] + [prog.functions[c.callee] for c in F.body.calls() if c.callee in prog.functions and prog.functions[c.callee].static
                     and prog.functions[c.callee].file == F.file]
        tests = []
        for G in fns:
            for u in G.body.find("UnaryOperator"):
                if u.d["op"] == "++" and u.kids[0].strip().k == "DeclRefExpr" and u.kids[0].strip().d["name"] == "active_seq":
                    ifs = [x for x in u.ancestors() if x.k == "IfStmt" and u.within(x.child("then")) and any(
                        y.ty.replace("const ", "") == "char" and y.kids[1].strip(casts=True).cv == 0 for y in x.child("cond").find("ArraySubscriptExpr"))]
                    if ifs:
                        tests.append((G, ifs[0]))
        if not tests:
            raise AnalysisBroken("R06h: the row test of %s (the if that advances active_seq) was not found" % rname)
        for G, ifs in tests:
            cond = ifs.child("cond")
            subs = [x for x in cond.find("ArraySubscriptExpr") if x.ty.replace("const ", "") == "char" and x.kids[1].strip(casts=True).cv == 0]
            n += 1
            where = site(prog, ifs, "row test")
            if not subs:
                raise AnalysisBroken("R06h: the row test of %s does not look at the first character of the line (%s)" % (rname, cond.text()[:50]))
            sym = Sym(text=subs[0].text(), ty="char")
            wrong = []
            for b in range(1, 128):
                v = ev(cond, sym, b)
                if v is None:
                    raise AnalysisBroken("R06h: the row test of %s (%s) depends on more than the first character; whether every row "
                                         "line the writers emit passes it is not decided" % (rname, cond.text()[:60]))
                if bool(v) != (b not in (32, 9, 10, 11, 12, 13)):
                    wrong.append(b)
            ck.inst("R06h", where, "%s: a line is a row iff %s; agrees with `first character is not a blank` for %d of 127 values" % (
                rname, cond.text()[:40], 127 - len(wrong)), prog.config)
            if wrong:
                ck.violation("R06h", "R06h/%s/row-test" % rname, where,
                             "%s treats a block line starting with %r as %s: the writers start every row with its name (any non-blank "
                             "character) and every other line with a blank" % (rname, chr(wrong[0]), "no row" if wrong[0] not in (32, 9) else "a row"), prog.config)
    ck.floor("R06h", n, 2, "row tests of the block readers")


def r06i(ck, prog):
    """writing does not change what is written: the interprocedural effect summary of kalign_write_msa on its msa shows no
    store into the rows (sequences.seq), the names or the gap counts - a helper that normalises a row in place (upper-casing
    it for a checksum, say) would change the alignment in memory and every file written afterwards"""
    from ..effects import Effects
    E = Effects(prog)
    W = prog.fn("kalign_write_msa")
    idx = next((i for i, p_ in enumerate(W.params) if p_["ty"].replace("const ", "").replace(" ", "") == "structmsa*"), None)
    if idx is None:
        raise AnalysisBroken("R06i slot: kalign_write_msa has no struct msa* parameter")
    S = E.of_param("kalign_write_msa", idx)
    if S.unknown:
        raise AnalysisBroken("R06i: effect summary of kalign_write_msa is incomplete: %s" % S.unknown[0])
    touched = sorted(p_ for p_ in S.pwrites | S.writes if p_[:1] == ("sequences",))
    ck.inst("R06i", site(prog, W, "effects"), "kalign_write_msa writes under msa->sequences: %s" % ([".".join(p_) for p_ in touched] or "nothing"), prog.config)
    for p_ in touched:
        if p_[-1] in ("seq", "name", "gaps", "s", "len"):
            ck.violation("R06i", "R06i/kalign_write_msa/%s" % ".".join(p_), site(prog, W, "effects"),
                         "writing an alignment stores into msa->%s (through a function the writers call): the alignment in memory is no "
                         "longer the one that was aligned, and every format written from it differs from the input in those characters" % ".".join(p_),
                         prog.config)


def r06j(ck, prog):
    """nothing printed into the MSF header can be taken for the '//' divider by read_msf: every string (%s) that write_msa_msf
    (or a private helper it calls) formats into a line is a literal without '//', a sequence name, the date written by strftime
    from a literal format without '/', or the base name produced by tlfilename (which keeps only what follows the last '/') -
    never a path as the caller gave it"""
    from .c15 import writer_closure
    CL = writer_closure(prog, "write_msa_msf")
    root = CL[0]
    n = 0

    def classify(F, a, depth=0):
        a0 = a.strip(casts=True)
        if depth > 6:
            return ("unknown", a0.text()[:30])
        if a0.k == "ConditionalOperator":
            r = [classify(F, a0.child("then"), depth + 1), classify(F, a0.child("else"), depth + 1)]
            return next((x for x in r if x[0] != "ok"), r[0])
        if a0.k == "StringLiteral":
            return ("ok", "literal") if "//" not in a0.d.get("s", "") else ("bad", "the literal %r" % a0.d.get("s"))
        if any(m.d.get("field") == "name" and m.d.get("rec") == "msa_seq" for m in a0.walk() if m.k == "MemberExpr"):
            return ("ok", "sequence name")
        if any(m.d.get("field") == "line" for m in a0.walk() if m.k == "MemberExpr"):
            return ("ok", "a finished line")
        if a0.k == "DeclRefExpr" and a0.d.get("dk") == "Parm":
            if F is root:
                return ("bad", "the parameter %s as the caller gave it" % a0.d["name"])
            idx = F.param_index(a0.d["name"])
            sites = [(G, c) for G in CL for c in G.body.calls(F.name)]
            if idx is None or not sites:
                return ("unknown", a0.text()[:30])
            rs = [classify(G, c.args[idx], depth + 1) for G, c in sites if idx < len(c.args)]
            return next((x for x in rs if x[0] != "ok"), rs[0]) if rs else ("unknown", a0.text()[:30])
        if a0.k == "CallExpr" and a0.callee:
            # a helper that returns the label: every returned value is classified in the helper
            H = prog.fn(prog.resolve(a0.callee, F.file), required=False)
            if H is not None and H in CL:
                rs = [classify(H, r_.kids[0], depth + 1) for r_ in H.body.find("ReturnStmt") if r_.kids and not (
                    r_.kids[0].strip(casts=True).cv == 0 or "NULL" in "".join(r_.kids[0].strip(casts=True).mac or []))]
                return next((x for x in rs if x[0] != "ok"), rs[0]) if rs else ("unknown", a0.text()[:30])
            if a0.callee in ("strdup", "strndup") and a0.args:
                return classify(F, a0.args[0], depth + 1)
        if a0.k == "DeclRefExpr" and a0.d.get("dk") == "Var":
            did = a0.d["did"]
            for c in F.body.calls("tlfilename"):
                if any(x.k == "DeclRefExpr" and x.d.get("did") == did for x in c.args[-1].walk()):
                    return ("ok", "base name from tlfilename")
            for c in F.body.calls("strftime"):
                if c.args and any(x.k == "DeclRefExpr" and x.d.get("did") == did for x in c.args[0].walk()):
                    fmt = next((x.strip(casts=True).d.get("s", "") for x in c.args if x.strip(casts=True).k == "StringLiteral"), None)
                    return ("ok", "date from strftime") if fmt is not None and "/" not in fmt and "%D" not in fmt and "%x" not in fmt else ("bad", "a date whose format can contain '/'")
            for c in F.body.calls("snprintf", "strncpy", "memcpy", "strcpy"):
                if c.args and any(x.k == "DeclRefExpr" and x.d.get("did") == did for x in c.args[0].walk()):
                    srcs = [x for x in c.args[1:] if "char" in (x.strip(casts=True).ty or "") and x.strip(casts=True).k != "StringLiteral"]
                    lits = [x for x in c.args[1:] if x.strip(casts=True).k == "StringLiteral"]
                    rs = [classify(F, x, depth + 1) for x in srcs] + [classify(F, x, depth + 1) for x in lits if "%" not in x.strip(casts=True).d.get("s", "")]
                    if rs:
                        return next((x for x in rs if x[0] != "ok"), rs[0])
            defs = [d for d, _ in local_defs(F, did) if d is not None and not (d.strip(casts=True).cv == 0 or "NULL" in "".join(d.strip(casts=True).mac or []))]
            defs = [d for d in defs if not (d.strip(casts=True).k == "CallExpr" and d.strip(casts=True).callee in ("malloc", "calloc", "realloc"))]
            if defs:
                rs = [classify(F, d, depth + 1) for d in defs]
                return next((x for x in rs if x[0] != "ok"), rs[0])
        return ("unknown", a0.text()[:30])
    import re as _re
    for F in CL:
        for c in F.body.calls():
            fi = next((i for i, a in enumerate(c.args) if a.strip(casts=True).k == "StringLiteral" and "%" in a.strip(casts=True).d.get("s", "")), None)
            if fi is None or not (c.callee in ("snprintf", "fprintf", "sprintf") or _printf_like(prog, c, c.args[fi])):
                continue
            if c.callee == "fprintf" and any(x.strip(casts=True).text() == "stderr" for x in c.args[:1]):
                continue
            fmt = c.args[fi].strip(casts=True).d["s"]
            argi = 0
            for m in _re.finditer(r"%([-+ #0]*)(\*|\d+)?(?:\.(\*|\d+))?(hh|h|ll|l|L|z|j|t)?([diouxXeEfFgGaAcspn%])", fmt):
                if m.group(5) == "%":
                    continue
                argi += (m.group(2) == "*") + (m.group(3) == "*")
                val = c.args[fi + 1 + argi] if fi + 1 + argi < len(c.args) else None
                argi += 1
                if m.group(5) != "s" or val is None:
                    continue
                n += 1
                kind, what = classify(F, val)
                where = site(prog, c, "%s")
                ck.inst("R06j", where, "%s formats %s into a line: %s" % (F.name, val.text()[:40], what), prog.config)
                if kind == "bad":
                    ck.violation("R06j", "R06j/write_msa_msf/%s" % _re.sub(r"\W+", "-", what)[:30], where,
                                 "%s prints %s into a line of the file: if it contains '//' (an output directory given with a "
                                 "trailing slash is enough) read_msf takes that line for the divider, registers no names and cannot read the "
                                 "file back" % (F.name, what), prog.config)
                elif kind == "unknown":
                    raise AnalysisBroken("R06j: where the string %s printed by %s comes from is not understood" % (what, F.name))
    ck.floor("R06j", n, 3, "strings formatted into MSF lines")


def r06m(ck, prog):
    """a reader that takes a name with a scanf scanset accepts every character a name may consist of: letters, digits and
    _ . | -  (the set the property names); a character outside the set ends the name there and the rest of it is parsed as
    residues and gap symbols"""
    import string as _st
    need = set(_st.ascii_letters + _st.digits + "_.|-")
    n = 0
    for F in [prog.fn(r_) for r_ in ("read_fasta", "read_clu", "read_msf")]:
        for c in F.body.calls("sscanf", "fscanf"):
            fmt = next((a.strip(casts=True).d.get("s", "") for a in c.args if a.strip(casts=True).k == "StringLiteral"), None)
            if fmt is None or not any(m.d.get("field") == "name" and m.d.get("rec") == "msa_seq" for a in c.args for m in a.find("MemberExpr")):
                continue
            for m in re.finditer(r"%\d*\[(\^?)((?:\]|[^\]])[^\]]*)\]", fmt):
                neg, body = m.group(1) == "^", m.group(2)
                acc = set()
                i = 0
                while i < len(body):
                    if i + 2 < len(body) and body[i + 1] == "-":
                        acc |= {chr(x) for x in range(ord(body[i]), ord(body[i + 2]) + 1)}
                        i += 3
                    else:
                        acc.add(body[i])
                        i += 1
                ok = (need - acc) if not neg else (need & acc)
                n += 1
                where = site(prog, c, "name scanset")
                ck.inst("R06m", where, "%s reads a name with %s" % (F.name, m.group(0)), prog.config)
                if ok:
                    ck.violation("R06m", "R06m/%s/scanset" % F.name, where,
                                 "%s reads the name with %s, which stops at %s: a name containing it (sp|P12345|ABC_HUMAN) is cut there, the rest "
                                 "of it is read as row content and the alignment read back has other names, residues and gaps" % (
                                     F.name, m.group(0), sorted(ok)), prog.config)
    ck.inst("R06m", "readers", "%d scanf scansets used for names" % n, prog.config)


def r06k(ck, prog):
    """whoever writes an msa has brought it to the rendered state first: kalign_write_msa refuses anything but
    ALN_STATUS_FINAL, so in every function that calls it, each path to the call runs something that can set that status
    (kalign_run, finalise_alignment, or a function that reaches one of them) - otherwise the call can only fail and the
    tool built around it cannot convert or write anything"""
    from ..callgraph import CallGraph
    final = prog.macro_int("ALN_STATUS_FINAL")
    setters = set()
    for F in prog.lib_functions():
        for a, lhs, rhs in stores_to_field(F.body, "msa", "aligned"):
            if const_value(rhs) == final:
                setters.add(F.name)
    if not setters:
        raise AnalysisBroken("R06k slot: no function assigns ALN_STATUS_FINAL")
    cg = CallGraph(prog)
    may = {g for g in cg.defined if cg.reachable({g}) & setters}
    n = 0

    def unrendered(F, c, depth=0):
        """functions (outermost) from whose entry the write at c is reached with nothing on the way that can render the rows; a
        helper that only receives the msa passes the question on to its callers"""
        prod = [x for x in F.body.calls() if x.callee in may and x is not c]
        pos = [F.cfg.position(x) for x in prod]
        if not F.cfg.reaches(None, F.cfg.position(c), avoid=[p_ for p_ in pos if p_ is not None]):
            return []
        a0 = c.args[0].strip(casts=True) if c.args else None
        callers = [(G, x) for G, x in prog.callers_of(F.name) if "/tests/" not in G.file and G.cfg is not None]
        if a0 is not None and a0.k == "DeclRefExpr" and a0.d.get("dk") == "Parm" and callers and depth < 3:
            idx = F.param_index(a0.d["name"])
            out = []
            for G, x in callers:
                # the call of the helper plays the part of the write in the caller; its msa argument is in the same position
                if idx is not None and idx < len(x.args):
                    out += unrendered_at(G, x, x.args[idx], depth + 1)
            return out
        return [(F, c)]

    def unrendered_at(G, call, msa_arg, depth):
        prod = [x for x in G.body.calls() if x.callee in may and x is not call]
        pos = [G.cfg.position(x) for x in prod]
        if not G.cfg.reaches(None, G.cfg.position(call), avoid=[p_ for p_ in pos if p_ is not None]):
            return []
        a0 = msa_arg.strip(casts=True)
        callers = [(H, x) for H, x in prog.callers_of(G.name) if "/tests/" not in H.file and H.cfg is not None]
        if a0.k == "DeclRefExpr" and a0.d.get("dk") == "Parm" and callers and depth < 3:
            idx = G.param_index(a0.d["name"])
            out = []
            for H, x in callers:
                if idx is not None and idx < len(x.args):
                    out += unrendered_at(H, x, x.args[idx], depth + 1)
            return out
        return [(G, call)]
    for F in prog.all_functions:
        if "/tests/" in F.file or F.cfg is None:
            continue
        for c in F.body.calls("kalign_write_msa"):
            n += 1
            where = site(prog, c, "kalign_write_msa")
            prod = [x for x in F.body.calls() if x.callee in may and x is not c]
            ck.inst("R06k", where, "%s writes an msa; calls that can render it first: %s" % (F.name, sorted({x.callee for x in prod}) or "none (the question goes to the callers)"), prog.config)
            for G, at in unrendered(F, c):
                ck.violation("R06k", "R06k/%s/never-final" % G.name, site(prog, at, "kalign_write_msa"),
                             "%s reaches kalign_write_msa%s on a path that runs nothing able to set ALN_STATUS_FINAL (%s): the writer's gate "
                             "refuses every msa that arrives this way - an alignment that was read cannot be written in another format" % (
                                 G.name, "" if G is F else " (through %s)" % at.callee, ", ".join(sorted(setters)) + " set it"), prog.config)
    ck.floor("R06k", n, 2, "callers of kalign_write_msa")


def r06b(ck, prog):
    lim = prog.macro_int("MSA_NAME_LEN")
    n = 0
    for rname in ("read_fasta", "read_clu", "read_msf"):
        F = prog.fn(rname)
        subst = single_defs(F)
        for a in F.body.find("BinaryOperator"):
            if a.d["op"] != "=":
                continue
            l = a.kids[0].strip()
            if l.k != "ArraySubscriptExpr":
                continue
            b = l.kids[0].strip(casts=True)
            if not (b.k == "MemberExpr" and b.d.get("field") == "name" and b.d.get("rec") == "msa_seq"):
                continue
            n += 1
            idx = l.kids[1]
            where = site(prog, a, l.text())
            # bounded by a guard comparing the index with MSA_NAME_LEN-1 that exits the loop before this store
            ok = False
            iv = idx.strip(casts=True)
            from ..affine import induction_bound
            loops = [x for x in a.ancestors() if x.k == "ForStmt" and induction_bound(x) and
                     iv.k == "DeclRefExpr" and induction_bound(x)[0].d["did"] == iv.d["did"]]
            if idx.cv is not None:
                ok = 0 <= idx.cv < lim
            elif loops and iv.k == "DeclRefExpr":
                for ifs in loops[0].find("IfStmt"):
                    c = ifs.child("cond").strip()
                    if c.k == "BinaryOperator" and c.d["op"] in ("==", ">=") and c.kids[0].strip(casts=True).text() == iv.text() \
                            and c.kids[1].cv is not None and c.kids[1].cv <= lim - 1:
                        from ..util import ends_in_jump
                        if ends_in_jump(ifs.child("then")) or any(x.k == "BreakStmt" for x in ifs.child("then").walk()):
                            # the exit must precede the store in the loop body or guard it
                            if a.within(ifs.child("then")) or ifs.line <= a.line:
                                ok = True
                # or the store is after the loop with the loop variable bounded likewise
            if not loops and iv.k == "DeclRefExpr":
                # store after the loop: every definition of the index is a small constant or a copy of a loop
                # variable made inside a loop that exits at MSA_NAME_LEN-1
                def loop_has_exit(lp, vtext):
                    for ifs in lp.find("IfStmt"):
                        c = ifs.child("cond").strip()
                        if c.k == "BinaryOperator" and c.d["op"] in ("==", ">=") and c.kids[0].strip(casts=True).text() == vtext \
                                and c.kids[1].cv is not None and c.kids[1].cv <= lim - 1 and \
                                any(x.k == "BreakStmt" for x in ifs.child("then").walk()):
                            return True
                    return False
                defs = local_defs(F, iv.d["did"])
                ok = bool(defs)
                for r, node in defs:
                    if r is None:
                        lp = [x for x in node.ancestors() if x.k == "ForStmt"]
                        ok = ok and bool(lp) and loop_has_exit(lp[0], iv.text())
                        continue
                    r0 = r.strip(casts=True)
                    if r0.cv is not None:
                        ok = ok and 0 <= r0.cv < lim
                    elif r0.k == "DeclRefExpr":
                        lp = [x for x in node.ancestors() if x.k == "ForStmt"]
                        ok = ok and bool(lp) and loop_has_exit(lp[0], r0.text())
                    else:
                        ok = False
            ck.inst("R06b", where, "%s stores into name[%s] (buffer of MSA_NAME_LEN=%d)" % (rname, idx.text(), lim), prog.config)
            if not ok:
                ck.violation("R06b", "R06b/%s/name-store" % rname, where,
                             "%s writes name[%s] without an exit at index MSA_NAME_LEN-1: a longer name overruns the %d-byte buffer" % (
                                 rname, idx.text(), lim), prog.config)
        for c in F.body.calls("memcpy", "strncpy", "snprintf", "strcpy", "sprintf"):
            d0 = c.args[0].strip(casts=True)
            if not (d0.k == "MemberExpr" and d0.d.get("field") == "name" and d0.d.get("rec") == "msa_seq"):
                continue
            n += 1
            where = site(prog, c, "%s(name)" % c.callee)
            if c.callee in ("strcpy", "sprintf"):
                ck.violation("R06b", "R06b/%s/unbounded-%s" % (rname, c.callee), where, "unbounded %s into msa_seq.name" % c.callee, prog.config)
                continue
            narg = c.args[1] if c.callee == "snprintf" else c.args[2]
            ln = lin(narg, subst)
            # allocation of the same lvalue in this function?
            from ..affine import alloc_sites
            al = [(t, s) for t, s, cc in alloc_sites(F) if t.text() == d0.text()]
            if al:
                la = lin(al[-1][1], subst)
                ok = la is not None and ln is not None and la.add(ln, -1).is_const() and la.add(ln, -1).c >= 0
                ck.inst("R06b", where, "%s copies %s bytes into name allocated with %s" % (rname, narg.text(), al[-1][1].text()), prog.config)
                if not ok:
                    ck.violation("R06b", "R06b/%s/name-copy" % rname, where,
                                 "%s copies %s bytes into a name buffer allocated with %s" % (c.callee, narg.text(), al[-1][1].text()), prog.config)
            else:
                ok = narg.cv is not None and narg.cv <= lim
                ck.inst("R06b", where, "%s copies at most %s bytes into the fixed name buffer" % (rname, narg.text()), prog.config)
                if not ok:
                    ck.violation("R06b", "R06b/%s/name-copy" % rname, where,
                                 "%s copies %s bytes into the %d-byte name buffer" % (c.callee, narg.text(), lim), prog.config)
    ck.floor("R06b", n, 5, "name stores")


def r06c(ck, prog):
    n = 0
    for F in prog.lib_functions():
        for c in F.body.calls("strncmp", "memcmp", "strncasecmp"):
            n += 1
            if len(c.args) < 3:
                continue
            ln = c.args[2].strip(casts=True)
            src = None
            if ln.k == "CallExpr" and ln.callee in ("strlen", "strnlen"):
                src = ln
            elif ln.k == "DeclRefExpr" and ln.d.get("dk") == "Var":
                for r, node in local_defs(F, ln.d["did"]):
                    if r is not None and r.strip(casts=True).k == "CallExpr" and r.strip(casts=True).callee in ("strlen", "strnlen"):
                        src = r.strip(casts=True)
            where = site(prog, c, c.callee)
            ck.inst("R06c", where, "%s compares %s bytes%s" % (F.name, c.args[2].text(), " (length of one operand: prefix match)" if src else ""), prog.config)
            if src is None:
                continue
            # exemption: the same condition also tests the character right after the prefix
            exempt = False
            top = c
            while top.parent is not None and top.parent.k in ("BinaryOperator", "UnaryOperator", "ParenExpr", "ImplicitCastExpr"):
                top = top.parent
            for s in top.find("ArraySubscriptExpr"):
                if s.kids[1].strip(casts=True).text() == ln.text() and not s.within(c):
                    exempt = True
            if not exempt:
                ck.violation("R06c", "R06c/%s/prefix-match" % F.name, where,
                             "%s identifies a string with %s over strlen of one operand (%s): a name that is a prefix of "
                             "another (seq1 / seq10) matches the wrong sequence" % (F.name, c.callee, src.text()), prog.config)
    ck.inst("R06c", "lib", "%d bounded string comparisons examined" % n, prog.config)
    ck.floor("R06c", n, 4, "strncmp calls")


def run(ck, progs):
    describe(ck)
    for cfg, prog in progs.items():
        ck.attempt(r06a, ck, prog)
        ck.attempt(r06b, ck, prog)
        ck.attempt(r06c, ck, prog)
        ck.attempt(r06h, ck, prog)
        ck.attempt(r06i, ck, prog)
        ck.attempt(r06j, ck, prog)
        ck.attempt(r06k, ck, prog)
        ck.attempt(r06m, ck, prog)
        from . import c15 as _c15
        ck.borrow(_c15.r15m, prog, "R06n", ("R15m",))
        from . import c05
        ck.borrow(c05.r05s, prog, "R06l", ("R05s",))
        from . import c15
        before = len(ck.instances)
        ck.attempt(c15.r15e, ck, prog)
        ck.attempt(c15.r15g, ck, prog)
        from . import c04
        b1 = len(ck.instances)
        ck.attempt(c04.r04h, ck, prog)
        for i in ck.instances[b1:]:
            i["rule"] = "R06e"
        for v in ck.violations:
            if v["rule"] == "R04h":
                v["rule"] = "R06e"
                v["key"] = v["key"].replace("R04h", "R06e")
        for i in ck.instances[before:]:
            i["rule"] = "R06d"
        for v in ck.violations:
            if v["rule"] in ("R15e", "R15g"):
                v["key"] = v["key"].replace(v["rule"], "R06d")
                v["rule"] = "R06d"
    return ("Lexical contract between readers and writers computed from the string literals and character constants in "
            "detect_alignment_format / read_* and in the functions reachable from each writer; bound of every store and "
            "copy into msa_seq.name; classification of every bounded string comparison in the library.")
