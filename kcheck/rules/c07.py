"""C07 — the DP kernels return the optimum when it is certifiably unique (structural clauses only).

Decided: every transition code a meet-in-the-middle step can produce has a handler, in all three
kernels, the three kernels agree on what each code means (which forward state meets which
backward state, which penalty family), every candidate updates the maximum with the expression it
compared, and the handler of code k sets the boundary states of the two sub-problems to exactly
the states code k stands for (R07a); the three kernels are wired alike and do_align sets up each
(a,b) shape so that exactly one kernel matches, mirroring the path on exactly the swapped
branches (R07b); profile gap columns are weighted by the size of the other group (R07c); the border
tests of the three kernels agree and have the right polarity (R07d); the three forward passes, the
three backward passes (R07e) and the three meetup functions (R07f) leave the same max-plus normal
form in every DP cell / carried local / candidate - one recurrence, three implementations.
Not decided: that the common recurrence is the optimal one, row/column offsets of profile reads,
tie-breaks, float arithmetic - i.e. optimality.
"""
import re

from ..build import AnalysisBroken
from ..util import site, guards, switch_table, const_value, stores_to_field, local_defs
from ..maxplus import Eval, Unsupported, atom, vadd, vneg, show

MEETUPS = ("aln_seqseq_meetup", "aln_seqprofile_meetup", "aln_profileprofile_meetup")
STATES = ("a", "ga", "gb")


def describe(ck):
    ck.rule("R07a", "transition codes: producers (three meetup functions) agree with each other and with the consumer (aln_continue): same code set, same (forward state, backward state) meaning, compared expression = stored maximum, boundary states of both sub-problems match the code")
    ck.rule("R07b", "do_align sets seq1/seq2/prof1/prof2 to one of the three kernel shapes before every aln_runner call and mirrors the path on exactly the branches that swapped a and b")
    ck.not_decided += ["that the recurrence common to the three kernels is the optimal one (the comparison is relative), profile row/column offsets, tie-breaks, floating-point arithmetic: the optimality statement itself"]


def _norm(t):
    return re.sub(r"\s+", "", t)


def producer_table(prog, F):
    """[(code, (fstate, bstate), penalty names, cond text, stored text, node)] for every `transition = k` in a meetup"""
    tvars = set()
    # the local that is stored through the int* out-parameter
    for a in F.body.find("BinaryOperator"):
        if a.d["op"] == "=":
            l = a.kids[0].strip()
            if l.k == "UnaryOperator" and l.d["op"] == "*" and l.kids[0].strip().k == "DeclRefExpr" and l.kids[0].strip().d.get("dk") == "Parm":
                r = a.kids[1].strip(casts=True)
                if r.k == "DeclRefExpr" and r.ty == "int":
                    tvars.add((r.d["did"], l.kids[0].strip().d["name"]))
    cands = []
    for did, outname in tvars:
        assigns = [a for a in F.body.find("BinaryOperator") if a.d["op"] == "=" and a.kids[0].strip().k == "DeclRefExpr"
                   and a.kids[0].strip().d["did"] == did and a.kids[1].cv is not None]
        if len(assigns) >= 6:
            cands.append((did, outname, assigns))
    if len(cands) != 1:
        raise AnalysisBroken("R07a slot: transition variable of %s not identified (%d candidates)" % (F.name, len(cands)))
    did, outname, assigns = cands[0]
    rows = []
    for a in assigns:
        gs = guards(a)
        cond = None
        for c, pol in gs:
            c0 = c.strip()
            if c0.k == "BinaryOperator" and c0.d["op"] == ">" and pol:
                cond = c0
                break
        if cond is None:
            raise AnalysisBroken("R07a: transition assignment at %s is not under a `candidate > max` test" % a.loc)
        lhs = cond.kids[0]
        fs = [m.d["field"] for m in lhs.find("MemberExpr") if m.d.get("rec") == "states" and "f[" in m.kids[0].text()]
        bs = [m.d["field"] for m in lhs.find("MemberExpr") if m.d.get("rec") == "states" and "b[" in m.kids[0].text()]
        pens = sorted({r.d["name"] for r in lhs.find("DeclRefExpr") if r.d["name"] in ("gpo", "gpe", "tgpe")} |
                      {"prof[%s]" % s.kids[1].text() for s in lhs.find("ArraySubscriptExpr") if s.kids[0].strip(casts=True).text().startswith("prof")})
        # the store to max inside the same then-branch
        then = cond.parent.child("then") if cond.parent is not None and cond.parent.k == "IfStmt" else None
        if then is None:
            p = cond
            while p is not None and p.k != "IfStmt":
                p = p.parent
            then = p.child("then") if p is not None else None
        stored = None
        maxname = cond.kids[1].strip(casts=True).text()
        if then is not None:
            for s in then.find("BinaryOperator"):
                if s.d["op"] == "=" and s.kids[0].strip().text() == maxname:
                    stored = s.kids[1]
        rows.append((a.kids[1].cv, (tuple(fs), tuple(bs)), pens, lhs, stored, a))
    return rows, outname


def consumer_table(prog):
    C = prog.fn("aln_continue")
    sws = [s for s in C.body.find("SwitchStmt") if any(r.d["name"] == "transition" for r in s.child("cond").refs())]
    if len(sws) != 1:
        raise AnalysisBroken("R07a slot: switch(transition) not found in aln_continue")
    return C, sws[0], switch_table(sws[0])


RUNNERS = ("aln_runner", "aln_runner_serial")


def _state_value(v, env):
    """'0' / '-inf' / text of a value stored into a boundary state (v seen through helper parameters)"""
    from ..inline import resolve, render
    x, e = resolve(v, env)
    if const_value(x) == 0 or (x.k == "FloatingLiteral" and x.d.get("v") == 0):
        return "0"
    if "FLT_MAX" in x.text() or any("FLT_MAX" in y for z in [x] + list(x.walk()) for y in (z.mac or [])):
        return "-inf"
    return render(x, e)


def _boundary(prog, C, stmts):
    """sequence of ('set', 'f'|'b', state, value text) boundary-state settings and ('recurse',) markers in a case body of
    aln_continue, private helpers (set_states(&m->f[0], ..), aln_descend(m, serial)) inlined"""
    import re
    from ..inline import flatten, walk_events
    order = []
    for e in flatten(prog, C, stmts, exclude=RUNNERS + ("aln_continue",)):
        if e[0] == "call" and not e[1]:
            raise AnalysisBroken("R07a: aln_continue recurses through a function pointer; which runner is called is not decided")
        if e[0] == "store":
            m = re.match(r"^\w+->(f|b)\[0\]\.(a|ga|gb)$", e[1])
            if m and e[2] is not None:
                order.append(("set", m.group(1), m.group(2), _state_value(e[2], e[3])))
        elif e[0] == "call" and e[1] in RUNNERS:
            order.append(("recurse",))
        elif e[0] == "if":
            inner = [x for x in walk_events([e]) if x[0] == "call" and x[1] in RUNNERS]
            if inner:
                order.append(("recurse",))
        elif e[0] in ("loop", "opaque"):
            if any(x[0] == "call" and x[1] in RUNNERS for x in walk_events([e])):
                raise AnalysisBroken("R07a: aln_continue recurses inside a loop / switch; the order of boundary settings is not decided")
    return order


def _merge_recursions(prog, C, order, stmts):
    """a helper `if(serial) return aln_runner_serial(m); return aln_runner(m);` contributes an if-event and a call event for
    what is one recursion: adjacent markers that stem from the same statement of the case body are one"""
    from ..inline import flatten
    per_stmt = []
    for s in stmts:
        o = _boundary(prog, C, [s])
        # collapse runs of recurse markers inside one top-level statement
        col = []
        for x in o:
            if x == ("recurse",) and col and col[-1] == ("recurse",):
                continue
            col.append(x)
        per_stmt += col
    return per_stmt


def r07a(ck, prog):
    tables = {}
    for name in MEETUPS:
        F = prog.fn(name)
        rows, outname = producer_table(prog, F)
        tables[name] = rows
        codes = sorted({r[0] for r in rows})
        ck.inst("R07a", site(prog, F, "producer"), "%s produces transition codes %s through *%s" % (name, codes, outname), prog.config)
        for code, pair, pens, lhs, stored, a in rows:
            where = site(prog, a, "transition=%d" % code)
            ck.inst("R07a", where, "%s: code %d <= f.%s + b.%s, penalties %s" % (name, code, "/".join(pair[0]), "/".join(pair[1]), pens), prog.config)
            if stored is None or _norm(stored.text()) != _norm(lhs.text()):
                ck.violation("R07a", "R07a/%s/max-%d" % (name, code), where,
                             "candidate %s is compared with the maximum but %s is stored as the new maximum" % (
                                 lhs.text(), stored.text() if stored is not None else "nothing"), prog.config)
            if len(pair[0]) != 1 or len(pair[1]) != 1:
                ck.violation("R07a", "R07a/%s/states-%d" % (name, code), where,
                             "candidate for code %d combines forward states %s and backward states %s (one each expected)" % (code, pair[0], pair[1]),
                             prog.config)
    # sibling agreement: code -> (fstate, bstate) mapping, and the multiset of (code, pair, penalty family) per function
    meaning = {}
    for name, rows in tables.items():
        for code, pair, pens, lhs, stored, a in rows:
            meaning.setdefault(code, {}).setdefault(pair, []).append((name, a))
    for code, m in sorted(meaning.items()):
        if len(m) != 1:
            nm, a = list(m.values())[-1][0]
            ck.violation("R07a", "R07a/meetup/meaning-%d" % code, site(prog, a),
                         "the kernels disagree on what transition %d means: %s" % (code, {("f.%s+b.%s" % (p[0], p[1])): [x[0] for x in v] for p, v in m.items()}),
                         prog.config)
    def signature(rows):
        # (code, state pair) multiset; the penalty terms are spelled differently per kernel (scalars vs profile
        # columns) and are part of the undecided numerics
        # a set, not a multiset: how often a candidate is written out depends on how the border cases are spelled
        # (two branches differing in the penalty vs one statement with a pre-selected penalty); R07f compares per situation
        return sorted({(code, pair) for code, pair, pens, lhs, stored, a in rows})
    sigs = {n: signature(r) for n, r in tables.items()}
    ref = sigs[MEETUPS[0]]
    for n in MEETUPS[1:]:
        if sigs[n] != ref:
            diff = [x for x in sigs[n] if x not in ref] + [x for x in ref if x not in sigs[n]]
            ck.violation("R07a", "R07a/%s/siblings" % n, site(prog, prog.fn(n)),
                         "%s and %s evaluate different candidates: %s" % (n, MEETUPS[0], diff[:4]), prog.config)
    # consumer
    C, sw, table = consumer_table(prog)
    handled = {}
    for labels, stmts in table:
        for lab in labels:
            if lab[0] == "case":
                handled[lab[1]] = stmts
    prod_codes = {c for rows in tables.values() for c in [r[0] for r in rows]}
    ck.inst("R07a", site(prog, sw, "consumer"), "aln_continue handles codes %s; producers emit %s" % (sorted(handled), sorted(prod_codes)), prog.config)
    for c in sorted(prod_codes):
        if c not in handled:
            ck.violation("R07a", "R07a/aln_continue/unhandled-%d" % c, site(prog, sw),
                         "transition %d can be produced but aln_continue has no case for it: half of the rectangle keeps path[] = -1" % c,
                         prog.config)
    # boundary states of the two sub-problems must be the states the code stands for
    for code, stmts in sorted(handled.items()):
        if code not in meaning:
            continue
        pair = list(meaning[code].keys())[0]
        fstate, bstate = pair[0][0], pair[1][0]
        order = _merge_recursions(prog, C, _boundary(prog, C, stmts), stmts)
        nrec = sum(1 for x in order if x[0] == "recurse")
        where = site(prog, stmts[0], "case %d" % code)
        first = [x for x in order[:order.index(("recurse",))] if x[0] == "set"] if ("recurse",) in order else []
        rest = order[order.index(("recurse",)) + 1:] if ("recurse",) in order else []
        second = [x for x in rest if x[0] == "set"]
        b1 = {x[2]: x[3] for x in first if x[1] == "b"}
        f2 = {x[2]: x[3] for x in second if x[1] == "f"}
        ck.inst("R07a", where, "case %d (f.%s meets b.%s): first half ends with b[0]=%s, second half starts with f[0]=%s, %d recursions" % (
            code, fstate, bstate, b1, f2, nrec), prog.config)
        if nrec != 2:
            ck.violation("R07a", "R07a/aln_continue/recursions-%d" % code, where,
                         "case %d recurses %d time(s); both sub-rectangles must be solved" % (code, nrec), prog.config)
        want_b1 = {s: ("0" if s == fstate else "-inf") for s in STATES}
        want_f2 = {s: ("0" if s == bstate else "-inf") for s in STATES}
        if b1 != want_b1:
            ck.violation("R07a", "R07a/aln_continue/boundary-first-%d" % code, where,
                         "transition %d leaves the first half in state %s, so its backward boundary must be %s; it is %s" % (code, fstate, want_b1, b1),
                         prog.config)
        if f2 != want_f2:
            ck.violation("R07a", "R07a/aln_continue/boundary-second-%d" % code, where,
                         "transition %d enters the second half in state %s, so its forward boundary must be %s; it is %s" % (code, bstate, want_f2, f2),
                         prog.config)
        # the outer boundaries are the saved input states: f[0] <- input_states[0..2] first, b[0] <- input_states[3..5] second
        f1 = {x[2]: x[3] for x in first if x[1] == "f"}
        b2 = {x[2]: x[3] for x in second if x[1] == "b"}
        wf1 = {"a": "input_states[0]", "ga": "input_states[1]", "gb": "input_states[2]"}
        wb2 = {"a": "input_states[3]", "ga": "input_states[4]", "gb": "input_states[5]"}
        if f1 != wf1 or b2 != wb2:
            ck.violation("R07a", "R07a/aln_continue/outer-%d" % code, where,
                         "case %d does not restore the outer boundary states (first half f[0]=%s, second half b[0]=%s)" % (code, f1, b2), prog.config)
    # aln_runner saves them in that order
    from ..inline import flatten, walk_events, render
    for rn in ("aln_runner", "aln_runner_serial"):
        R = prog.fn(rn)
        saved = {}
        cont = [c for c in R.body.calls("aln_continue")]
        if len(cont) != 1:
            raise AnalysisBroken("R07a slot: %s calls aln_continue %d time(s)" % (rn, len(cont)))
        sarg = cont[0].args[1].strip(casts=True).text()          # the array handed over as input_states
        outer = []          # call nodes of R through which the current event was inlined
        save_sites = []
        for e in walk_events(flatten(prog, R, [R.body], exclude=RUNNERS + ("aln_continue",))):
            if e[0] == "enter":
                outer.append(e[2])
            elif e[0] == "leave":
                outer.pop()
            if e[0] == "store" and e[1].startswith(sarg + "[") and e[2] is not None:
                saved[e[1].replace(sarg + "[", "input_states[", 1)] = render(e[2], e[3])
                save_sites.append(outer[0] if outer else e[4])
        # the boundary states are saved before a kernel runs: slot 0 of the f / b arrays is also DP cell 0, which the forward /
        # backward passes overwrite
        kern = [c for c in R.body.calls() if c.callee and c.callee.startswith("aln_") and c.callee.split("_")[-1] in ("foward", "backward", "meetup")]
        for sv in save_sites:
            sp = R.cfg.position(sv)
            for kc in kern:
                kp = R.cfg.position(kc)
                if sp is not None and kp is not None and R.cfg.reaches(kp, sp):
                    ck.violation("R07a", "R07a/%s/saved-late" % rn, site(prog, sv),
                                 "%s saves the boundary states (%s) after %s has run: slot 0 of the f / b arrays is DP cell 0 as well and has "
                                 "been overwritten, so the two halves inherit states of the finished pass" % (rn, sv.text()[:40], kc.callee), prog.config)
                    break
        want = {"input_states[0]": "m->f[0].a", "input_states[1]": "m->f[0].ga", "input_states[2]": "m->f[0].gb",
                "input_states[3]": "m->b[0].a", "input_states[4]": "m->b[0].ga", "input_states[5]": "m->b[0].gb"}
        ck.inst("R07a", site(prog, R, "saved states"), "%s saves %s" % (rn, saved), prog.config)
        if saved != want:
            ck.violation("R07a", "R07a/%s/saved-states" % rn, site(prog, R),
                         "%s saves the boundary states as %s; aln_continue restores them assuming %s" % (rn, saved, want), prog.config)


def r07b(ck, prog):
    """kernel wiring of do_align, decided per scenario instead of per syntactic branch: for each combination of (child a is a
    sequence / a profile) x (child b likewise) x (a shorter / longer / as long as b) the set-up code is evaluated
    (kcheck/scenario.py) up to the call of the Hirschberg driver, and the operands, lengths and end coordinates found there
    must describe one of the three kernels applied to {a, b}; the path is mirrored afterwards exactly when the operands were
    exchanged, and the lengths of a and b are back in place before the path is post-processed"""
    import re as _re
    from ..scenario import Run, Undecided, Sym
    D = prog.fn("do_align")
    n = 0
    kernels = set()

    def node_of(v):
        if v is None or not isinstance(v, str):
            return None
        m_ = _re.findall(r"\[(a|b)\]", v)
        return m_[0] if len(set(m_)) == 1 else None
    for NA in (1, 3):
        for NB in (1, 3):
            for LA, LB in ((10, 20), (20, 10), (15, 15)):
                atoms = {"msa->nsip[a]": NA, "msa->nsip[b]": NB, "msa->sequences[a]->len": LA, "msa->plen[a]": LA,
                         "msa->sequences[b]->len": LB, "msa->plen[b]": LB}
                sc = "a %s of length %d, b %s of length %d" % ("sequence" if NA == 1 else "profile", LA, "sequence" if NB == 1 else "profile", LB)
                r = Run(prog, D, atoms, also=("init_alnmem",), stop_at=("add_gap_info_to_path_n",),
                        keep=("mirror_path_n", "set_gap_penalties_n", "make_profile_n", "aln_runner", "aln_runner_serial"))
                try:
                    tr = r.run()
                except Undecided as e:
                    raise AnalysisBroken("R07b: do_align is not evaluated for the scenario '%s': %s" % (sc, e))
                runs = [t for t in tr if t[1] in ("aln_runner", "aln_runner_serial")]
                if len(runs) != 1 or not tr or tr[-1][1] != "add_gap_info_to_path_n":
                    raise AnalysisBroken("R07b: scenario '%s' reaches the Hirschberg driver %d time(s) (trace %s)" % (sc, len(runs), [t[1] for t in tr]))
                n += 1
                st = runs[0][3]
                where = site(prog, runs[0][4], "aln_runner")
                f = {k_: st.get("m->" + k_) for k_ in ("seq1", "seq2", "prof1", "prof2", "len_a", "len_b", "enda", "endb", "sip")}
                shape = tuple("S" if k_.startswith("seq") and f[k_] is not None else "P" if f[k_] is not None else "N" for k_ in ("seq1", "seq2", "prof1", "prof2"))
                kind = {("S", "S", "N", "N"): "seqseq", ("N", "N", "P", "P"): "profileprofile", ("N", "S", "P", "N"): "seqprofile"}.get(shape)
                first = f["seq1"] if f["seq1"] is not None else f["prof1"]
                second = f["seq2"] if f["seq2"] is not None else f["prof2"]
                X, Y = node_of(first), node_of(second)
                ck.inst("R07b", where, "%s: %s kernel on (%s, %s), lengths %s/%s, ends %s/%s" % (sc, kind, first, second, f["len_a"], f["len_b"], f["enda"], f["endb"]), prog.config)
                key = "%d%d-%d-%d" % (NA, NB, LA, LB)
                if kind is None:
                    ck.violation("R07b", "R07b/do_align/shape", where,
                                 "%s: seq1/seq2/prof1/prof2 = %s matches none of the three kernels' expectations" % (sc, shape), prog.config)
                    continue
                kernels.add(kind)
                if {X, Y} != {"a", "b"}:
                    ck.violation("R07b", "R07b/do_align/operands", where,
                                 "%s: the two operands are %s and %s: they must be node a and node b" % (sc, first, second), prog.config)
                    continue
                NX, NY = (NA, NB) if X == "a" else (NB, NA)
                LX, LY = (LA, LB) if X == "a" else (LB, LA)
                want_first = "profile" if shape[2] == "P" else "sequences"
                want_second = "profile" if shape[3] == "P" else "sequences"
                if (want_first not in str(first)) or (want_second not in str(second)) or (NX == 1) != (want_first == "sequences") or (NY == 1) != (want_second == "sequences"):
                    ck.violation("R07b", "R07b/do_align/kernel-choice", where,
                                 "%s: the %s kernel is given %s and %s: a single sequence goes in as its residues, a group as its profile" % (
                                     sc, kind, first, second), prog.config)
                if (f["len_a"], f["len_b"], f["enda"], f["endb"]) != (LX, LY, LX, LY):
                    ck.violation("R07b", "R07b/do_align/swap-lengths", where,
                                 "%s: the first operand is node %s (length %d) and the second node %s (length %d), but the driver is started with "
                                 "len_a=%s len_b=%s enda=%s endb=%s: the kernels take the right edge and the terminal gap prices from them" % (
                                     sc, X, LX, Y, LY, f["len_a"], f["len_b"], f["enda"], f["endb"]), prog.config)
                if kind == "seqprofile" and f["sip"] != NX:
                    ck.violation("R07b", "R07b/do_align/sip", where,
                                 "%s: m->sip is %s, the profile operand (node %s) has %d members" % (sc, f["sip"], X, NX), prog.config)
                after = tr[tr.index(runs[0]) + 1:]
                mir = [t for t in after if t[1] == "mirror_path_n"]
                if bool(mir) != (X == "b"):
                    ck.violation("R07b", "R07b/do_align/mirror", where,
                                 "%s: a and b are %s for this call but the path is %smirrored afterwards: the returned path is transposed" % (
                                     sc, "swapped" if X == "b" else "not swapped", "" if mir else "not "), prog.config)
                elif mir and [v for v in mir[0][2][1:3]] != [LA, LB]:
                    ck.violation("R07b", "R07b/do_align/mirror-lengths", site(prog, mir[0][4], "mirror_path_n"),
                                 "%s: mirror_path_n is given the lengths %s; the lengths of a and b are %d and %d" % (sc, mir[0][2][1:3], LA, LB), prog.config)
                fin = tr[-1][3]
                if (fin.get("m->len_a"), fin.get("m->len_b")) != (LA, LB):
                    ck.violation("R07b", "R07b/do_align/restore-lengths", site(prog, tr[-1][4], "add_gap_info_to_path_n"),
                                 "%s: when the path is post-processed m->len_a / m->len_b are %s / %s, the lengths of a and b are %d / %d" % (
                                     sc, fin.get("m->len_a"), fin.get("m->len_b"), LA, LB), prog.config)
    if kernels != {"seqseq", "profileprofile", "seqprofile"}:
        ck.violation("R07b", "R07b/do_align/kernels", site(prog, D), "do_align reaches only the kernels %s" % sorted(kernels), prog.config)
    ck.floor("R07b", n, 12, "scenarios of do_align")


def r07i(ck, prog):
    """a sequence enters the profile kernels with its full substitution row: the loop of make_profile_n that copies
    subm[c][j] into the profile column covers every residue code the largest alphabet produces (codes 0..L-1 from the evaluated
    alphabet tables) - a code outside the copied range scores 0 against everything and alignments that differ only in what that
    residue pairs with become ties"""
    from ..affine import loop_range
    from ..consteval import alphabet_tables
    F = prog.fn("make_profile_n")
    try:
        tabs = alphabet_tables(prog)
    except Exception as e:
        raise AnalysisBroken("R07i: alphabets not evaluated (%s)" % e)
    t = tabs.get("ALPHA_ambigiousPROTEIN")
    if not t or t.get("to_internal") is None:
        raise AnalysisBroken("R07i: the protein alphabet was not evaluated")
    need = max(v for v in t["to_internal"] if isinstance(v, int) and v >= 0) + 1
    n = 0
    for a in F.body.find("BinaryOperator"):
        if a.d["op"] != "=":
            continue
        r = a.kids[1].strip(casts=True)
        l = a.kids[0].strip()
        if not (r.k == "ArraySubscriptExpr" and r.kids[0].strip(casts=True).k == "ArraySubscriptExpr" and "subm" in r.text() and l.k == "ArraySubscriptExpr"):
            continue
        loops = [x for x in a.ancestors() if x.k in ("ForStmt", "WhileStmt")]
        rg = loop_range(loops[0]) if loops else None
        if rg is None or r.kids[1].strip(casts=True).text() != rg[0] or l.kids[1].strip(casts=True).text() != rg[0]:
            raise AnalysisBroken("R07i: the loop of make_profile_n that copies the substitution row is not a recognised counting loop")
        n += 1
        lo, hi = rg[1], rg[2]
        where = site(prog, loops[0], "substitution row")
        ck.inst("R07i", where, "make_profile_n copies the scores of codes [%s, %s); the protein alphabet produces codes 0..%d" % (lo, hi, need - 1), prog.config)
        if not (lo.is_const() and hi.is_const()):
            raise AnalysisBroken("R07i: the range [%s, %s) of the substitution-row copy is not constant" % (lo, hi))
        if lo.c > 0 or hi.c < need:
            ck.violation("R07i", "R07i/make_profile_n/row-coverage", where,
                         "make_profile_n copies the substitution scores of codes [%d, %d) only; the protein alphabet produces codes 0..%d: "
                         "residue code(s) %s score 0 against every column of a profile, so the profile kernels no longer maximise the "
                         "sum-of-pairs score for sequences containing them" % (lo.c, hi.c, need - 1,
                                                                               sorted(set(range(need)) - set(range(lo.c, hi.c)))), prog.config)
    ck.floor("R07i", n, 1, "substitution-row copies in make_profile_n")


def r07c(ck, prog):
    """sum-of-pairs weighting of groups, decided per scenario (kcheck/scenario.py; distinct member counts and lengths make the
    arguments tell the nodes apart): a profile's gap penalties are scaled by the number of sequences in the group it is
    aligned against - set_gap_penalties_n(profile[X], length of X, member count of the other node), for every node that is a
    profile and for no node that is a single sequence - and in the sequence-vs-group shape m->sip is the member count of the
    very group whose profile is handed over as prof1"""
    import re as _re
    from ..scenario import Run, Undecided
    D = prog.fn("do_align")
    n = 0
    nsip = 0
    for NA, NB in ((1, 1), (1, 5), (3, 1), (3, 5)):
        for LA, LB in ((10, 20), (20, 10)):
            atoms = {"msa->nsip[a]": NA, "msa->nsip[b]": NB, "msa->sequences[a]->len": LA, "msa->plen[a]": LA,
                     "msa->sequences[b]->len": LB, "msa->plen[b]": LB}
            sc = "a %s (%d member(s), length %d), b %s (%d member(s), length %d)" % (
                "sequence" if NA == 1 else "profile", NA, LA, "sequence" if NB == 1 else "profile", NB, LB)
            r = Run(prog, D, atoms, also=("init_alnmem",), stop_at=("add_gap_info_to_path_n",),
                        keep=("mirror_path_n", "set_gap_penalties_n", "make_profile_n", "aln_runner", "aln_runner_serial"))
            try:
                tr = r.run()
            except Undecided as e:
                raise AnalysisBroken("R07c: do_align is not evaluated for the scenario '%s': %s" % (sc, e))
            runs = [t for t in tr if t[1] in ("aln_runner", "aln_runner_serial")]
            if len(runs) != 1:
                raise AnalysisBroken("R07c: scenario '%s' reaches the Hirschberg driver %d time(s)" % (sc, len(runs)))
            before = tr[:tr.index(runs[0])]
            scaled = {}
            for t in before:
                if t[1] != "set_gap_penalties_n":
                    continue
                m_ = _re.findall(r"profile\[(a|b)\]", str(t[2][0])) if t[2] else []
                if len(set(m_)) != 1 or len(t[2]) < 3:
                    raise AnalysisBroken("R07c: arguments of set_gap_penalties_n at %s not understood (%s)" % (t[4].loc, t[2]))
                scaled[m_[0]] = (t[2][1], t[2][2], t[4])
            n += 1
            for X, NX, LX, NO in (("a", NA, LA, NB), ("b", NB, LB, NA)):
                if NX == 1:
                    if X in scaled:
                        ck.violation("R07c", "R07c/do_align/branch-%s" % X, site(prog, scaled[X][2], "set_gap_penalties_n"),
                                     "%s: set_gap_penalties_n is applied to node %s, which is a single sequence (its profile was just made by "
                                     "make_profile_n with plain penalties)" % (sc, X), prog.config)
                    continue
                if X not in scaled:
                    ck.violation("R07c", "R07c/do_align/sides", site(prog, D),
                                 "%s: the gap penalties of profile %s are not rescaled before the kernels run" % (sc, X), prog.config)
                    continue
                ln, w, node = scaled[X]
                where = site(prog, node, "set_gap_penalties_n")
                ck.inst("R07c", where, "%s: set_gap_penalties_n(profile[%s], %s, %s)" % (sc, X, ln, w), prog.config)
                if ln != LX:
                    ck.violation("R07c", "R07c/do_align/length-%s" % X, where,
                                 "%s: the profile of node %s is given the length %s, its length is %d" % (sc, X, ln, LX), prog.config)
                if w != NO:
                    ck.violation("R07c", "R07c/do_align/weight-%s" % X, where,
                                 "%s: the gap penalties of profile %s are scaled by %s instead of the size (%d) of the group it is aligned "
                                 "against: a gap opposite an n-member group costs n*n instead of n*m" % (sc, X, w, NO), prog.config)
            st = runs[0][3]
            if st.get("m->prof1") is not None and st.get("m->prof2") is None and st.get("m->seq2") is not None:
                nsip += 1
                m_ = _re.findall(r"profile\[(a|b)\]", str(st.get("m->prof1")))
                X = m_[0] if len(set(m_)) == 1 else None
                want = {"a": NA, "b": NB}.get(X)
                where = site(prog, runs[0][4], "sip")
                ck.inst("R07c", where, "%s: prof1 = %s, sip = %s" % (sc, st.get("m->prof1"), st.get("m->sip")), prog.config)
                if X is None:
                    raise AnalysisBroken("R07c: which node's profile is handed over as prof1 is not understood (%s)" % st.get("m->prof1"))
                if st.get("m->sip") != want:
                    ck.violation("R07c", "R07c/do_align/sip-%s" % X, where,
                                 "%s: the group handed to the sequence-profile kernel is node %s (%d members) but m->sip is %s: gaps "
                                 "opened in the group are priced for the wrong number of sequences, the kernel no longer maximises the "
                                 "sum-of-pairs score" % (sc, X, want, st.get("m->sip")), prog.config)
    ck.floor("R07c", n, 8, "scenarios of do_align")
    ck.floor("R07c", nsip, 2, "sequence-vs-group scenarios")


COORDS = ("startb", "endb", "starta", "enda", "len_a", "len_b")


def _border_pred(F, n, depth=0):
    """canonical form of a test on the rectangle coordinates: (predicate text, polarity) with predicate one of
    '<field>!=0' / '<f1>!=<f2>'; None if the expression is not a test on coordinates only; locals with one
    definition are looked through"""
    n = n.strip(casts=True)
    if n.k == "UnaryOperator" and n.d["op"] == "!":
        r = _border_pred(F, n.kids[0], depth)
        return None if r is None else (r[0], not r[1])
    a = _coord_atom(F, n, depth)
    if a is not None and a != "0":
        return ("%s!=0" % a, True)
    if n.k == "DeclRefExpr" and n.d.get("dk") == "Var" and not n.d.get("g") and depth < 3:
        defs = local_defs(F, n.d["did"])
        if len(defs) == 1 and defs[0][0] is not None:
            return _border_pred(F, defs[0][0], depth + 1)
        return None
    if n.k == "BinaryOperator" and n.d["op"] in ("==", "!="):
        x, y = _coord_atom(F, n.kids[0], depth), _coord_atom(F, n.kids[1], depth)
        if x is None or y is None:
            return None
        x, y = sorted((x, y), key=lambda t: (t == "0", t))
        if x == "0":
            return None
        return ("%s!=%s" % (x, y), n.d["op"] == "!=")
    return None


def _coord_atom(F, n, depth=0):
    n = n.strip(casts=True)
    if n.cv == 0 and n.k == "IntegerLiteral":
        return "0"
    if n.k == "MemberExpr" and n.d.get("rec") == "aln_mem" and n.d["field"] in COORDS:
        return n.d["field"]
    if n.k == "DeclRefExpr" and n.d.get("dk") == "Var" and not n.d.get("g") and depth < 3:
        defs = local_defs(F, n.d["did"])
        if len(defs) == 1 and defs[0][0] is not None:
            return _coord_atom(F, defs[0][0], depth + 1)
    return None


def _penalty_family(stmt):
    """which gap-penalty family a branch uses: 'interior' (gpo/gpe, profile columns 27/28), 'terminal' (tgpe, column 29)"""
    fam = set()
    for x in stmt.walk():
        if x.k == "DeclRefExpr" and x.d.get("name") in ("gpo", "gpe"):
            fam.add("interior")
        elif x.k == "DeclRefExpr" and x.d.get("name") == "tgpe":
            fam.add("terminal")
        elif x.k == "MemberExpr" and x.d.get("field") in ("gpo", "gpe"):
            fam.add("interior")
        elif x.k == "MemberExpr" and x.d.get("field") == "tgpe":
            fam.add("terminal")
        elif x.k == "ArraySubscriptExpr" and x.kids[1].cv in (27, 28):
            fam.add("interior")
        elif x.k == "ArraySubscriptExpr" and x.kids[1].cv == 29:
            fam.add("terminal")
    return fam


def r07d(ck, prog):
    """border tests have the right polarity: in every kernel pass (and the private helpers it calls), an if on the
    rectangle coordinates (startb != 0, endb != len_b, canonicalised through local flags, `!`, ==/!=) whose branches use
    gap penalties uses the interior ones (gpo/gpe, columns 27/28) on the side where the border lies inside the sequence
    and the terminal one (tgpe, column 29) on the other.  (Which test guards which update is compared across the three
    kernels semantically by R07e, per border situation.)"""
    n = 0
    for suf in ("foward", "backward"):
        for kk in KINDS_:
            F = prog.fn(kk + suf)
            fns = [F]
            for c in F.body.calls():
                H = prog.functions.get(c.callee) if c.callee else None
                if H is not None and H.body is not None and H.static and H.file == F.file and H not in fns:
                    fns.append(H)
            for G in fns:
                for i in G.body.find("IfStmt"):
                    r = _border_pred(G, i.child("cond"))
                    if r is None:
                        continue
                    pred, pol = r
                    th, el = i.child("then"), i.child("else")
                    inner, outer = (th, el) if pol else (el, th)
                    fi = _penalty_family(inner) if inner is not None else set()
                    fo = _penalty_family(outer) if outer is not None else set()
                    n += 1
                    ck.inst("R07d", site(prog, i, pred), "%s: when %s uses %s penalties, otherwise %s" % (G.name, pred, sorted(fi), sorted(fo)), prog.config)
                    if ("terminal" in fi and "interior" not in fi) or ("interior" in fo and "terminal" not in fo):
                        ck.violation("R07d", "R07d/%s/polarity/%d" % (G.name, i.line), site(prog, i, pred),
                                     "%s: the branch taken when %s (the border lies inside the sequence) uses %s penalties and the other "
                                     "branch %s: terminal and interior gap prices are swapped at this border" % (G.name, pred, sorted(fi), sorted(fo)), prog.config)
    return n


# --------------------------------------------------------------------------- R07e: recurrences agree
def _float_effects(stmt):
    """assignment nodes under stmt whose target is float state (a float local or a float field / element)"""
    out = []
    for x in stmt.walk():
        if (x.k == "BinaryOperator" and x.d["op"] == "=") or x.k == "CompoundAssignOperator":
            if x.kids[0].strip(casts=True).ty in ("float", "double"):
                out.append(x)
        elif x.k == "DeclStmt":
            for dd in x.d["decls"]:
                if dd.get("init") and dd.get("ty") in ("float", "double", "const float"):
                    out.append(x)
    return out


def _idx_canon(F):
    def canon(n, depth=0):
        n = n.strip(casts=True)
        if n.k == "IntegerLiteral":
            return str(n.cv)
        if n.k == "MemberExpr" and n.d.get("rec") == "aln_mem":
            return n.d["field"]
        if n.k == "DeclRefExpr":
            if n.d.get("dk") == "Var" and not n.d.get("g") and depth < 3:
                defs = local_defs(F, n.d["did"])
                if len(defs) == 1 and defs[0][0] is not None:
                    d0 = defs[0][0].strip(casts=True)
                    if d0.k == "MemberExpr" and d0.d.get("rec") == "aln_mem":
                        return d0.d["field"]
            return n.d["name"]
        if n.k == "BinaryOperator" and n.d["op"] in ("+", "-"):
            return "%s%s%s" % (canon(n.kids[0], depth), n.d["op"], canon(n.kids[1], depth))
        raise Unsupported("row index %s" % n.text()[:40])
    return canon


FLOATS = ("float", "double", "const float", "const double")
PURE = {"O", "E", "T"}


def _atoms(v):
    return {a for alt in v for a, _ in alt}


class Summ:
    """cuts one kernel pass at its loops into straight-line pieces and evaluates each piece in the max-plus domain under one
    border situation sigma.  Private helpers are walked in place (float parameters bound to the argument values), so that
    extracting the first-row loop or the score accumulation into a helper does not change the summary."""

    def __init__(self, prog, F, sigma):
        self.prog, self.F, self.sigma = prog, F, sigma
        self.segs, self.where = [], {}
        self.consts = {}            # did -> value of float locals defined once from penalties only (kept across pieces)
        self.depth = 0

    # -- evaluation context -------------------------------------------------------------
    def new_eval(self, F):
        ev = Eval(F, lambda b: "struct states" in b.strip(casts=True).ty, _idx_canon(F))
        ev.consts = self.consts
        ev.cond_resolver = lambda c: self.resolve(ev.F, c)
        ev.call_hook = lambda n: self.call_value(ev, n)
        return ev

    def resolve(self, F, cond):
        r = _border_pred(F, cond)
        if r is None or r[0] not in self.sigma:
            return None
        return self.sigma[r[0]] == r[1]

    def helper(self, c):
        H = self.prog.functions.get(c.callee) if c.callee else None
        return H if H is not None and H.body is not None else None

    def call_value(self, ev, call):
        """value of a call to a helper that returns a float (max3f(a,b,c), add_column_score(acc, ...))"""
        H = self.helper(call)
        if H is None or self.depth > 2:
            raise Unsupported("call %s" % call.text()[:40])
        return self.inline(ev, H, call, None, 0)[1]

    def inline(self, ev, H, call, path, nloop):
        saved_F, saved_canon = ev.F, ev.idx_canon
        mine = set()
        for i, prm in enumerate(H.params):
            if prm["ty"] in FLOATS and i < len(call.args):
                ev.loc[prm["did"]] = ev.ev(call.args[i])
                ev.names[prm["did"]] = "%s:%s" % (H.name, prm["name"])
                mine.add(prm["did"])
        before = set(ev.loc)
        ev.F, ev.idx_canon = H, _idx_canon(H)
        self.depth += 1
        self.ret = None
        try:
            nloop = self.run([H.body], ev, path, nloop, H)
        finally:
            self.depth -= 1
            ev.F, ev.idx_canon = saved_F, saved_canon
        ret = self.ret
        self.ret = None
        for did in (set(ev.loc) - before) | mine:        # the helper's own locals are not part of the caller's state
            ev.loc.pop(did, None)
            nm = ev.names.pop(did, None)
            ev.where.pop(nm, None)
        return nloop, ret

    # -- statements ---------------------------------------------------------------------------
    def snapshot(self, key, ev):
        self.segs.append((key, ev.outputs()))
        self.where.update({(key, k): v for k, v in ev.where.items()})

    def store(self, ev, lhs, val, F):
        ev.assign(lhs, val)
        l = lhs.strip(casts=True)
        if l.k == "DeclRefExpr" and _atoms(val) <= PURE and len(local_defs(F, l.d["did"])) == 1:
            self.consts[l.d["did"]] = val

    def run(self, stmts, ev, path, nloop, F):
        for st in stmts:
            k = st.k
            if k == "NullStmt":
                continue
            if k == "ReturnStmt":
                if st.kids and st.kids[0].strip(casts=True).ty in FLOATS:
                    self.ret = ev.ev(st.kids[0])
                continue
            if k == "CompoundStmt":
                nloop = self.run(st.kids, ev, path, nloop, F)
            elif k == "DeclStmt":
                for kid in st.kids:
                    if kid.role == "declinit" and kid.decl.get("ty") in FLOATS:
                        if kid.strip(casts=True).k in ("IntegerLiteral", "FloatingLiteral"):
                            continue        # `register float pa = 0;` - a placeholder, not part of the recurrence
                        if ev.penalty_class_of_def(kid):
                            continue        # a penalty scalar: resolved at its uses
                        v = ev.ev(kid)
                        ev.loc[kid.decl["did"]] = v
                        ev.names[kid.decl["did"]] = kid.decl["name"]
                        ev.where[kid.decl["name"]] = kid
                        if _atoms(v) <= PURE:
                            self.consts[kid.decl["did"]] = v
                    elif kid.role == "declinit":
                        nloop = self.effects_of_calls(kid, ev, path, nloop)
            elif k == "BinaryOperator" and st.d["op"] == "=":
                if st.kids[0].strip(casts=True).ty in FLOATS:
                    self.store(ev, st.kids[0], ev.ev(st.kids[1]), F)
                else:
                    nloop = self.effects_of_calls(st.kids[1], ev, path, nloop)
            elif k == "CompoundAssignOperator":
                if st.kids[0].strip(casts=True).ty in FLOATS:
                    if st.d["op"] not in ("+=", "-="):
                        raise Unsupported("compound assignment %s" % st.text()[:40])
                    r = ev.ev(st.kids[1])
                    self.store(ev, st.kids[0], vadd(ev.ev(st.kids[0]), r if st.d["op"] == "+=" else vneg(r)), F)
            elif k == "UnaryOperator" and st.d["op"] in ("++", "--"):
                if st.kids[0].strip(casts=True).ty in FLOATS:
                    raise Unsupported("float increment")
            elif k == "CallExpr":
                nloop = self.effects_of_calls(st, ev, path, nloop)
            elif k == "IfStmt":
                nloop = self.run_if(st, ev, path, nloop, F)
            elif k == "DoStmt" and st.child("cond") is not None and st.child("cond").strip(casts=True).cv == 0:
                nloop = self.run([st.child("body")], ev, path, nloop, F)      # do { ... } while(0): a macro body
            elif k in ("ForStmt", "WhileStmt", "DoStmt"):
                nloop = self.run_loop(st, ev, path, nloop, F)
            else:
                if _float_effects(st) or any(self.helper(c) for c in st.find("CallExpr")):
                    raise Unsupported("%s changes float state" % k)
        return nloop

    def effects_of_calls(self, expr, ev, path, nloop):
        """a call whose value is not a float (a status, a pointer): walk the helper if it touches float state"""
        for c in expr.find("CallExpr"):
            H = self.helper(c)
            if H is None:
                continue
            if _float_effects(H.body) or any(self.helper(x) for x in H.body.find("CallExpr")):
                if self.depth > 2 or path is None:
                    raise Unsupported("call %s" % c.text()[:40])
                nloop, _ = self.inline(ev, H, c, path, nloop)
        return nloop

    def run_if(self, st, ev, path, nloop, F):
        cond = st.child("cond")
        r = self.resolve(F, cond)
        if r is not None:
            br = st.child("then") if r else st.child("else")
            if br is not None:
                nloop = self.run([br], ev, path, nloop, F)
            return nloop
        th, el = st.child("then"), st.child("else")
        touched = _float_effects(st) or any(self.helper(c) for c in st.find("CallExpr"))
        if not touched:
            return nloop
        # `if (x > y) v = x; else v = y;`  /  `if (!(v > c)) v = c;`  -  a maximum spelled as a branch
        c, neg = cond.strip(casts=True), False
        while c.k == "UnaryOperator" and c.d["op"] == "!":
            c, neg = c.kids[0].strip(casts=True), not neg
        if not (c.k == "BinaryOperator" and c.d["op"] in (">", ">=", "<", "<=") and c.kids[0].strip(casts=True).ty in FLOATS):
            raise Unsupported("float state changed under the test %s" % cond.text()[:40])
        if any(x.k in ("ForStmt", "WhileStmt", "DoStmt") for x in st.walk()):
            raise Unsupported("loop under the comparison %s" % cond.text()[:40])
        P, Q = ev.ev(c.kids[0]), ev.ev(c.kids[1])
        if c.d["op"] in ("<", "<="):
            P, Q = Q, P
        e1, e2 = ev.copy(), ev.copy()
        for e in (e1, e2):
            e.consts, e.cond_resolver, e.call_hook = ev.consts, ev.cond_resolver, ev.call_hook
        self.run([th], e1, path, nloop, F)
        if el is not None:
            self.run([el], e2, path, nloop, F)
        if neg:
            e1, e2 = e2, e1             # e1: state when P > Q holds, e2: when it does not
        for key in set(e1.loc) | set(e2.loc):
            v1, v2 = e1.loc.get(key, ev.loc.get(key)), e2.loc.get(key, ev.loc.get(key))
            if v1 == v2:
                if v1 is not None:
                    ev.loc[key] = v1
                    ev.names[key] = e1.names.get(key) or e2.names.get(key)
                continue
            if v1 == P and v2 == Q:
                ev.loc[key] = vmax_(P, Q)
                ev.names[key] = e1.names.get(key) or e2.names.get(key)
                ev.where[ev.names[key]] = e1.where.get(ev.names[key]) or e2.where.get(ev.names[key])
            else:
                raise Unsupported("the branches of %s do not select the larger operand" % cond.text()[:40])
        for key in set(e1.cells) | set(e2.cells):
            v1, v2 = e1.cells.get(key, ev.cells.get(key)), e2.cells.get(key, ev.cells.get(key))
            if v1 == v2 and v1 is not None:
                ev.cells[key] = v1
            elif v1 == P and v2 == Q:
                ev.cells[key] = vmax_(P, Q)
            else:
                raise Unsupported("the branches of %s do not select the larger operand" % cond.text()[:40])
            ev.where["s[%s].%s" % key] = e1.where.get("s[%s].%s" % key) or e2.where.get("s[%s].%s" % key)
        return nloop

    def run_loop(self, st, ev, path, nloop, F):
        body = st.child("body")
        eff = _float_effects(body)
        if not eff and not any(self.helper(c) and (_float_effects(self.helper(c).body)) for c in body.find("CallExpr")):
            return nloop
        if eff and all(e.k == "CompoundAssignOperator" and e.d["op"] == "+=" and e.kids[1].strip(casts=True).k == "BinaryOperator"
                       and e.kids[1].strip(casts=True).d["op"] == "*" for e in eff):
            for e in eff:       # the score of the cell accumulated over the letters of a column
                self.store(ev, e.kids[0], vadd(ev.ev(e.kids[0]), ev.ev(e.kids[1])), F)
            return nloop
        if path is None:
            raise Unsupported("a DP loop inside a helper that is used as a value")
        nloop += 1
        # the straight-line piece before the loop ends here; the piece after it starts from fresh entry values
        self.snapshot("%s#%d" % (path, nloop - 1), ev)
        ev.loc.clear()
        ev.cells.clear()
        ev.where.clear()
        sub = self.new_eval(F)
        sub.F, sub.idx_canon = ev.F, ev.idx_canon
        p2 = "%s/L%d" % (path, nloop)
        n2 = self.run([body], sub, p2, 0, F)
        self.snapshot("%s#%d" % (p2, n2), sub)
        return nloop


def vmax_(a, b):
    return a | b


def kernel_summary(F, sigma, prog=None):
    """([(piece, {output name: max-plus value})], carried locals, {(piece, name): node}) for one kernel pass under the
    border assignment sigma ({'startb!=0': bool, 'endb!=len_b': bool})"""
    sm = Summ(prog or F.prog, F, sigma)
    top = sm.new_eval(F)
    n = sm.run([F.body], top, "", 0, F)
    sm.snapshot("#%d" % n, top)
    # locals that no piece reads at its entry are temporaries of one piece, not part of the carried state
    carried = set()
    for _, o in sm.segs:
        for v in o.values():
            carried |= {a[:-3] for a in _atoms(v) if a.endswith("@in")}
    return sm.segs, carried, sm.where


def _rename_vals(o, m):
    """apply the renaming m (old local name -> new) to the output names and the entry atoms of one piece"""
    def rn_atom(a):
        return m.get(a[:-3], a[:-3]) + "@in" if a.endswith("@in") and a[:-3] in m else a
    return {m.get(k, k): frozenset(frozenset((rn_atom(a), c) for a, c in alt) for alt in v) for k, v in o.items()}


def find_renaming(src, ref, src_names, ref_names):
    """src / ref: {situation: [(piece, outputs)]}.  A one-to-one map of src's private local names onto ref's under which
    every piece of src equals the piece of ref (cells and ref's carried locals compared); {} if the names already agree;
    None if there is none"""
    import itertools
    src_names = {n for n in src_names if not n.startswith("s[")}
    ref_names = {n for n in ref_names if not n.startswith("s[")}
    if src_names <= ref_names:
        return {}
    old, new = sorted(src_names - ref_names), sorted(ref_names - src_names)
    if len(old) != len(new) or len(old) > 7:
        return None
    keep = lambda o: {k: v for k, v in o.items() if k.startswith("s[") or k in ref_names}
    for perm in itertools.permutations(new):
        m = dict(zip(old, perm))
        if all([(p, keep(_rename_vals(o, m))) for p, o in src[key]] == [(p, keep(o)) for p, o in ref[key]] for key in src):
            return m
    return None


def _rename_carried(kinds, sums, wheres, per_kernel, suf):
    """carried temporaries are private names: if a kernel calls them differently from its siblings (pa/pga/pgb vs
    diag_a/diag_ga/diag_gb), look for the one-to-one renaming under which all its pieces equal the reference kernel's;
    none found => the pass is organised differently => no verdict"""
    import itertools
    for kk in kinds:
        per_kernel[kk] = {n for n in per_kernel[kk] if not n.startswith("s[")}
    sets = [frozenset(per_kernel[kk]) for kk in kinds]
    ref_set = max(sets, key=lambda x: sets.count(x))
    ref = next(kk for kk in kinds if frozenset(per_kernel[kk]) == ref_set)
    for kk in kinds:
        mine = set(per_kernel[kk])
        if mine == set(ref_set) or mine <= set(ref_set):
            continue
        old, new = sorted(mine - set(ref_set)), sorted(set(ref_set) - mine)
        if len(old) != len(new) or len(old) > 7:
            raise AnalysisBroken("R07e: %s carries %s between iterations, its siblings %s: the pass is organised differently; not compared"
                                 % (kk + suf, sorted(mine), sorted(ref_set)))
        keys = [k for k in sums if k[0] == kk]
        found = None
        for perm in itertools.permutations(new):
            m = dict(zip(old, perm))
            ok = True
            for (_, vals) in keys:
                a = [(p, {k: v for k, v in _rename_vals(o, m).items() if k.startswith("s[") or k in ref_set}) for p, o in sums[(kk, vals)]]
                b = [(p, {k: v for k, v in o.items() if k.startswith("s[") or k in ref_set}) for p, o in sums[(ref, vals)]]
                if a != b:
                    ok = False
                    break
            if ok:
                found = m
                break
        if found is None:
            raise AnalysisBroken("R07e: %s names its carried temporaries %s (siblings: %s) and no one-to-one renaming makes its pieces equal "
                                 "to theirs: organised differently or different - not decided" % (kk + suf, old, new))
        for (_, vals) in keys:
            sums[(kk, vals)] = [(p, _rename_vals(o, found)) for p, o in sums[(kk, vals)]]
            wheres[(kk, vals)] = {(p, found.get(n, n)): node for (p, n), node in wheres[(kk, vals)].items()}
        per_kernel[kk] = {found.get(n, n) for n in mine}


def r07e(ck, prog, kinds=None, sufs=("foward", "backward")):
    """the three kernels compute the same recurrence: for each pass (forward / backward) and each border situation,
    every straight-line piece of the pass - first row, start of a row, interior cell, last cell - leaves the same
    max-plus value in every DP cell and carried local, after mapping each kernel's penalty source to its class
    (open / extension / terminal) and its score source to S"""
    import itertools
    preds = ("startb!=0", "endb!=len_b")
    KINDS_ = kinds or globals()["KINDS_"]
    for suf in sufs:
        sums = {}
        wheres = {}
        per_kernel = {}
        for kk in KINDS_:
            F = prog.fn(kk + suf)
            for vals in itertools.product((True, False), repeat=2):
                sigma = dict(zip(preds, vals))
                try:
                    sums[(kk, vals)], c, wh = kernel_summary(F, sigma, prog)
                    per_kernel.setdefault(kk, set()).update(c)
                    wheres[(kk, vals)] = wh
                except Unsupported as e:
                    raise AnalysisBroken("R07e: %s is not in the max-plus fragment (%s); the recurrences are not compared" % (kk + suf, e))
        _rename_carried(KINDS_, sums, wheres, per_kernel, suf)
        carried = set().union(*per_kernel.values())
        for vals in itertools.product((True, False), repeat=2):
            rows = {kk: [(p, {k: v for k, v in o.items() if k.startswith("s[") or k in carried}) for p, o in sums[(kk, vals)]] for kk in KINDS_}
            shapes = {kk: [(p, tuple(sorted(o))) for p, o in rows[kk]] for kk in KINDS_}
            ref_shape = shapes[KINDS_[0]]
            if any(shapes[kk] != ref_shape for kk in KINDS_):
                diff = [kk + suf for kk in KINDS_ if shapes[kk] != ref_shape]
                raise AnalysisBroken("R07e: the %s passes are not organised alike (%s differs from %s in its loops or in the cells / locals it "
                                     "sets); the recurrences are not compared" % (suf, diff, KINDS_[0] + suf))
            label = ", ".join("%s=%s" % (p, v) for p, v in zip(preds, vals))
            for si, (path, _) in enumerate(ref_shape):
                for name in sorted(rows[KINDS_[0]][si][1]):
                    vs = {kk: rows[kk][si][1][name] for kk in KINDS_}
                    allv = list(vs.values())
                    ref = max(allv, key=lambda v: allv.count(v))
                    ck.inst("R07e", site(prog, prog.fn(KINDS_[0] + suf), "%s %s" % (path or "/", name)),
                            "%s pass [%s] piece %s: %s = %s in all three kernels" % (suf, label, path or "/", name, show(ref)), prog.config)
                    for kk in KINDS_:
                        if vs[kk] != ref:
                            vocab = lambda k2: {a for v in rows[k2][si][1].values() for alt in v for a, _ in alt if a.endswith("@in")}
                            foreign = vocab(kk) - set().union(*[vocab(k2) for k2 in KINDS_ if vs[k2] == ref])
                            if foreign:
                                raise AnalysisBroken("R07e: %s computes %s in piece %s from %s, which its siblings do not use there: "
                                                     "the pass is organised differently and the recurrences are not compared"
                                                     % (kk + suf, name, path, sorted(foreign)))
                            ck.violation("R07e", "R07e/%s/%s/%s/%s" % (kk + suf, path or "top", name, "".join("TF"[not v] for v in vals)),
                                         site(prog, wheres[(kk, vals)].get((path, name), prog.fn(kk + suf)), name),
                                         "%s, piece %s with %s: %s = %s, but %s in its sibling kernels: this kernel scores an alignment "
                                         "differently from the recurrence the other two implement" % (kk + suf, path or "/", label, name, show(vs[kk]), show(ref)),
                                         prog.config)


# --------------------------------------------------------------------------- R07g: backward = mirror image of forward
def _mirror_name(t):
    return (t.replace("j-1", "\0").replace("j+1", "j-1").replace("\0", "j+1")
             .replace("startb", "\1").replace("endb", "startb").replace("\1", "endb"))


def _mirror_val(v):
    return frozenset(frozenset((_mirror_name(a), c) for a, c in alt) for alt in v)


def r07g(ck, prog):
    """in each kernel the backward pass is the mirror image of the forward pass: exchanging left and right (j-1 <-> j+1,
    startb <-> endb, and the two border situations) turns every piece of the forward pass into the corresponding piece of
    the backward pass - the two halves of a Hirschberg step score one and the same alignment model"""
    import itertools
    n = 0
    for kk in KINDS_:
        Ff, Fb = prog.fn(kk + "foward"), prog.fn(kk + "backward")
        for x, y in itertools.product((True, False), repeat=2):
            try:
                f, cf, _ = kernel_summary(Ff, {"startb!=0": x, "endb!=len_b": y}, prog)
                b, cb, wb = kernel_summary(Fb, {"startb!=0": y, "endb!=len_b": x}, prog)
            except Unsupported as e:
                raise AnalysisBroken("R07g: %s passes are not in the max-plus fragment (%s)" % (kk, e))
            fmir = [(p, {_mirror_name(k): _mirror_val(v) for k, v in o.items()}) for p, o in f]
            cf = {_mirror_name(n_) for n_ in cf}
            m = find_renaming({0: fmir}, {0: b}, cf, cb)
            if m is None:
                raise AnalysisBroken("R07g: %sfoward and %sbackward name their carried temporaries differently (%s / %s) and no one-to-one "
                                     "renaming makes them mirror images: organised differently or different - not decided" % (kk, kk, sorted(cf), sorted(cb)))
            if m:
                fmir = [(p, _rename_vals(o, m)) for p, o in fmir]
                cf = {m.get(n_, n_) for n_ in cf}
            carried = cf | cb
            keep = lambda o: {k: v for k, v in o.items() if k.startswith("s[") or k in carried}
            fm = [(p, keep(o)) for p, o in fmir]
            bb = [(p, keep(o)) for p, o in b]
            if [(p, sorted(o)) for p, o in fm] != [(p, sorted(o)) for p, o in bb]:
                raise AnalysisBroken("R07g: %sfoward and %sbackward are not organised as mirror images (different loops or cells); not compared" % (kk, kk))
            label = "forward[startb!=0=%s, endb!=len_b=%s]" % (x, y)
            for (p, o), (_, o2) in zip(fm, bb):
                for k in sorted(o):
                    n += 1
                    if o[k] != o2[k]:
                        vocab = lambda oo: {a for v in oo.values() for alt in v for a, _ in alt if a.endswith("@in")}
                        if vocab(o2) - vocab(o) or vocab(o) - vocab(o2):
                            raise AnalysisBroken("R07g: %s piece %s uses different quantities in the two passes (%s); not compared"
                                                 % (kk, p, sorted((vocab(o2) - vocab(o)) | (vocab(o) - vocab(o2)))))
                        ck.violation("R07g", "R07g/%s/%s/%s/%s%s" % (kk, p, k, "TF"[not x], "TF"[not y]), site(prog, wb.get((p, k), Fb), k),
                                     "%sbackward piece %s: %s = %s, but the mirror image of the forward pass (%s) gives %s: the two halves of a "
                                     "Hirschberg step score different models, so the split they agree on is not the optimum of either"
                                     % (kk, p, k, show(o2[k]), label, show(o[k])), prog.config)
        ck.inst("R07g", site(prog, Fb), "%sbackward is the mirror image of %sfoward in all four border situations" % (kk, kk), prog.config)
    ck.floor("R07g", n, 300, "mirrored values")


# --------------------------------------------------------------------------- R07f: meet-in-the-middle candidates agree
def meetup_candidates(F, sigma):
    """[(piece, transition code, max-plus value of the candidate)] of a meetup function under the border assignment"""
    def base_canon(n):
        n = n.strip(casts=True)
        if n.k == "DeclRefExpr":
            defs = local_defs(F, n.d["did"])
            if len(defs) == 1 and defs[0][0] is not None:
                d0 = defs[0][0].strip(casts=True)
                if d0.k == "MemberExpr" and d0.d.get("rec") == "aln_mem":
                    return d0.d["field"]
            return n.d["name"]
        if n.k == "MemberExpr" and n.d.get("rec") == "aln_mem":
            return n.d["field"]
        raise Unsupported("DP row %s" % n.text()[:30])

    class MEval(Eval):
        def ev(self, n):
            n0 = n.strip(casts=True)
            if n0.k == "MemberExpr":
                b = n0.kids[0].strip(casts=True)
                if b.k == "ArraySubscriptExpr" and "struct states" in b.kids[0].strip(casts=True).ty:
                    return atom("%s.%s" % (base_canon(b.kids[0]), n0.d["field"]))
            return Eval.ev(self, n)

    ev = MEval(F, lambda b: False, lambda i: "i")
    loopvar = {}            # did of the induction variable of the candidate loop -> text of its start value

    def sit(c):
        """truth of a test on the situation: border predicates, `<loop variable> == <its start | 0>` (the first column),
        and && / || / ! of those; None if it is something else"""
        c = c.strip(casts=True)
        if c.k == "UnaryOperator" and c.d["op"] == "!":
            v = sit(c.kids[0])
            return None if v is None else (not v)
        if c.k == "BinaryOperator" and c.d["op"] in ("&&", "||"):
            a, b = sit(c.kids[0]), sit(c.kids[1])
            if a is None or b is None:
                return None
            return (a and b) if c.d["op"] == "&&" else (a or b)
        r = _border_pred(F, c)
        if r is not None:
            return None if r[0] not in sigma else sigma[r[0]] == r[1]
        if c.k == "BinaryOperator" and c.d["op"] in ("==", "!="):
            l, r_ = c.kids[0].strip(casts=True), c.kids[1].strip(casts=True)
            for x, y in ((l, r_), (r_, l)):
                if x.k == "DeclRefExpr" and x.d.get("did") in loopvar and "first" in sigma:
                    if y.cv == 0 and y.k == "IntegerLiteral":
                        v = sigma["first"] and not sigma.get("startb!=0", True)       # i == 0: the first column of a rectangle at the left end
                    elif y.text().replace(" ", "") == loopvar[x.d["did"]] or _coord_atom(F, y) == "startb":
                        v = sigma["first"]
                    else:
                        return None
                    return v if c.d["op"] == "==" else (not v)
        return None
    ev.cond_resolver = sit
    out = []

    def walk(stmts, piece):
        for st in stmts:
            if st.k == "CompoundStmt":
                walk(st.kids, piece)
            elif st.k == "DoStmt" and st.child("cond") is not None and st.child("cond").strip(casts=True).cv == 0:
                walk([st.child("body")], piece)                # do { ... } while(0): a macro body
            elif st.k == "DeclStmt":
                for kid in st.kids:
                    if kid.role == "declinit" and kid.decl.get("ty") in FLOATS and not ev.penalty_class_of_def(kid):
                        try:
                            v = ev.ev(kid)
                        except Unsupported:
                            continue
                        if _atoms(v) <= PURE:                   # a price chosen once, e.g. (endb == len_b) ? tgpe : gpe
                            ev.consts[kid.decl["did"]] = v
            elif st.k == "BinaryOperator" and st.d["op"] == "=" and st.kids[0].strip().k == "DeclRefExpr" and st.kids[0].strip().ty in FLOATS \
                    and any(x.k == "CallExpr" and x.callee in ("fabsf", "fabs") for x in st.kids[1].walk()):
                # the tie-break term: distance of the column from the middle of the rectangle
                d_ = st.kids[0].strip()
                ev.loc[d_.d["did"]] = atom("dist")
                ev.names[d_.d["did"]] = d_.d["name"]
            elif st.k == "CompoundAssignOperator" and st.d["op"] in ("/=", "*=") and st.kids[0].strip().k == "DeclRefExpr" \
                    and st.kids[0].strip().d["did"] in ev.loc and st.kids[1].strip(casts=True).k in ("FloatingLiteral", "IntegerLiteral"):
                d_ = st.kids[0].strip()
                cur = ev.loc[d_.d["did"]]
                if len(cur) == 1 and len(next(iter(cur))) == 1:
                    (nm, co), = next(iter(cur))
                    ev.loc[d_.d["did"]] = atom("%s%s%g" % (nm, st.d["op"][0], float(st.kids[1].strip(casts=True).d["v"])), co)
                else:
                    raise Unsupported("scaling of %s" % d_.text())
            elif st.k in ("ForStmt", "WhileStmt", "DoStmt"):
                init = st.child("init")
                if init is not None and init.k == "BinaryOperator" and init.d["op"] == "=" and init.kids[0].strip().k == "DeclRefExpr":
                    loopvar[init.kids[0].strip().d["did"]] = init.kids[1].strip(casts=True).text().replace(" ", "")
                walk([st.child("body")], "loop")
            elif st.k == "IfStmt":
                r = sit(st.child("cond"))
                if r is not None:
                    br = st.child("then") if r else st.child("else")
                    if br is not None:
                        walk([br], piece)
                    continue
                if _border_pred(F, st.child("cond")) is not None:
                    raise Unsupported("border test %s" % st.child("cond").text()[:40])
                c = st.child("cond").strip(casts=True)
                if c.k == "BinaryOperator" and c.d["op"] in (">", ">=") and c.kids[0].strip(casts=True).ty in ("float", "double"):
                    codes = [a.kids[1].cv for a in st.child("then").find("BinaryOperator") if a.d["op"] == "=" and a.kids[0].strip().ty == "int"
                             and a.kids[1].cv is not None and a.kids[0].strip().k == "DeclRefExpr" and "trans" in a.kids[0].strip().d["name"]]
                    stores = [a for a in st.child("then").find("BinaryOperator") if a.d["op"] == "=" and a.kids[0].strip().ty in ("float", "double")]
                    if len(codes) != 1 or len(stores) != 1:
                        raise Unsupported("candidate at line %d sets %d codes / %d maxima" % (st.line, len(codes), len(stores)))
                    v, v2 = ev.ev(c.kids[0]), ev.ev(stores[0].kids[1])
                    out.append((piece if piece else "end", codes[0], v, v2, st))
                elif list(st.find("IfStmt"))[1:]:
                    raise Unsupported("candidates under the test %s" % c.text()[:40])
    walk([F.body], "")
    return out


def r07f(ck, prog):
    """the three meet-in-the-middle functions price every transition alike: for each border situation and each transition
    code, forward state + backward state - penalty is the same max-plus form in all three (penalty sources mapped to
    open / extension / terminal), and the value compared is the value stored as the new maximum"""
    import itertools
    preds = ("startb!=0", "endb!=len_b", "first")
    n = 0
    allt = {}
    for vals in itertools.product((True, False), repeat=3):
        sigma = dict(zip(preds, vals))
        label = ", ".join("%s=%s" % (p, v) for p, v in zip(preds, vals))
        tabs = {}
        for name in MEETUPS:
            F = prog.fn(name)
            try:
                cands = meetup_candidates(F, sigma)
            except Unsupported as e:
                raise AnalysisBroken("R07f: %s is not in the max-plus fragment (%s); the candidates are not compared" % (name, e))
            if len(cands) < 6:
                raise AnalysisBroken("R07f: only %d candidates recognised in %s" % (len(cands), name))
            for piece, code, v, v2, st in cands:
                if v != v2:
                    ck.violation("R07f", "R07f/%s/%s/%d/stored" % (name, piece, code), site(prog, st, "transition %d" % code),
                                 "%s: the candidate for transition %d compares %s but stores %s as the new maximum" % (name, code, show(v), show(v2)), prog.config)
            tabs[name] = cands
            allt[(name, vals)] = cands
        keys = {name: sorted((p, c) for p, c, _, _, _ in tabs[name]) for name in MEETUPS}
        if len({tuple(k) for k in keys.values()}) != 1:
            raise AnalysisBroken("R07f: the meetup functions do not offer the same candidates under %s (%s); not compared (R07a decides the code sets)" % (label, keys))
        for (piece, code) in keys[MEETUPS[0]]:
            vs = {name: [v for p, c, v, _, _ in tabs[name] if (p, c) == (piece, code)] for name in MEETUPS}
            allv = [tuple(v) for v in vs.values()]
            ref = max(allv, key=lambda v: allv.count(v))
            n += 1
            ck.inst("R07f", site(prog, prog.fn(MEETUPS[0]), "%s code %d" % (piece, code)),
                    "[%s] %s candidate for transition %d = %s in all three" % (label, piece, code, " / ".join(show(v) for v in ref)), prog.config)
            for name in MEETUPS:
                if tuple(vs[name]) != ref:
                    st = [s_ for p, c, _, _, s_ in tabs[name] if (p, c) == (piece, code)][0]
                    ck.violation("R07f", "R07f/%s/%s/%d/%s" % (name, piece, code, "".join("TF"[not v] for v in vals)), site(prog, st, "transition %d" % code),
                                 "%s, %s candidate for transition %d with %s: %s, but %s in its sibling kernels: the split point is chosen with "
                                 "a different price than the passes computed" % (name, piece, code, label, " / ".join(show(v) for v in vs[name]),
                                                                                " / ".join(show(v) for v in ref)), prog.config)
    ck.floor("R07f", n, 30, "meetup candidates")
    # the tie-break term is the same quantity in the scan and at the last column (distance from the middle, scaled alike)
    for name in MEETUPS:
        ties = {}
        for (nm, vals), cands in allt.items():
            if nm != name:
                continue
            for p_, c_, v, _, st in cands:
                for a_ in _atoms(v):
                    if a_.startswith("dist") or a_.startswith("sub"):
                        ties.setdefault(p_, {}).setdefault(a_, st)
        kinds_ = {p_: sorted(d_) for p_, d_ in ties.items()}
        ck.inst("R07f", site(prog, prog.fn(name), "tie-break"), "%s: tie-break term per piece: %s" % (name, kinds_), prog.config)
        if len({tuple(v) for v in kinds_.values()}) > 1:
            odd = min(ties.items(), key=lambda kv: sum(1 for x in kinds_.values() if x == sorted(kv[1])))
            st = next(iter(odd[1].values()))
            ck.violation("R07f", "R07f/%s/tie-term" % name, site(prog, st, "tie-break"),
                         "%s subtracts %s in its %s piece but %s elsewhere: the tie-break term, meant to be a thousandth of the distance from "
                         "the middle, is in raw score units there and overrides real score differences" % (
                             name, sorted(odd[1]), odd[0], [v for k_, v in kinds_.items() if k_ != odd[0]][:1]), prog.config)
    # R07h: a terminal price belongs to a terminal column.  Away from the first column of the scan (first = False) a candidate
    # of the loop must not depend on whether the rectangle starts at the left end of the sequence: the passes price an
    # interior column the same in every border situation (their interior piece contains no border test)
    nh = 0
    for name in MEETUPS:
        for endv in (True, False):
            a = {(p, c): v for p, c, v, _, _ in allt[(name, (True, endv, False))] if p == "loop"}
            b = {(p, c): (v, st) for p, c, v, _, st in allt[(name, (False, endv, False))] if p == "loop"}
            for key in sorted(set(a) & set(b)):
                nh += 1
                v0, (v1, st) = a[key], b[key]
                if v0 != v1:
                    ck.violation("R07h", "R07h/%s/%d" % (name, key[1]), site(prog, st, "transition %d" % key[1]),
                                 "%s: for every column of the scan - not only the first - the candidate for transition %d is %s when the "
                                 "rectangle starts at the left end of the sequence and %s otherwise: the terminal price is charged for a gap "
                                 "in the middle of the sequence, the forward and backward passes charge the interior price there, so the "
                                 "split is chosen with a score no alignment has" % (name, key[1], show(v1), show(v0)), prog.config)
        ck.inst("R07h", site(prog, prog.fn(name), "interior columns"), "%s: loop candidates away from the first column compared across the left-border situations" % name, prog.config)
    ck.floor("R07h", nh, 30, "interior-column candidates")


KINDS_ = ("aln_seqseq_", "aln_seqprofile_", "aln_profileprofile_")


def _r07e_controls(ck):
    """the same rule code on /verif/controls/c07.c: one recurrence written three ways must agree; a kernel that charges the
    extension penalty where its siblings charge the open penalty must be reported"""
    from ..controls import control_program
    from ..report import Check
    cp = control_program(ck.work, "c07.c")
    for tag, expect in (("ok", False), ("bad", True)):
        sub = Check(ck.prop, ck.tier, ck.seed)
        sub.known = {}
        r07e(sub, cp, kinds=tuple("%s_r07e_%s_" % (tag, x) for x in "abc"), sufs=("fwd",))
        ck.control("R07e", "%s_r07e_{a,b,c}_fwd" % tag, bool(sub.violations), expect)


def run(ck, progs):
    describe(ck)
    ck.rule("R07e", "the three forward kernels implement one recurrence and the three backward kernels one: every straight-line piece leaves the same max-plus normal form in every DP cell and carried local (penalties mapped to open/extension/terminal classes, scores to S)")
    ck.rule("R07h", "a terminal gap price is charged only at a terminal column: away from the first column of the scan the meetup candidates do not depend on whether the rectangle starts at the left end of the sequence")
    ck.rule("R07f", "the three meetup functions price each transition alike under every border situation, and store the value they compared")
    ck.rule("R07g", "in each kernel the backward pass is the mirror image (left<->right) of the forward pass, piece by piece, in max-plus normal form")
    ck.rule("R07d", "border tests have the right polarity: the branch taken when the border lies inside the sequence uses the interior gap penalties, the other the terminal one")
    ck.rule("R07i", "make_profile_n copies the substitution scores of every residue code the protein alphabet produces into the profile column")
    ck.rule("R07c", "group weighting: each profile's gap penalties are scaled by the size of the other group, for both sides, on the branch where that side is a profile")
    from . import c02
    for cfg, prog in progs.items():
        ck.attempt(r07a, ck, prog)
        ck.attempt(r07b, ck, prog)
        ck.attempt(r07c, ck, prog)
        ck.attempt(r07i, ck, prog)
        ck.attempt(r07d, ck, prog)
        ck.attempt(r07e, ck, prog)
        ck.attempt(_r07e_controls, ck)
        ck.attempt(r07f, ck, prog)
        ck.attempt(r07g, ck, prog)
        before = len(ck.instances)
        ck.attempt(c02.r02g, ck, prog)
        for i in ck.instances[before:]:
            i["rule"] = "R07b"
        for v in ck.violations:
            if v["rule"] == "R02g":
                v["rule"] = "R07b"
                v["key"] = v["key"].replace("R02g", "R07b")
    return ("Producer/consumer tables of the transition codes: every `transition = k` in the three meetup functions with "
            "the forward/backward states and penalty family of its guarding comparison and the value stored as maximum; "
            "switch(transition) of aln_continue with the boundary states each case gives to the two sub-problems; operand "
            "set-up, kernel shape and path mirroring around every aln_runner call of do_align; dispatch agreement of the "
            "parallel and serial Hirschberg steps.")
