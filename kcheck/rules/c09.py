"""C09 — the scoring parameters used are exactly the ones the caller selected.

Decided: which constant reaches which field under which test (override triples, the
type table, the --type dispatch chain, the -1 plumbing, the documented numbers).
Not decided: end-to-end equality of an explicit-default run and a default run.
"""
import os
import re

from ..build import AnalysisBroken
from ..util import (site, guards, stores_to_field, const_value, macro_of_const, switch_table,
                    has_goto, if_chain)

PENALTIES = ("gpo", "gpe", "tgpe")
# the documented API (README "--type" list): word -> the type constant of that name
WORD_TO_TYPE = {
    "protein": "KALIGN_TYPE_PROTEIN",
    "divergent": "KALIGN_TYPE_PROTEIN_DIVERGENT",
    "dna": "KALIGN_TYPE_DNA",
    "internal": "KALIGN_TYPE_DNA_INTERNAL",
    "rna": "KALIGN_TYPE_RNA",
}
# README.md "dna" parameter list (documented numbers; slot table, DESIGN R09e)
README_DNA = {"match": 5, "mismatch": -4, "gpo": 8, "gpe": 6, "tgpe": 0, "internal_tgpe": 8}


def describe(ck):
    ck.rule("R09a", "aln_param_init: each of gpo/gpe/tgpe is overridden by the same-named parameter, "
                    "under a test of that same parameter, exactly once")
    ck.rule("R09b", "aln_param_init: every KALIGN_TYPE_* constant of the wrong kind is rejected, every constant "
                    "of the right kind reaches its own parameter setter, default reaches a setter of the kind")
    ck.rule("R09c", "set_aln_type: each documented --type word selects the constant of that name "
                    "(first matching link of the ordered dispatch chain)")
    ck.rule("R09d", "'not given' is a negative constant from init_param to aln_param_init: option table, "
                    "option cases, and same-named arguments sit in same-named parameter positions")
    ck.rule("R09e", "documented DNA numbers: match/mismatch/gpo/gpe/tgpe of dna and internal equal README's list")
    ck.rule("R09j", "every setter fills a full square of the substitution matrix starting at code 0, of the same size as its sibling setters of the same kind")
    ck.rule("R09i", "every per-type parameter setter assigns gpo, gpe and tgpe (the object is malloc'ed): sibling setters agree")
    ck.rule("R09f", "set_gap_penalties_n copies each base penalty column (55/56/57) into the column of the same kind the kernels read (27/28/29) on every path, border column and column loop")
    ck.rule("R09g", "make_profile_n stores the negated penalty of the matching kind into every gap column (23/24/25 mod 32)")
    ck.rule("R09h", "update_n: in every branch the gap events counted (columns 23/24/25) and the penalties charged are of the same kinds and weighted by the same group size")
    ck.not_decided.append("end-to-end equality of 'explicit default' and 'default' runs on all inputs")
    ck.assumptions.append("a negative penalty means 'not given' (README / parameters.c convention)")


def _param_refs(expr, fn, names):
    out = set()
    for r in expr.refs():
        if r.d.get("dk") == "Parm" and r.d["name"] in names:
            out.add(r.d["name"])
    return out


def r09a(ck, prog):
    fn = prog.fn("aln_param_init")
    for p in PENALTIES:
        if fn.param_index(p) is None:
            raise AnalysisBroken("R09a slot: aln_param_init has no parameter named %s" % p)
        prog.field("aln_param", p)
    # the overrides may have been moved into a private helper that receives the three penalties under the same names
    if not any(_param_refs(rhs, fn, PENALTIES) for p in PENALTIES for a, l, rhs in stores_to_field(fn.body, "aln_param", p)):
        for c in fn.body.calls():
            H = prog.functions.get(c.callee) if c.callee else None
            if H is not None and H.static and H.file == fn.file and all(H.param_index(p) is not None for p in PENALTIES):
                by_name = all(a.strip(casts=True).k == "DeclRefExpr" and a.strip(casts=True).d["name"] == H.params[i]["name"]
                              for i, a in enumerate(c.args) if H.params[i]["name"] in PENALTIES)
                if by_name and any(_param_refs(rhs, H, PENALTIES) for p in PENALTIES for a, l, rhs in stores_to_field(H.body, "aln_param", p)):
                    fn = H
                    break
        else:
            raise AnalysisBroken("R09a: no store of a penalty parameter into aln_param found in aln_param_init or a private helper "
                                 "that receives gpo/gpe/tgpe by name")
    n_override = {p: 0 for p in PENALTIES}
    for p in PENALTIES:
        for asg, lhs, rhs in stores_to_field(fn.body, "aln_param", p):
            src = _param_refs(rhs, fn, PENALTIES)
            if not src:
                continue                      # a constant default, not an override
            where = site(prog, asg, "ap->%s" % p)
            ck.inst("R09a", where, "override store %s = %s" % (lhs.text(), rhs.text()), prog.config)
            if src != {p}:
                ck.violation("R09a", "R09a/aln_param_init/%s-source" % p, where,
                             "field %s is overridden from parameter(s) %s, not from %s" % (p, sorted(src), p),
                             prog.config)
                continue
            n_override[p] += 1
            gs = [(c, pol) for c, pol in guards(asg) if _param_refs(c, fn, PENALTIES)]
            if not gs:
                ck.violation("R09a", "R09a/aln_param_init/%s-unguarded" % p, where,
                             "override of %s is not conditional on %s having been given (no test of a "
                             "penalty parameter guards it): the -1 sentinel would replace the type default" % (p, p),
                             prog.config)
                continue
            tested = set()
            for c, pol in gs:
                tested |= _param_refs(c, fn, PENALTIES)
            if p not in tested:
                ck.violation("R09a", "R09a/aln_param_init/%s-guard" % p, where,
                             "override of %s is guarded by a test of %s instead of %s: %s given alone is "
                             "ignored, and %s given alone overwrites %s with the 'not given' sentinel" % (
                                 p, sorted(tested), p, p, sorted(tested)[0], p), prog.config)
            elif tested != {p}:
                ck.violation("R09a", "R09a/aln_param_init/%s-guard-extra" % p, where,
                             "override of %s additionally depends on %s: it cannot be set on its own" % (
                                 p, sorted(tested - {p})), prog.config)
            else:
                # polarity/shape of the test: must accept exactly the non-negative values
                c, pol = gs[0]
                cc = c.strip()
                ok = False
                if cc.k == "BinaryOperator" and len(cc.kids) == 2:
                    op = cc.d["op"]
                    l, r = cc.kids
                    lv, rv = const_value(l), const_value(r)
                    if rv is not None and lv is None:
                        ok = (op == ">=" and rv == 0 and pol) or (op == "<" and rv == 0 and not pol) or \
                             (op == ">" and -1 <= rv < 0 and pol) or (op == "<=" and -1 <= rv < 0 and not pol)
                    elif lv is not None and rv is None:
                        ok = (op == "<=" and lv == 0 and pol) or (op == ">" and lv == 0 and not pol) or \
                             (op == "<" and -1 <= lv < 0 and pol) or (op == ">=" and -1 <= lv < 0 and not pol)
                if not ok:
                    ck.violation("R09a", "R09a/aln_param_init/%s-test" % p, where,
                                 "the test guarding the override of %s (%s, %s branch) does not accept exactly "
                                 "the non-negative values" % (p, c.text(), "true" if pol else "false"), prog.config)
    for p in PENALTIES:
        if n_override[p] == 0:
            ck.violation("R09a", "R09a/aln_param_init/%s-missing" % p, site(prog, fn),
                         "no override store of field %s from parameter %s: it cannot be set" % (p, p), prog.config)
        elif n_override[p] > 1:
            ck.violation("R09a", "R09a/aln_param_init/%s-dup" % p, site(prog, fn),
                         "%d override stores of %s" % (n_override[p], p), prog.config)
    ck.floor("R09a", sum(1 for i in ck.instances if i["rule"] == "R09a" and i["config"] == prog.config), 3,
             "override stores")


def _type_constants(prog):
    consts = {}
    for name, m in prog.macros.items():
        if name.startswith("KALIGN_TYPE_"):
            consts[name] = prog.macro_int(name)
    if len(consts) < 6:
        raise AnalysisBroken("R09b slot: only %d KALIGN_TYPE_* constants found" % len(consts))
    kinds = {}
    for name in consts:
        if "UNDEFINED" in name:
            kinds[name] = "undefined"
        elif "PROTEIN" in name:
            kinds[name] = "protein"
        else:
            kinds[name] = "nucleotide"
    return consts, kinds


def r09b(ck, prog):
    fn = prog.fn("aln_param_init")
    consts, kinds = _type_constants(prog)
    byval = {}
    for n, v in consts.items():
        if v in byval:
            ck.violation("R09b", "R09b/kalign.h/%s-alias" % n, prog.rel(prog.macros[n]["loc"]),
                         "%s and %s have the same value %d" % (n, byval[v], v), prog.config)
        byval[v] = n
    # the (sequence kind x type constant) table, read off by evaluating aln_param_init once per pair (kcheck/scenario.py): which
    # parameter setter is called, or whether the error exit is taken - however the dispatch is written (two switches, one
    # switch over a combined key, a table of function pointers indexed by constants is NOT covered: no verdict)
    from ..scenario import Run, Undecided
    pn = {p_["name"] for p_ in fn.params}
    if not {"biotype", "type"} <= pn:
        raise AnalysisBroken("R09b slot: aln_param_init has no parameters named biotype / type (%s)" % sorted(pn))
    bio = {"nucleotide": prog.macro_int("ALN_BIOTYPE_DNA"), "protein": prog.macro_int("ALN_BIOTYPE_PROTEIN")}
    setter_names = tuple(sorted({c.callee for c in fn.body.calls() if c.callee and c.callee.startswith("set_subm_gaps")} |
                                {f_.name for f_ in prog.lib_functions() if f_.name.startswith("set_subm_gaps")}))
    for kind, bv in bio.items():
        used = {}
        acts = {}
        for name in sorted(consts):
            r = Run(prog, fn, {"biotype": bv, "type": consts[name]}, fork=True, keep=setter_names)
            try:
                tr = r.run()
            except Undecided as e:
                raise AnalysisBroken("R09b: aln_param_init is not evaluated for (%s, %s): %s" % (kind, name, e))
            odd = [f_ for f_ in r.forks if not any(w in f_ for w in ("gpo", "gpe", "tgpe"))]
            if odd or any(t[0] == "call" and not t[1] for t in tr):
                raise AnalysisBroken("R09b: for (%s, %s) aln_param_init's choice depends on something the scenario does not fix (%s): a "
                                     "table-driven dispatch is not decided" % (kind, name, (odd or ["a call through a function pointer"])[0][:60]))
            setters = sorted({t[1] for t in tr if (t[1] or "").startswith("set_subm_gaps")})
            rejects = any(x.k == "GotoStmt" or (x.k == "ReturnStmt" and x not in fn.success_returns()) for x in r.exits) and \
                not any(x.k == "ReturnStmt" and x in fn.success_returns() for x in r.exits)
            node = next((t[4] for t in tr if (t[1] or "").startswith("set_subm_gaps")), None) or (r.exits[0] if r.exits else fn)
            acts[name] = (setters, rejects, node)
        for name in sorted(consts):
            k = kinds[name]
            setters, rejects, node = acts[name]
            where = site(prog, node, "%s/%s" % (kind, name))
            ck.inst("R09b", where, "%s sequences, type %s -> %s" % (kind, name, "reject" if rejects and not setters else (",".join(setters) or "nothing")), prog.config)
            if k == "undefined":
                if rejects or len(setters) != 1:
                    ck.violation("R09b", "R09b/aln_param_init/%s-switch-%s" % (kind, name), where,
                                 "the undefined type must select the default parameters of %s sequences; it "
                                 "reaches %s" % (kind, "an error" if rejects else setters), prog.config)
                continue
            if k != kind:
                if not rejects or setters:
                    ck.violation("R09b", "R09b/aln_param_init/%s-switch-%s" % (kind, name), where,
                                 "%s type %s is not rejected for %s sequences: it selects %s" % (k, name, kind, ",".join(setters) or "nothing"), prog.config)
            else:
                if rejects or len(setters) != 1:
                    ck.violation("R09b", "R09b/aln_param_init/%s-switch-%s" % (kind, name), where,
                                 "%s type %s on %s sequences must select exactly one parameter set; it reaches %s" % (
                                     k, name, kind, "an error" if rejects else setters), prog.config)
                else:
                    if setters[0] in used:
                        ck.violation("R09b", "R09b/aln_param_init/%s-switch-%s" % (kind, name), where,
                                     "%s and %s select the same parameter set %s" % (name, used[setters[0]], setters[0]),
                                     prog.config)
                    used[setters[0]] = name
        ua = acts.get("KALIGN_TYPE_UNDEFINED")
        if ua and ua[0] and ua[0][0] not in used:
            ck.violation("R09b", "R09b/aln_param_init/%s-switch-default" % kind, site(prog, fn),
                         "the default parameter set %s of %s sequences is not the set of any %s type" % (ua[0][0], kind, kind), prog.config)
    n = sum(1 for i in ck.instances if i["rule"] == "R09b" and i["config"] == prog.config)
    ck.floor("R09b", n, 12, "(kind, type) table entries")


def _documented_words(prog):
    """the --type words: README's bullet list, cross-checked with the help text literals"""
    readme = os.path.join(prog.repo, "README.md")
    words = []
    try:
        txt = open(readme).read()
    except OSError:
        raise AnalysisBroken("R09c slot: README.md not readable")
    m = re.search(r"`--type` option(.*?)The `--gpo`", txt, re.S)
    if m:
        words = re.findall(r"^- `(\w+)`\s*:", m.group(1), re.M)
    if len(words) < 5:
        raise AnalysisBroken("R09c slot: README's --type list not found (got %s)" % words)
    return words


def _link_matches(cond, word, argname):
    """does the dispatch test `cond` accept `word`?  returns True/False, or None if not understood"""
    c = cond.strip()
    neg = False
    while c.k == "UnaryOperator" and c.d["op"] == "!":
        neg = not neg
        c = c.kids[0].strip()
    eq0 = None
    if c.k == "BinaryOperator" and c.d["op"] in ("==", "!=") and len(c.kids) == 2:
        l, r = c.kids[0].strip(casts=True), c.kids[1].strip(casts=True)
        if r.cv == 0 or "NULL" in r.mac or "NULL" in c.kids[1].mac:
            eq0 = (c.d["op"] == "==")
            c = l
        elif l.cv == 0:
            eq0 = (c.d["op"] == "==")
            c = r
    if c.k != "CallExpr" or c.callee not in ("strstr", "strcmp", "strncmp", "strcasecmp", "strncasecmp"):
        return None
    lits = [a.strip(casts=True) for a in c.args]
    lit = [a for a in lits if a.k == "StringLiteral"]
    if len(lit) != 1:
        return None
    s = lit[0].d["s"]
    if c.callee == "strstr":
        if lits[1] is not lit[0]:
            return None
        truth = s in word            # non-NULL  <=> found
        if eq0 is not None:
            truth = (not truth) if eq0 else truth      # == NULL means not found
    else:
        w, t = word, s
        if "case" in c.callee:
            w, t = w.lower(), t.lower()
        if c.callee.startswith("strn"):
            n = c.args[2].cv
            if n is None:
                return None
            same = w[:n] == t[:n]
        else:
            same = w == t
        # strcmp returns 0 on equality
        if eq0 is None:
            truth = not same          # if(strcmp(..)) is true when different
        else:
            truth = same if eq0 else not same
    return (not truth) if neg else truth


def _table_dispatch(prog, fn, chain):
    """dispatch by scanning a constant table {keyword, type} in ascending order, first hit wins"""
    from ..model import N
    from ..affine import loop_range
    links, final = chain
    if len(links) != 1:
        return None
    cond, then = links[0]
    calls = [c for c in cond.calls() if c.callee in ("strstr", "strcmp")]
    if len(calls) != 1:
        return None
    c = calls[0]
    needle = c.args[1].strip(casts=True)
    if needle.k != "MemberExpr" or needle.kids[0].strip(casts=True).k != "ArraySubscriptExpr":
        return None
    arr = needle.kids[0].strip(casts=True).kids[0].strip(casts=True)
    idx = needle.kids[0].strip(casts=True).kids[1].strip(casts=True)
    if arr.k != "DeclRefExpr":
        return None
    g = [x for x in prog.globals if x["name"] == arr.d["name"] and x.get("init")]
    if not g:
        return None
    init = N(g[0]["init"], None, "init", None)
    rec = prog.records.get(needle.d.get("rec"))
    if rec is None:
        return None
    fnames = [f["name"] for f in rec["fields"]]
    rows = []
    for row in init.kids:
        if row.k != "InitListExpr" or len(row.kids) != len(fnames):
            return None
        vals = dict(zip(fnames, row.kids))
        kw = vals[needle.d["field"]].strip(casts=True)
        const = None
        for k, v in vals.items():
            if k != needle.d["field"]:
                const = macro_of_const(v.strip(casts=True))
        if kw.k != "StringLiteral" or const is None:
            return None
        rows.append((kw.d["s"], const))
    loops = [a for a in cond.ancestors() if a.k == "ForStmt"]
    rng = loop_range(loops[0]) if loops else None
    if rng is None or rng[0] != idx.text() or not (rng[1].is_const() and rng[1].c == 0):
        return None
    # the hit must leave the loop
    from ..util import ends_in_jump
    if not ends_in_jump(then) and not any(x.k in ("ReturnStmt", "BreakStmt") for x in then.walk()):
        return None
    # truth polarity: strstr(...) non-NULL / strcmp(...) == 0
    t = cond.strip()
    if c.callee == "strstr" and t is not c and not (t.k == "BinaryOperator" and t.d["op"] == "!="):
        return None
    if c.callee == "strcmp" and not ((t.k == "UnaryOperator" and t.d["op"] == "!") or (t.k == "BinaryOperator" and t.d["op"] == "==")):
        return None
    return rows, c.callee, cond


def r09c(ck, prog):
    fn = prog.fn("set_aln_type")
    words = _documented_words(prog)
    helpfn = prog.fn("print_kalign_help")
    helptext = " ".join(s.d["s"] for s in helpfn.body.find("StringLiteral"))
    for w in words:
        if w not in WORD_TO_TYPE:
            raise AnalysisBroken("R09c slot: README documents --type word '%s' that the rule's table does not know" % w)
        if not re.search(r"\b%s\b" % re.escape(w), helptext):
            ck.violation("R09c", "R09c/print_kalign_help/%s" % w, site(prog, helpfn),
                         "README documents --type %s but the program's help text does not mention it" % w, prog.config)
    # the dispatch chain: the outermost if/else-if chain whose tests call a str* function on the parameter
    chains = []
    for n in fn.body.find("IfStmt"):
        if n.role == "else":
            continue
        links, final = if_chain(n)
        if any(c.callee in ("strstr", "strcmp", "strncmp", "strcasecmp", "strncasecmp")
               for cond, _ in links for c in cond.calls()):
            chains.append((links, final))
    table_mode = None
    if len(chains) == 1 and not any(a.strip(casts=True).k == "StringLiteral" for cond, _ in chains[0][0] for c in cond.calls() for a in c.args):
        table_mode = _table_dispatch(prog, fn, chains[0])
        if table_mode is None:
            raise AnalysisBroken("R09c: dispatch test not understood at %s" % chains[0][0][0][0].loc)
    if len(chains) != 1:
        raise AnalysisBroken("R09c: expected one string dispatch chain in set_aln_type, found %d" % len(chains))
    links, final = chains[0]
    if table_mode is not None:
        rows, test, loc_node = table_mode
        for w in words:
            want = WORD_TO_TYPE[w]
            chosen = None
            for idx, (kw, const) in enumerate(rows):
                hit = (kw in w) if test == "strstr" else (kw == w)
                if hit:
                    chosen = (idx, kw, const)
                    break
            where = site(prog, loc_node, "word=%s" % w)
            ck.inst("R09c", where, "--type %s -> table row %s" % (w, chosen), prog.config)
            if chosen is None or chosen[2] != want:
                ck.violation("R09c", "R09c/set_aln_type/%s" % w, where,
                             "--type %s is caught by table row %s and yields %s instead of %s" % (
                                 w, chosen[1] if chosen else None, chosen[2] if chosen else "nothing", want), prog.config,
                             path=["row %d: %s -> %s" % (i, k, c) for i, (k, c) in enumerate(rows)])
        und = [lit for lit in fn.body.find("IntegerLiteral") if "KALIGN_TYPE_UNDEFINED" in lit.mac]
        ck.inst("R09c", site(prog, fn, "no --type"), "absent option -> KALIGN_TYPE_UNDEFINED assigned at %d site(s)" % len(und), prog.config)
        if not und:
            ck.violation("R09c", "R09c/set_aln_type/absent", site(prog, fn), "no path assigns KALIGN_TYPE_UNDEFINED when --type is absent", prog.config)
        ck.floor("R09c", len(words), 5, "documented words")
        return
    # assigned constant per link
    def assigned(body):
        names = set()
        for lit in body.find("IntegerLiteral"):
            for m in lit.mac:
                if m.startswith("KALIGN_TYPE_"):
                    names.add(m)
        return names
    for w in words:
        chosen = None
        for idx, (cond, then) in enumerate(links):
            r = _link_matches(cond, w, fn.params[0]["name"])
            if r is None:
                raise AnalysisBroken("R09c: dispatch test not understood at %s: %s" % (cond.loc, cond.text()))
            if r:
                chosen = (idx, cond, then)
                break
        want = WORD_TO_TYPE[w]
        if chosen is None:
            where = site(prog, fn, "word=%s" % w)
            ck.inst("R09c", where, "--type %s -> no link matches" % w, prog.config)
            ck.violation("R09c", "R09c/set_aln_type/%s" % w, where,
                         "documented word '%s' is not recognised by any link of the chain" % w, prog.config)
            continue
        idx, cond, then = chosen
        got = assigned(then)
        where = site(prog, cond, "word=%s" % w)
        ck.inst("R09c", where, "--type %s -> link %d %s -> %s" % (w, idx, cond.text(), sorted(got)), prog.config)
        if got != {want}:
            ck.violation("R09c", "R09c/set_aln_type/%s" % w, where,
                         "--type %s is caught by the earlier test %s and yields %s instead of %s" % (
                             w, cond.text(), sorted(got) or "nothing", want), prog.config,
                         path=["link %d: %s" % (i, c.text()) for i, (c, _) in enumerate(links)])
    # the no-option path selects UNDEFINED (auto)
    und = [lit for lit in fn.body.find("IntegerLiteral") if "KALIGN_TYPE_UNDEFINED" in lit.mac]
    ck.inst("R09c", site(prog, fn, "no --type"), "absent option -> KALIGN_TYPE_UNDEFINED assigned at %d site(s)" % len(und),
            prog.config)
    if not und:
        ck.violation("R09c", "R09c/set_aln_type/absent", site(prog, fn),
                     "no path assigns KALIGN_TYPE_UNDEFINED when --type is absent", prog.config)
    ck.floor("R09c", len(words), 5, "documented words")


def _fev(n, env):
    """tiny evaluator for float guards: literals, bound locals, unary -, !, comparisons, && and ||; None = unknown"""
    n = n.strip(casts=True)
    if n.k in ("FloatingLiteral", "IntegerLiteral"):
        return float(n.d["v"])
    if n.cv is not None and n.k != "DeclRefExpr":
        return float(n.cv)
    if n.k == "DeclRefExpr":
        return env.get(n.d.get("did"))
    if n.k == "UnaryOperator" and n.d["op"] in ("-", "!", "+"):
        v = _fev(n.kids[0], env)
        if v is None:
            return None
        return -v if n.d["op"] == "-" else (v if n.d["op"] == "+" else float(not v))
    if n.k == "BinaryOperator":
        op = n.d["op"]
        a, b = _fev(n.kids[0], env), _fev(n.kids[1], env)
        if op == "&&":
            if (a is not None and not a) or (b is not None and not b):
                return 0.0
            return None if a is None or b is None else 1.0
        if op == "||":
            if (a is not None and a) or (b is not None and b):
                return 1.0
            return None if a is None or b is None else 0.0
        if a is None or b is None:
            return None
        return {"<": float(a < b), ">": float(a > b), "<=": float(a <= b), ">=": float(a >= b), "==": float(a == b), "!=": float(a != b),
                "+": a + b, "-": a - b, "*": a * b}.get(op)
    return None


def _drops_nonnegative(H):
    """does the option-parsing helper H return a negative constant for a parsed value of 0 or of 1?  -> description or None.
    The parsed value is the local defined from atof/strtod of the parameter."""
    from ..util import local_defs, prior_exit_guards
    parsed = None
    for d in H.body.find("DeclStmt"):
        for kid in d.kids:
            if kid.role == "declinit" and any(x.k == "CallExpr" and x.callee in ("atof", "strtod", "strtof") for x in kid.walk()):
                parsed = kid.decl["did"]
    for a in H.body.find("BinaryOperator"):
        if a.d["op"] == "=" and a.kids[0].strip().k == "DeclRefExpr" and any(x.k == "CallExpr" and x.callee in ("atof", "strtod", "strtof") for x in a.kids[1].walk()):
            parsed = a.kids[0].strip().d["did"]
    rets = list(H.body.find("ReturnStmt"))
    if parsed is None and rets and all(r.kids and r.kids[0].strip(casts=True).k == "CallExpr" and
                                       r.kids[0].strip(casts=True).callee in ("atof", "strtod", "strtof") for r in rets) and \
            not any(x.k in ("IfStmt", "SwitchStmt", "ConditionalOperator") for x in H.body.walk()):
        return None            # return (float) strtod(arg, NULL);  - the parsed number itself, unconditionally
    if parsed is None or not rets:
        raise AnalysisBroken("R09d: the parsing helper %s is not understood (no local holds the parsed number)" % H.name)
    for probe in (0.0, 1.0):
        taken = None
        for r in rets:
            gs = list(guards(r)) + [(x[0], x[1]) for x in prior_exit_guards(r)]
            feas = True
            for c, pol in gs:
                v = _fev(c, {parsed: probe})
                if v is None:
                    raise AnalysisBroken("R09d: a test in %s cannot be evaluated for a parsed value of %g (%s)" % (H.name, probe, c.text()[:40]))
                if bool(v) != pol:
                    feas = False
            if feas:
                taken = r
                break
        if taken is None or not taken.kids:
            raise AnalysisBroken("R09d: no return of %s is taken for a parsed value of %g" % (H.name, probe))
        rv = _fev(taken.kids[0], {parsed: probe})
        if rv is None:
            raise AnalysisBroken("R09d: what %s returns for a parsed value of %g is not a constant or the parsed value" % (H.name, probe))
        if rv != probe:
            return "%g for an argument that parses to %g" % (rv, probe)
    return None


def r09d(ck, prog):
    # (i) init_param: negative constants
    ip = prog.fn("init_param")
    cnt = 0
    for p in PENALTIES:
        prog.field("parameters", p)
        st = list(stores_to_field(ip.body, "parameters", p))
        if not st:
            raise AnalysisBroken("R09d: init_param does not initialise parameters.%s" % p)
        for asg, lhs, rhs in st:
            v = const_value(rhs)
            where = site(prog, asg, p)
            ck.inst("R09d", where, "init_param: %s = %s" % (lhs.text(), rhs.text()), prog.config)
            cnt += 1
            if v is None or not v < 0:
                ck.violation("R09d", "R09d/init_param/%s" % p, where,
                             "the 'not given' default of %s is %s, not a negative constant" % (p, rhs.text()), prog.config)
    # (ii) other writers of parameters.{gpo,gpe,tgpe}: option table name <-> field name
    for F in prog.all_functions:
        if F is ip:
            continue
        # option table: InitListExpr rows {"name", has_arg, flag, val}
        optval = {}
        tables = list(F.body.find("InitListExpr"))
        # the table may be a file-scope constant the function hands to getopt
        from ..model import N as _N
        used = {r.d["name"] for r in F.body.find("DeclRefExpr") if r.d.get("g")}
        for g in prog.globals:
            if g["name"] in used and g.get("init"):
                tables += list(_N(g["init"], None, "init", None).find("InitListExpr"))
        for il in tables:
            if len(il.kids) == 4 and il.kids[0].strip(casts=True).k == "StringLiteral" and il.kids[3].cv is not None:
                optval[il.kids[0].strip(casts=True).d["s"]] = il.kids[3].cv
        for p in PENALTIES:
            for asg, lhs, rhs in stores_to_field(F.body, "parameters", p):
                where = site(prog, asg, p)
                cs = None
                n = asg
                # find the case group this store belongs to
                for anc in asg.ancestors():
                    if anc.k == "SwitchStmt":
                        for labels, stmts in switch_table(anc):
                            if any(asg.within(s) for s in stmts):
                                cs = labels
                        break
                ck.inst("R09d", where, "%s: %s = %s under %s" % (
                    F.name, lhs.text(), rhs.text(), [l[2] or l[1] for l in cs] if cs else "no case"), prog.config)
                cnt += 1
                if p not in optval:
                    ck.violation("R09d", "R09d/%s/%s-option" % (F.name, p), where,
                                 "field %s is written but there is no long option named '%s'" % (p, p), prog.config)
                    continue
                if cs is None or not any(l[0] == "case" and l[1] == optval[p] for l in cs):
                    ck.violation("R09d", "R09d/%s/%s-case" % (F.name, p), where,
                                 "parameters.%s is written under case %s, but option --%s has value %d: the value of "
                                 "another option lands in %s" % (p, [l[2] or l[1] for l in cs] if cs else None, p, optval[p], p),
                                 prog.config)
                if not any(r.d["name"] == "optarg" for r in rhs.refs()):
                    ck.violation("R09d", "R09d/%s/%s-value" % (F.name, p), where,
                                 "--%s does not store the option's argument (%s)" % (p, rhs.text()), prog.config)
                    continue
                # the stored value is the number that was typed: the parse call itself, or a helper that returns the parsed
                # value for every non-negative number (zero is a value, README: negative = not given)
                r0 = rhs.strip(casts=True)
                if r0.k == "CallExpr" and r0.callee in ("atof", "strtod", "strtof", "strtold"):
                    continue
                fty = next((f["ty"] for f in prog.records.get("parameters", {}).get("fields", []) if f["name"] == p), "")
                if r0.k == "CallExpr" and r0.callee in ("atoi", "atol", "atoll", "strtol", "strtoul", "strtoll") and fty in ("float", "double"):
                    ck.violation("R09d", "R09d/%s/%s-parse" % (F.name, p), where,
                                 "--%s is a %s but its argument is parsed with %s: the fraction is cut off, '--%s 2.75' runs with 2 and the "
                                 "explicit default of a type whose default has a fraction no longer reproduces the default run" % (
                                     p, fty, r0.callee, p), prog.config)
                    continue
                H = prog.functions.get(r0.callee) if r0.k == "CallExpr" and r0.callee else None
                if H is None or H.body is None:
                    raise AnalysisBroken("R09d: how --%s turns its argument into a number is not understood (%s)" % (p, rhs.text()[:40]))
                why = _drops_nonnegative(H)
                if why:
                    ck.violation("R09d", "R09d/%s/%s-parse" % (F.name, p), where,
                                 "--%s stores %s, and %s returns %s: a penalty given as such a value is silently "
                                 "replaced by the default of the alignment type" % (p, rhs.text(), H.name, why), prog.config)
    # (iii) position-by-name along the chain of calls
    names = ("type", "gpo", "gpe", "tgpe", "n_threads", "nthreads", "biotype")
    for callee in ("kalign_run", "aln_param_init", "kalign"):
        target = prog.fn(callee)
        pnames = [p["name"] for p in target.params]
        ncalls = 0
        for F, call in prog.callers_of(callee):
            if "/tests/" in F.file:
                continue
            ncalls += 1
            for i, a in enumerate(call.args):
                a0 = a.strip(casts=True)
                nm = None
                if a0.k == "DeclRefExpr":
                    nm = a0.d["name"]
                elif a0.k == "MemberExpr":
                    nm = a0.d["field"]
                if nm is None:
                    continue
                norm = {"nthreads": "n_threads"}.get(nm, nm)
                if norm in pnames and i < len(pnames):
                    where = site(prog, call, "arg%d" % i)
                    ck.inst("R09d", where, "%s -> %s(%s)" % (a.text(), callee, pnames[i]), prog.config)
                    cnt += 1
                    if pnames[i] != norm:
                        ck.violation("R09d", "R09d/%s/%s-arg-%s" % (F.name, callee, norm), where,
                                     "argument '%s' is passed in the position of parameter '%s' of %s" % (
                                         a.text(), pnames[i], callee), prog.config)
        if callee != "kalign" and ncalls == 0:
            raise AnalysisBroken("R09d: no call to %s found" % callee)
    # (iv) the selected values are not rewritten on the way down
    for fname in ("kalign", "kalign_run"):
        Fn = prog.fn(fname)
        for pr in Fn.params:
            if pr["name"] not in ("type", "gpo", "gpe", "tgpe"):
                continue
            for r in Fn.body.refs(did=pr["did"]):
                from ..model import access_mode
                if access_mode(r) in ("write", "rmw", "addr"):
                    ck.violation("R09d", "R09d/%s/%s-rewritten" % (fname, pr["name"]), site(prog, r),
                                 "%s modifies its parameter %s before handing it on: the caller's selection is not what is used" % (
                                     fname, pr["name"]), prog.config)
            cnt += 1
            ck.inst("R09d", site(prog, Fn, pr["name"]), "%s passes %s on unmodified" % (fname, pr["name"]), prog.config)
    ck.floor("R09d", cnt, 14, "plumbing sites")


def eval_setter(prog, name):
    """constant evaluation of a per-type parameter setter on a fresh (all-undefined) aln_param with a 23x23 matrix:
    -> ({'gpo': v, 'gpe': v, 'tgpe': v}, matrix rows) with UNDEF for what the setter leaves untouched; None if the
    setter is not input-free"""
    from ..consteval import Interp, Undecided, Ptr, UNDEF
    it = Interp(prog)
    obj = it.new_struct("aln_param")
    obj["subm"] = Ptr([Ptr([UNDEF] * 23, 0) for _ in range(23)], 0)
    F = prog.fn(name)
    idx = next((i for i, p_ in enumerate(F.params) if p_["ty"].replace(" ", "").replace("const", "") == "structaln_param*"), None)
    if idx is None:
        return None
    args = [UNDEF] * len(F.params)
    args[idx] = Ptr(obj)
    try:
        it.call(name, args)
    except Undecided:
        return None
    except Exception:
        return None
    return {p_: obj[p_] for p_ in PENALTIES}, [list(row.arr) for row in obj["subm"].arr], UNDEF


def r09e(ck, prog):
    """the documented DNA numbers, read off the parameter object after constant evaluation of the setter (so it does not
    matter whether the setter assigns the fields itself, calls shared helpers or copies a table)"""
    for name, tg, tag in (("set_subm_gaps_DNA", README_DNA["tgpe"], "dna"), ("set_subm_gaps_DNA_internal", README_DNA["internal_tgpe"], "internal")):
        fn = prog.fn(name)
        r = eval_setter(prog, name)
        if r is None:
            raise AnalysisBroken("R09e: %s could not be evaluated as input-free code (constant evaluation undecided)" % name)
        pen, m, UNDEF = r
        for p, want in (("gpo", README_DNA["gpo"]), ("gpe", README_DNA["gpe"]), ("tgpe", tg)):
            where = site(prog, fn, p)
            ck.inst("R09e", where, "%s: %s = %s (README: %s)" % (tag, p, pen[p], want), prog.config)
            if pen[p] is UNDEF:
                continue                # left unset: reported by R09i
            if pen[p] != want:
                ck.violation("R09e", "R09e/%s/%s" % (name, p), where,
                             "%s default of --type %s is %s, README documents %s" % (p, tag, pen[p], want), prog.config)
        cells = [(i, j, m[i][j]) for i in range(23) for j in range(23) if m[i][j] is not UNDEF]
        diag = sorted({v for i, j, v in cells if i == j})
        off = sorted({v for i, j, v in cells if i != j})
        where = site(prog, fn, "matrix")
        ck.inst("R09e", where, "%s: %d matrix cells set; mismatch %s match %s (README: %s / %s)" % (tag, len(cells), off, diag, README_DNA["mismatch"], README_DNA["match"]), prog.config)
        if len(cells) < 16:
            raise AnalysisBroken("R09e: %s sets only %d matrix cells" % (name, len(cells)))
        if off != [README_DNA["mismatch"]] or diag != [README_DNA["match"]]:
            ck.violation("R09e", "R09e/%s/matrix" % name, where,
                         "match/mismatch scores %s/%s differ from the documented %s/%s" % (
                             diag, off, README_DNA["match"], README_DNA["mismatch"]), prog.config)


# --------------------------------------------------------------------------- R09j: the matrix covers the alphabet
def r09j(ck, prog):
    """the substitution matrix a setter fills covers every pair of codes its alphabet can produce: the nucleotide setters fill
    the same square of cells (sibling agreement), of the size of the nucleotide alphabet (codes 0..L-1 from the evaluated
    alphabet), and the protein setters the square of the protein alphabet - a letter whose row the setter skips would be
    scored with whatever the zero-initialisation left"""
    from ..consteval import alphabet_tables
    A = prog.fn("aln_param_init")
    sizes = {}
    for name in sorted({c.callee for c in A.body.calls() if c.callee and c.callee.startswith("set_subm_gaps")}):
        r = eval_setter(prog, name)
        if r is None:
            raise AnalysisBroken("R09j: %s could not be evaluated as input-free code" % name)
        pen, m, UNDEF = r
        rows = [i for i in range(23) if any(m[i][j] is not UNDEF for j in range(23))]
        cols = [j for j in range(23) if any(m[i][j] is not UNDEF for i in range(23))]
        holes = [(i, j) for i in rows for j in cols if m[i][j] is UNDEF]
        sizes[name] = (len(rows), len(cols), holes)
        ck.inst("R09j", site(prog, prog.fn(name), "matrix"), "%s fills a %d x %d block of the matrix%s" % (name, len(rows), len(cols), ", with holes" if holes else ""), prog.config)
        if holes or rows != list(range(len(rows))) or cols != list(range(len(cols))) or len(rows) != len(cols):
            ck.violation("R09j", "R09j/%s/shape" % name, site(prog, prog.fn(name), "matrix"),
                         "%s fills rows %s / columns %s%s: not a full square starting at code 0" % (name, rows[:6], cols[:6], ", holes at %s" % holes[:3] if holes else ""), prog.config)
    try:
        tabs = alphabet_tables(prog)
    except Exception as e:
        raise AnalysisBroken("R09j: alphabets not evaluated (%s)" % e)

    def ncodes(aname):
        t = tabs.get(aname)
        if not t or t.get("to_internal") is None:
            raise AnalysisBroken("R09j: alphabet %s not evaluated (%s)" % (aname, t and t.get("error")))
        return max(v for v in t["to_internal"] if isinstance(v, int) and v >= 0) + 1
    need = {"nucleotide": ncodes("ALPHA_defDNA"), "protein": ncodes("ALPHA_ambigiousPROTEIN")}
    groups = {"nucleotide": [n_ for n_ in sizes if "DNA" in n_ or "RNA" in n_], "protein": [n_ for n_ in sizes if "DNA" not in n_ and "RNA" not in n_]}
    for kind, names in groups.items():
        for n_ in names:
            ck.inst("R09j", site(prog, prog.fn(n_), "coverage"), "%s: %d codes filled, the %s alphabet produces codes 0..%d" % (n_, sizes[n_][0], kind, need[kind] - 1), prog.config)
            if sizes[n_][0] < need[kind]:
                ck.violation("R09j", "R09j/%s/size" % n_, site(prog, prog.fn(n_), "matrix"),
                             "%s fills a %d x %d block but the %s alphabet produces the codes 0..%d: the scores of code(s) %d..%d (N and the "
                             "ambiguity letters merged into it, for nucleotides) are left at the zero initialisation for this type" % (
                                 n_, sizes[n_][0], sizes[n_][1], kind, need[kind] - 1, sizes[n_][0], need[kind] - 1), prog.config)


# --------------------------------------------------------------------------- R09i: every parameter setter is complete
def r09i(ck, prog):
    """the parameter object is allocated with malloc: every per-type setter aln_param_init can dispatch to assigns all three
    gap penalties (itself or through a helper), so that none of them is whatever the heap held - siblings must agree"""
    from ..effects import Effects
    E = Effects(prog)
    A = prog.fn("aln_param_init")
    setters = {}
    for c in A.body.calls():
        H = prog.functions.get(c.callee) if c.callee else None
        if H is None or H.body is None or H.file != A.file:
            continue
        idx = next((i for i, p_ in enumerate(H.params) if p_["ty"].replace(" ", "").replace("const", "") == "structaln_param*"), None)
        if idx is None or not any(x.k in ("SwitchStmt", "CaseStmt", "DefaultStmt", "IfStmt") for x in c.ancestors()):
            continue
        r = eval_setter(prog, H.name)
        if r is not None:
            pen, _m, UNDEF = r
            setters[H.name] = ({p_ for p_ in PENALTIES if pen[p_] is not UNDEF}, c)
            continue
        S = E.of_param(H.name, idx)
        if S.unknown:
            raise AnalysisBroken("R09i: effect summary of %s incomplete: %s" % (H.name, S.unknown[0]))
        setters[H.name] = ({p_[0] for p_ in S.writes if p_}, c)
    if len(setters) < 3:
        raise AnalysisBroken("R09i slot: only %d per-type setters found in aln_param_init" % len(setters))
    for name, (w, c) in sorted(setters.items()):
        missing = [p_ for p_ in PENALTIES if p_ not in w]
        where = site(prog, prog.fn(name), "setter")
        ck.inst("R09i", where, "%s assigns %s" % (name, sorted(w & set(PENALTIES))), prog.config)
        if missing:
            others = sorted(n_ for n_, (w2, _) in setters.items() if all(p_ in w2 for p_ in missing))
            ck.violation("R09i", "R09i/%s/%s" % (name, "+".join(missing)), where,
                         "%s does not assign %s (its siblings %s do): the parameter object comes from malloc, so with this type and no "
                         "explicit value the penalty is whatever an earlier allocation left there - the alignment depends on earlier calls" % (
                             name, "/".join(missing), others[:3]), prog.config)


# --------------------------------------------------------------------------- R09f-h: the penalties on their way to the kernels
COL_CLASS = {23: "gpo", 24: "gpe", 25: "tgpe"}       # per-column gap columns, modulo 32 (23..25 counters, 55..57 base, 27..29 scaled)


def _pen_class(prog, F, n, depth=0):
    """penalty (gpo/gpe/tgpe) a scalar expression stands for: an aln_param field or a local defined once from one"""
    from ..util import local_defs
    found = set()
    for x in n.walk():
        if x.k == "MemberExpr" and x.d.get("field") in PENALTIES:
            found.add(x.d["field"])
        elif x.k == "DeclRefExpr" and x.d.get("dk") == "Var" and not x.d.get("g") and depth < 3:
            defs = local_defs(F, x.d["did"])
            rhs = [d for d, _ in defs if d is not None]
            if len(defs) == len(rhs) and 1 <= len(rhs) <= 2:
                cl = set()
                for r in rhs:
                    cl |= _pen_class(prog, F, r, depth + 1)
                if len(cl) == 1:
                    found |= cl
        elif x.k == "DeclRefExpr" and x.d.get("dk") == "Parm" and x.ty in ("float", "const float") and F.static and depth < 2:
            # a private helper that receives the penalty as an argument: what every caller passes in that position
            idx = F.param_index(x.d["name"])
            cl, ncall = set(), 0
            for G, c in prog.callers_of(F.name):
                if idx is not None and idx < len(c.args):
                    ncall += 1
                    cl |= _pen_class(prog, G, c.args[idx], depth + 1) or {"?"}
            if ncall and len(cl) == 1 and "?" not in cl:
                found |= cl
    return found


def r09f(ck, prog):
    """set_gap_penalties_n is the only place where the selected penalties (base columns 55..57 of a profile) reach the
    columns the kernels read (27..29): on every path to its return, each of 27/28/29 is stored from the base column of the
    same kind (index + 28), for the border column and inside the column loop"""
    F = prog.fn("set_gap_penalties_n")
    stores = {27: [], 28: [], 29: []}

    def collect(G, anchor):
        """stores in G; `anchor` is the node of F that stands for them on F's flow graph (the store itself, or the call of the
        private helper that contains it)"""
        for a in G.body.find("BinaryOperator"):
            if a.d["op"] != "=":
                continue
            l = a.kids[0].strip()
            if l.k == "ArraySubscriptExpr" and l.kids[1].cv in stores and l.ty == "float":
                srcs = {x.kids[1].cv for x in a.kids[1].find("ArraySubscriptExpr") if x.kids[1].cv is not None}
                stores[l.kids[1].cv].append((anchor or a, srcs, a))
    collect(F, None)
    for c in F.body.calls():
        H = prog.functions.get(c.callee) if c.callee else None
        if H is not None and H.static and H.file == F.file and H is not F:
            collect(H, c)
    stores = {k: [(anc, srcs) for anc, srcs, _ in v] for k, v in stores.items()}
    n = 0
    for col, lst in stores.items():
        where = site(prog, lst[0][0] if lst else F, "column %d" % col)
        n += len(lst)
        ck.inst("R09f", where, "set_gap_penalties_n stores column %d %d time(s), from column(s) %s" % (col, len(lst), sorted({c for _, s_ in lst for c in s_})), prog.config)
        for a, srcs in lst:
            if srcs != {col + 28}:
                ck.violation("R09f", "R09f/col%d/source" % col, site(prog, a, "column %d" % col),
                             "column %d (the %s the kernels read) is computed from column(s) %s instead of its base column %d: the kernels "
                             "price this transition with a different penalty than the one selected" % (col, COL_CLASS[col - 4], sorted(srcs), col + 28), prog.config)
        # every place that stores the column - a store outside loops, or a loop that contains one - lies on every path to the return
        sites = []
        for a, _ in lst:
            loops = [x for x in a.ancestors() if x.k in ("ForStmt", "WhileStmt", "DoStmt")]
            if loops:
                c = loops[-1].child("cond")
                if c is None:
                    raise AnalysisBroken("R09f: column loop without a condition in set_gap_penalties_n")
                sites.append(("the column loop at line %d" % loops[-1].line, F.cfg.position(c)))
            else:
                sites.append(("the store at line %d" % a.line, F.cfg.position(a)))
        if not sites:
            raise AnalysisBroken("R09f: set_gap_penalties_n no longer stores column %d" % col)
        for what, pos in sites:
            if pos is None:
                raise AnalysisBroken("R09f: %s has no position in the flow graph" % what)
            if F.succeeds_avoiding([pos]):
                ck.violation("R09f", "R09f/col%d/skipped" % col, where,
                             "set_gap_penalties_n can return without passing %s, which stores column %d: a profile that takes that path "
                             "keeps whatever update_n summed there (zeros for a pair), so none of the selected gap penalties applies to it" % (what, col),
                             prog.config)
                break
    ck.floor("R09f", n, 3, "stores to the scaled penalty columns")


def r09g(ck, prog):
    """make_profile_n writes, into every gap column of a fresh profile (23/24/25 modulo 32), the negated penalty of that
    column's kind taken from the aln_param it was given"""
    M = prog.fn("make_profile_n")
    n = 0
    cands = [(M, a) for a in M.body.find("BinaryOperator")]
    for c in M.body.calls():
        H = prog.functions.get(c.callee) if c.callee else None
        if H is not None and H.static and H.file == M.file and H is not M:
            cands += [(H, a) for a in H.body.find("BinaryOperator")]
    seen = set()
    for F, a in cands:
        if a.d["op"] != "=" or a.id in seen:
            continue
        seen.add(a.id)
        l = a.kids[0].strip()
        if not (l.k == "ArraySubscriptExpr" and l.ty == "float" and l.kids[1].cv is not None and l.kids[1].cv % 32 in COL_CLASS):
            continue
        col = l.kids[1].cv
        r = a.kids[1].strip(casts=True)
        n += 1
        cls = _pen_class(prog, F, r)
        neg = r.k == "UnaryOperator" and r.d["op"] == "-"
        where = site(prog, a, "column %d" % col)
        ck.inst("R09g", where, "make_profile_n: column %d := %s%s" % (col, "-" if neg else "", sorted(cls)), prog.config)
        if not cls:
            raise AnalysisBroken("R09g: the value stored into gap column %d of make_profile_n is not a penalty of the aln_param (%s)" % (col, r.text()[:40]))
        if cls != {COL_CLASS[col % 32]} or not neg:
            ck.violation("R09g", "R09g/col%d@%d" % (col, a.line), where,
                         "make_profile_n stores %s%s into column %d, which holds the negated %s: the profile carries a different penalty "
                         "than the one selected" % ("-" if neg else "+", "/".join(sorted(cls)), col, COL_CLASS[col % 32]), prog.config)
    ck.floor("R09g", n, 3, "gap-column stores in make_profile_n and its private helpers")


def r09h(ck, prog):
    """update_n charges what it counts: in every branch, the gap-event counters it increments (column 23 = open, 24 =
    extension, 25 = terminal) and the penalties it adds to the charge gp are of the same kinds, and both are weighted by
    the same group size"""
    U = prog.fn("update_n")
    fns, todo = [U], [U]
    while todo:
        G = todo.pop()
        for c in G.body.calls():
            H = prog.functions.get(c.callee) if c.callee else None
            if H is not None and H.static and H.file == U.file and H not in fns:
                fns.append(H)
                todo.append(H)
    blocks = {}
    for F, a in [(F, a) for F in fns for a in list(F.body.find("BinaryOperator")) + list(F.body.find("CompoundAssignOperator"))]:
        l = a.kids[0].strip()
        blk = next((x for x in a.ancestors() if x.k == "CompoundStmt"), None)
        if l.k == "DeclRefExpr" and l.ty == "float" and _pen_class(prog, F, a.kids[1]) and a.d["op"] in ("=", "+="):
            b = blocks.setdefault((F.name, blk.id), {"blk": blk, "charge": [], "count": [], "F": F})
            b["charge"].append(a)
        elif a.k == "CompoundAssignOperator" and a.d["op"] == "+=" and l.k == "ArraySubscriptExpr" and l.kids[1].cv in COL_CLASS:
            b = blocks.setdefault((F.name, blk.id), {"blk": blk, "charge": [], "count": [], "F": F})
            b["count"].append(a)
    n = 0
    for b in blocks.values():
        n += 1
        where = site(prog, b["blk"], "branch")
        F = b["F"]
        charged = set()
        for a in b["charge"]:
            charged |= _pen_class(prog, F, a.kids[1])
        counted = {COL_CLASS[a.kids[0].strip().kids[1].cv] for a in b["count"]}
        wc = {r.d["name"] for a in b["charge"] for r in a.kids[1].find("DeclRefExpr") if r.d.get("dk") in ("Parm", "Var") and r.ty.replace("const ", "") == "int"}
        wn = {r.d["name"] for a in b["count"] for r in a.kids[1].find("DeclRefExpr") if r.d.get("dk") in ("Parm", "Var") and r.ty.replace("const ", "") == "int"}
        ck.inst("R09h", where, "update_n branch at line %d: counts %s (weight %s), charges %s (weight %s)" % (
            b["blk"].line, sorted(counted), sorted(wn), sorted(charged), sorted(wc)), prog.config)
        if not b["charge"] or not b["count"]:
            raise AnalysisBroken("R09h: a branch of update_n (line %d) counts gap events without charging them or the reverse; "
                                 "the pairing is not decided for this shape" % b["blk"].line)
        if charged != counted:
            ck.violation("R09h", "R09h/line-class/%s-%s" % ("+".join(sorted(counted)), "+".join(sorted(charged))), where,
                         "update_n counts %s event(s) here but charges %s: the merged profile prices this column with a different "
                         "penalty than the one selected for that kind of gap" % (sorted(counted), sorted(charged)), prog.config)
        elif wc and wn and wc != wn:
            ck.violation("R09h", "R09h/line-weight/%s" % "+".join(sorted(wc | wn)), where,
                         "update_n weights the counter by %s but the charge by %s" % (sorted(wn), sorted(wc)), prog.config)
    ck.floor("R09h", n, 4, "counting/charging branches of update_n and its private helpers")


def run(ck, progs):
    describe(ck)
    for cfg, prog in progs.items():
        ck.attempt(r09a, ck, prog)
        ck.attempt(r09b, ck, prog)
        ck.attempt(r09c, ck, prog)
        ck.attempt(r09d, ck, prog)
        ck.attempt(r09e, ck, prog)
        ck.attempt(r09f, ck, prog)
        ck.attempt(r09g, ck, prog)
        ck.attempt(r09h, ck, prog)
        ck.attempt(r09i, ck, prog)
        ck.attempt(r09j, ck, prog)
    return ("Static rules over the resolved AST of aln_param.c, run_kalign.c, parameters.c and kalign.h: "
            "(guard variable, source variable, target field) triples of the three overrides; the (sequence kind x "
            "type constant) table of both switch statements with fallthrough and default followed; the ordered "
            "strstr dispatch chain evaluated on every documented --type word; the option table/option case/field "
            "agreement and by-name argument positions along init_param -> run_kalign -> kalign_run -> aln_param_init; "
            "the documented DNA constants. Every instance is a construct found in /repo's current source.")
