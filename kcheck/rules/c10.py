"""C10 — progressive merging never re-aligns a finished group (clauses only).

Decided: who may change an alignment while aligning (R10a), gap counts only grow (R10b), the new
gap vector is applied uniformly to every member of a group (R10c), membership is concatenation (R10d).
Not decided: that update_gaps distributes the vector over the right slots (index arithmetic).
"""
from ..build import AnalysisBroken
from ..callgraph import CallGraph
from ..effects import Effects
from ..model import access_mode
from ..affine import lin, Lin
from ..util import site, member_accesses, const_value, local_defs


def describe(ck):
    ck.rule("R10a", "in everything reachable from create_msa_tree, msa_seq.gaps elements are written only by update_gaps (called only from make_seq); seq, s, len and the gaps pointer itself are not written")
    ck.rule("R10b", "update_gaps only adds to gap counts, and what it adds is a sum of new-gap vector entries; make_seq's vectors hold 0 or +1 increments")
    ck.rule("R10c", "make_seq applies one unmodified vector to every member of a group: update_gaps(len, gaps of the same member, vector) for all nsip members")
    ck.rule("R10d", "do_align builds the member list of the merged node as all members of a followed by all members of b, nsip[c] = nsip[a] + nsip[b]")
    ck.rule("R10f", "the accumulated gap counts are rendered for every sequence, slot j in front of residue j (= R01i): what the merges built is what comes out")
    ck.rule("R10e", "make_seq's two new-gap vectors never overlap and every carrier of gap counts on the way to msa_seq.gaps is at least int wide")
    ck.not_decided += ["correct distribution of the new gap vector over existing gap slots (index arithmetic in update_gaps)"]


def r10a(ck, prog):
    cg = CallGraph(prog)
    E = Effects(prog)
    reach = cg.reachable({"create_msa_tree"})
    S = E.of_param("create_msa_tree", 0)
    seqw = sorted(p for p in S.writes | S.pwrites | S.frees if p[:1] == ("sequences",))
    ck.inst("R10a", "effects(create_msa_tree, msa)", "paths under msa->sequences written while aligning: %s" % [".".join(p) for p in seqw], prog.config)
    allowed_pw = {("sequences", "gaps")}
    for p in S.pwrites:
        if p[:1] == ("sequences",) and p not in allowed_pw:
            ck.violation("R10a", "R10a/create_msa_tree/pwrite-%s" % ".".join(p), "effects(create_msa_tree, msa)",
                         "the merge phase writes through msa->%s: only gap counts may change while aligning" % ".".join(p), prog.config)
    for p in S.writes | S.frees:
        if p[:1] == ("sequences",):
            ck.violation("R10a", "R10a/create_msa_tree/write-%s" % ".".join(p), "effects(create_msa_tree, msa)",
                         "the merge phase assigns / releases msa->%s of a sequence: finished groups must only receive gap columns" % ".".join(p),
                         prog.config)
    if ("sequences", "gaps") not in S.pwrites:
        raise AnalysisBroken("R10a: the effect summary of create_msa_tree does not show the gap update at all (%s)" % S)
    # direct writers and pointer hand-offs
    n = 0
    for name in sorted(reach):
        F = cg.defined.get(name)
        if F is None:
            continue
        for m in member_accesses(F.body, "msa_seq", "gaps"):
            n += 1
            p, c = m.up(casts=True)
            where = site(prog, m, "gaps")
            if p is not None and p.k == "CallExpr":
                ck.inst("R10a", where, "%s hands msa_seq.gaps to %s" % (name, p.callee), prog.config)
                if p.callee != "update_gaps":
                    ck.violation("R10a", "R10a/%s/gaps-to-%s" % (name, p.callee), where,
                                 "%s passes a sequence's gap counts to %s: only update_gaps may change them" % (name, p.callee),
                                 prog.config)
            else:
                mode = access_mode(m)
                pw = False
                if p is not None and p.k == "ArraySubscriptExpr":
                    pw = access_mode(p) in ("write", "rmw")
                ck.inst("R10a", where, "%s uses msa_seq.gaps (%s)" % (name, "element write" if pw else mode), prog.config)
                if pw or mode in ("write", "rmw"):
                    ck.violation("R10a", "R10a/%s/gaps-write" % name, where,
                                 "%s writes gap counts directly while aligning" % name, prog.config)
    ck.floor("R10a", n, 1, "uses of msa_seq.gaps in the merge phase")


def r10b(ck, prog):
    U = prog.fn("update_gaps")
    E = Effects(prog)
    # parameter roles by effect: the one whose pointee is written = gis; the pointer only read = new vector
    roles = {}
    for i, p in enumerate(U.params):
        if p["ty"].endswith("*"):
            S = E.of_param("update_gaps", i)
            roles[i] = "gis" if S.pwrites else "vec"
    if sorted(roles.values()) != ["gis", "vec"]:
        raise AnalysisBroken("R10b slot: update_gaps parameters not resolved to (counts, vector): %s" % roles)
    gis = [U.params[i] for i, r in roles.items() if r == "gis"][0]
    vec = [U.params[i] for i, r in roles.items() if r == "vec"][0]
    n = 0
    for s in U.body.walk():
        tgt = None
        if s.k in ("BinaryOperator", "CompoundAssignOperator") and (s.d["op"] == "=" or s.k == "CompoundAssignOperator"):
            tgt = s.kids[0].strip()
        elif s.k == "UnaryOperator" and s.d["op"] in ("++", "--"):
            tgt = s.kids[0].strip()
        if tgt is None or tgt.k != "ArraySubscriptExpr":
            continue
        b = tgt.kids[0].strip(casts=True)
        if not (b.k == "DeclRefExpr" and b.d["did"] == gis["did"]):
            continue
        n += 1
        where = site(prog, s, tgt.text())
        ck.inst("R10b", where, "update_gaps: %s" % s.text(), prog.config)
        ok = s.k == "CompoundAssignOperator" and s.d["op"] == "+="
        addend = s.kids[1] if ok else None
        if s.k == "BinaryOperator" and s.d["op"] == "=":
            r = s.kids[1].strip()
            if r.k == "BinaryOperator" and r.d["op"] == "+" and r.kids[0].strip(casts=True).text() == tgt.text():
                ok, addend = True, r.kids[1]
            elif r.k == "BinaryOperator" and r.d["op"] == "+":
                # const int old = gis[i]; ... gis[i] = old + inserted;
                for o, other in ((r.kids[0], r.kids[1]), (r.kids[1], r.kids[0])):
                    o0 = o.strip(casts=True)
                    if o0.k == "DeclRefExpr" and o0.d.get("dk") == "Var":
                        ds = [d for d, _ in local_defs(U, o0.d["did"])]
                        if len(ds) == 1 and ds[0] is not None and ds[0].strip(casts=True).text() == tgt.text():
                            ok, addend = True, other
                            break
        if not ok:
            ck.violation("R10b", "R10b/update_gaps/store", where,
                         "update_gaps stores %s: a gap count may only grow by addition (columns are only inserted)" % s.text(), prog.config)
            continue
        # the addend: a local that is 0 or accumulates entries of the vector
        a0 = addend.strip(casts=True)
        good = False
        if a0.k == "DeclRefExpr":
            good = True
            for rhs, node in local_defs(U, a0.d["did"]):
                if rhs is not None:
                    if const_value(rhs) != 0:
                        good = False
                else:
                    if node.k != "CompoundAssignOperator" or node.d["op"] != "+=":
                        good = False
                    else:
                        r = node.kids[1].strip(casts=True)
                        if not (r.k == "ArraySubscriptExpr" and r.kids[0].strip(casts=True).k == "DeclRefExpr" and
                                r.kids[0].strip(casts=True).d["did"] == vec["did"]):
                            good = False
        if not good:
            ck.violation("R10b", "R10b/update_gaps/addend", where,
                         "what update_gaps adds (%s) is not a plain sum of entries of the new-gap vector" % addend.text(), prog.config)
    ck.floor("R10b", n, 1, "stores to gap counts")
    M = prog.fn("make_seq")
    vecs = _vectors(prog, M)
    for s in M.body.walk():
        tgt = None
        if s.k in ("BinaryOperator", "CompoundAssignOperator") and (s.d["op"] == "=" or s.k == "CompoundAssignOperator"):
            tgt = s.kids[0].strip()
        if tgt is None or tgt.k != "ArraySubscriptExpr":
            continue
        b = tgt.kids[0].strip(casts=True)
        if b.k == "DeclRefExpr" and b.d["did"] in vecs:
            v = const_value(s.kids[1])
            ok = (s.k == "BinaryOperator" and v == 0) or (s.k == "CompoundAssignOperator" and s.d["op"] == "+=" and v == 1)
            ck.inst("R10b", site(prog, s, tgt.text()), "make_seq: %s" % s.text(), prog.config)
            if not ok:
                ck.violation("R10b", "R10b/make_seq/vector", site(prog, s),
                             "make_seq stores %s into a new-gap vector; entries are zeroed and then count inserted columns one by one" % s.text(),
                             prog.config)


def _vectors(prog, M):
    """decl ids of the vectors make_seq passes as third argument of update_gaps"""
    out = {}
    for c in M.body.calls("update_gaps"):
        if len(c.args) >= 3:
            a = c.args[2].strip(casts=True)
            if a.k == "DeclRefExpr":
                out[a.d["did"]] = a.d["name"]
    if not out:
        # one private helper per group: the vector is the pointer argument the helper forwards to update_gaps
        for cs in M.body.calls():
            H = prog.functions.get(cs.callee) if cs.callee else None
            if H is None or H.body is None or not H.static or H.file != M.file:
                continue
            fwd = {c.args[2].strip(casts=True).d.get("did") for c in H.body.calls("update_gaps") if len(c.args) >= 3 and c.args[2].strip(casts=True).k == "DeclRefExpr"}
            for i, a in enumerate(cs.args):
                a0 = a.strip(casts=True)
                if i < len(H.params) and H.params[i]["did"] in fwd and a0.k == "DeclRefExpr" and a0.d.get("dk") == "Var":
                    out[a0.d["did"]] = a0.d["name"]
    return out


INT_WIDTH = {"char": 1, "signed char": 1, "unsigned char": 1, "short": 2, "unsigned short": 2, "int": 4, "unsigned int": 4,
             "long": 8, "unsigned long": 8, "long long": 8, "unsigned long long": 8, "_Bool": 1}


def _width(ty):
    t = ty.replace("const ", "").replace("volatile ", "").replace("restrict", "").strip()
    return INT_WIDTH.get(t)


def _origins(M, did, allocs, depth=0):
    """where a local pointer of make_seq can point: [('own', key)] for an allocation made into it / a local array,
    [('carve', base origin key, offset node or None)] when it is derived from another pointer"""
    out = []
    for tgt, size, call in allocs:
        if tgt.k == "DeclRefExpr" and tgt.d["did"] == did:
            out.append(("own", "alloc@%d" % call.line, None))
    for rhs, node in local_defs(M, did):
        if rhs is None:
            continue
        r = rhs.strip(casts=True)
        if r.cv == 0 or "NULL" in "".join(r.mac) or r.k == "CallExpr" or r.d.get("name") == "tmpp":
            continue
        off = None
        sign_terms = []                 # (sign, node) of the integer terms added to the pointer
        while r.k == "BinaryOperator" and r.d["op"] in ("+", "-"):
            l_, r_ = r.kids[0].strip(casts=True), r.kids[1].strip(casts=True)
            if l_.ty.endswith("*") or "[" in l_.ty:
                sign_terms.append((1 if r.d["op"] == "+" else -1, r.kids[1]))
                r = l_
            elif r.d["op"] == "+" and (r_.ty.endswith("*") or "[" in r_.ty):
                sign_terms.append((1, r.kids[0]))
                r = r_
            else:
                break
        if sign_terms:
            off = sign_terms
        if r.k == "UnaryOperator" and r.d["op"] == "&" and r.kids[0].strip().k == "ArraySubscriptExpr":
            off = (off or []) + [(1, r.kids[0].strip().kids[1])]
            r = r.kids[0].strip().kids[0].strip(casts=True)
        if r.k != "DeclRefExpr" or depth > 2:
            raise AnalysisBroken("R10e: origin of a new-gap vector not understood: %s" % rhs.text()[:50])
        if "[" in r.ty:                                   # a local array decays: its own object
            out.append(("carve" if off is not None else "own", "array:%s" % r.d["name"], off))
            continue
        for kind, key, o2 in _origins(M, r.d["did"], allocs, depth + 1):
            if o2 is not None and off is not None:
                raise AnalysisBroken("R10e: nested pointer arithmetic in the origin of a new-gap vector")
            out.append(("carve", key, off if off is not None else o2))
    return out


def r10e(ck, prog):
    """the two new-gap vectors of make_seq are two separate arrays of path[0]+1 full-width counters: they never overlap
    (separately allocated, or carved from one block at least path[0]+1 elements apart), and neither they nor the addend
    in update_gaps are narrower than the int gap counts they are added to"""
    from ..affine import alloc_sites, single_defs
    M, U = prog.fn("make_seq"), prog.fn("update_gaps")
    vecs = _vectors(prog, M)
    if len(vecs) != 2:
        raise AnalysisBroken("R10e slot: make_seq passes %d distinct vectors to update_gaps (expected 2)" % len(vecs))
    allocs = list(alloc_sites(M))
    subst = single_defs(M)
    (da, na), (db, nb) = sorted(vecs.items(), key=lambda kv: kv[1])
    oa, ob = _origins(M, da, allocs), _origins(M, db, allocs)
    if not oa or not ob:
        raise AnalysisBroken("R10e: no allocation found for the new-gap vectors %s / %s" % (na, nb))
    where = site(prog, M, "%s,%s" % (na, nb))
    fmt = lambda oo: [(k, key, " ".join(("+" if sg > 0 else "-") + nd.text() for sg, nd in o) if o else None) for k, key, o in oo]
    ck.inst("R10e", where, "make_seq: %s comes from %s, %s from %s" % (na, fmt(oa), nb, fmt(ob)), prog.config)
    for ka, keya, offa in oa:
        for kb, keyb, offb in ob:
            if keya != keyb:
                continue
            def tolin(o):
                if o is None:
                    return Lin(0)
                acc_ = Lin(0)
                for sg, nd in o:
                    l_ = lin(nd, subst)
                    if l_ is None:
                        return None
                    acc_ = acc_.add(l_, sg)
                return acc_
            la, lb = tolin(offa), tolin(offb)
            if la is None or lb is None:
                raise AnalysisBroken("R10e: offsets of %s / %s inside %s are not affine" % (na, nb, keya))
            # need |lb - la| >= path[0] + 1
            ok = False
            for d in (lb.add(la, -1), la.add(lb, -1)):
                rest = d.add(Lin(1, {"path[0]": 1}), -1)
                if rest.is_const() and rest.c >= 0:
                    ok = True
                elif not rest.is_const() and all(v >= 0 for v in rest.t.values()) and rest.c >= 0 and set(rest.t) <= {"path[0]"}:
                    ok = True
            if not ok:
                d = lb.add(la, -1)
                if not (d.is_const() or set(d.t) <= {"path[0]"}):
                    raise AnalysisBroken("R10e: the distance between %s and %s inside %s (%s) is not comparable with path[0]+1" % (na, nb, keya, d))
                ck.violation("R10e", "R10e/make_seq/overlap", where,
                             "%s and %s both point into %s, %s elements apart, but each holds path[0]+1 counters: the last counter of one "
                             "is the first of the other, so gaps counted for one group are also inserted into the other" % (na, nb, keya, d), prog.config)
    # full-width counters
    gty = prog.field("msa_seq", "gaps")
    n = 0
    checks = []
    for did, name in vecs.items():
        ty = next((r.ty for r in M.body.find("DeclRefExpr") if r.d.get("did") == did), "")
        checks.append(("make_seq vector %s" % name, ty.rstrip("*").strip(), M))
    for prm in U.params:
        if prm["ty"].endswith("*"):
            checks.append(("update_gaps parameter %s" % prm["name"], prm["ty"].rstrip("*").strip(), U))
    for a in U.body.find("CompoundAssignOperator"):
        l = a.kids[0].strip()
        if l.k == "DeclRefExpr" and any(x.k == "ArraySubscriptExpr" for x in a.kids[1].walk()):
            checks.append(("update_gaps accumulator %s" % l.d["name"], l.ty, U))
    for what, ty, F in checks:
        w = _width(ty)
        n += 1
        ck.inst("R10e", site(prog, F, what), "%s has element type %s" % (what, ty), prog.config)
        if w is None:
            raise AnalysisBroken("R10e: width of type %s (%s) unknown" % (ty, what))
        if w < 4:
            ck.violation("R10e", "R10e/%s/narrow/%s" % (F.name, what.split()[-1]), site(prog, F, what),
                         "%s is %s (%d bytes) but counts inserted columns of a merge, which is bounded only by the int path length: "
                         "a gap run of 2^%d columns wraps and the row loses its gaps" % (what, ty, w, 8 * w - 1), prog.config)
    ck.floor("R10e", n, 4, "gap-count carriers")


def r10c(ck, prog):
    M = prog.fn("make_seq")
    E = Effects(prog)
    calls = list(M.body.calls("update_gaps"))
    groups = {}
    pa, pb = M.params[1], M.params[2]
    work = [(M, c, {pa["name"]: "a", pb["name"]: "b"}, None) for c in calls]
    if len(calls) < 2:
        # one helper per group: make_seq calls H(msa, <a | b>, <vector>) and H applies update_gaps to the members of that group
        for cs in M.body.calls():
            H = prog.functions.get(cs.callee) if cs.callee else None
            if H is None or H.body is None or not H.static or H.file != M.file or not list(H.body.calls("update_gaps")):
                continue
            gmap, vpar, vtxt = {}, None, None
            for i, a in enumerate(cs.args):
                a0 = a.strip(casts=True)
                if i >= len(H.params) or a0.k != "DeclRefExpr":
                    continue
                if a0.d["did"] == pa["did"]:
                    gmap[H.params[i]["name"]] = "a"
                elif a0.d["did"] == pb["did"]:
                    gmap[H.params[i]["name"]] = "b"
                elif a0.ty.replace("const ", "").endswith("*") and a0.d.get("dk") == "Var":
                    vpar, vtxt = H.params[i]["name"], a0.text()
            if len(gmap) == 1 and vpar is not None:
                for c in H.body.calls("update_gaps"):
                    work.append((H, c, gmap, (vpar, vtxt)))
        if len(work) < 2:
            where_else = sorted({f.name for f, c in prog.callers_of("update_gaps") if "/tests/" not in f.file})
            raise AnalysisBroken("R10c: make_seq applies update_gaps %d time(s) itself (callers now: %s); uniform application to "
                                 "all members of both groups cannot be decided for this shape" % (len(calls), where_else))
    M0 = M
    for M, c, gmap, vinfo in work:
        where = site(prog, c, "update_gaps")
        loops = [x for x in c.ancestors() if x.k in ("ForStmt", "WhileStmt")]
        if not loops:
            ck.violation("R10c", "R10c/make_seq/not-in-loop", where, "update_gaps is not applied in a loop over the group's members", prog.config)
            continue
        lp = loops[0]
        omp = [a for a in c.ancestors() if "omp" in a.d]
        if omp:
            ck.violation("R10c", "R10c/make_seq/omp-%s" % omp[0].d["omp"].split()[0], where,
                         "the member loop runs under `omp %s`: its iterations are distributed over (or deferred to) other threads, so "
                         "this call does not itself visit every member before make_seq returns" % omp[0].d["omp"], prog.config)
        from ..util import expand_aliases
        e0, e1 = expand_aliases(M, c.args[0]), expand_aliases(M, c.args[1])
        seq0 = [e0[:-len("->len")]] if e0.endswith("->len") else []
        seq1 = [e1[:-len("->gaps")]] if e1.endswith("->gaps") else []
        vec = c.args[2].strip(casts=True)
        grp = None
        gname = None
        for pname, g_ in gmap.items():
            if ("sip[%s]" % pname) in e1:
                grp, gname = (g_, pname) if grp is None else (None, None)
        vec_text = vec.text()
        if vinfo is not None:
            if vec_text != vinfo[0]:
                ck.violation("R10c", "R10c/%s/vector" % M.name, where, "%s applies %s instead of the vector it was given (%s)" % (M.name, vec_text, vinfo[0]), prog.config)
            vec_text = vinfo[1]
        init = lp.child("init")
        bound_txt = (init.text() if init is not None else "") + " " + (lp.child("cond").text() if lp.child("cond") is not None else "")
        ck.inst("R10c", where, "group %s%s: update_gaps(%s, %s, %s) for %s" % (grp, "" if M is M0 else " (in %s)" % M.name, c.args[0].text()[:40], c.args[1].text()[:40], vec_text, bound_txt.strip()[:50]), prog.config)
        if not seq0 or not seq1 or seq0[0] != seq1[0]:
            ck.violation("R10c", "R10c/make_seq/member-%s" % grp, where,
                         "update_gaps receives the length of %s but the gap counts of %s" % (seq0[:1], seq1[:1]), prog.config)
        if grp is None:
            if M is not M0:
                raise AnalysisBroken("R10c: which group the helper %s walks (member index %s) is not resolved; not decided for this shape" % (M.name, e1[:60]))
            ck.violation("R10c", "R10c/make_seq/group", where, "the member index does not come from sip[a] / sip[b]", prog.config)
            continue
        from ..affine import loop_range
        from ..affine import single_defs
        rng = loop_range(lp, single_defs(M))
        if rng is None:
            raise AnalysisBroken("R10c: the member loop at %s is not one of the recognised counting idioms" % lp.loc)
        var, lo, hi = rng
        full = lo.is_const() and lo.c == 0 and hi.c == 0 and hi.t == {"msa->nsip[%s]" % gname: 1}
        if not full and M is not M0 and not (hi.is_const() or set(hi.t) <= {"msa->nsip[%s]" % gname}):
            raise AnalysisBroken("R10c: the bound %s of the member loop in %s is not comparable with nsip[%s]; not decided" % (hi, M.name, gname))
        uses_var = ("sip[%s][%s]" % (gname, var)) in e1
        if not full or not uses_var:
            ck.violation("R10c", "R10c/make_seq/coverage-%s" % grp, where,
                         "the loop over group %s visits members [%s, %s) instead of [0, nsip[%s]): some members do not receive "
                         "the new columns and the group is sheared" % (grp, lo, hi, grp), prog.config)
        if ("sip[%s]" % gname) not in e1:
            ck.violation("R10c", "R10c/make_seq/member-list-%s" % grp, where, "members are not taken from sip[%s]" % grp, prog.config)
        groups.setdefault(grp, set()).add(vec_text)
        if any(not isinstance(r, bool) and r for r in [guards_in_loop(c, lp)]):
            ck.violation("R10c", "R10c/make_seq/conditional-%s" % grp, where,
                         "update_gaps is applied only to some members (%s)" % guards_in_loop(c, lp), prog.config)
    M = M0
    if set(groups) != {"a", "b"}:
        ck.violation("R10c", "R10c/make_seq/groups", site(prog, M), "update_gaps is applied to groups %s only" % sorted(groups), prog.config)
    for g, vs in groups.items():
        if len(vs) != 1:
            ck.violation("R10c", "R10c/make_seq/vectors-%s" % g, site(prog, M), "members of group %s receive different vectors %s" % (g, sorted(vs)), prog.config)
    if len(groups) == 2 and groups["a"] == groups["b"]:
        ck.violation("R10c", "R10c/make_seq/same-vector", site(prog, M), "both groups receive the same vector %s" % sorted(groups["a"]), prog.config)
    # the vectors are not modified once application has started
    vecs = _vectors(prog, M)
    cfg = M.cfg
    for s in M.body.walk():
        if s.k in ("BinaryOperator", "CompoundAssignOperator") and (s.d["op"] == "=" or s.k == "CompoundAssignOperator"):
            t = s.kids[0].strip()
            if t.k == "ArraySubscriptExpr" and t.kids[0].strip(casts=True).k == "DeclRefExpr" and t.kids[0].strip(casts=True).d["did"] in vecs:
                for c in (calls if len(calls) >= 2 else [x for x in M.body.calls() if x.callee in {w_[0].name for w_ in work}]):
                    if cfg.reaches(cfg.position(c), cfg.position(s)):
                        ck.violation("R10c", "R10c/make_seq/vector-modified", site(prog, s),
                                     "%s is modified after it has been applied to some members" % t.kids[0].text(), prog.config)
                        break
    # update_gaps leaves the vector alone
    S = E.of_param("update_gaps", 2)
    ck.inst("R10c", site(prog, prog.fn("update_gaps"), "vector param"), "update_gaps effects on its vector parameter: %s" % S, prog.config)
    if S.all_written():
        ck.violation("R10c", "R10c/update_gaps/vector-written", site(prog, prog.fn("update_gaps")),
                     "update_gaps writes its new-gap vector: later members of the group see a different vector", prog.config)


def guards_in_loop(node, loop):
    from ..util import guards
    return [c.text() for c, pol in guards(node, stop=loop) if "RUN" not in c.mac and c.parent.k == "IfStmt"]


def r10d(ck, prog):
    D = prog.fn("do_align")
    stores = []
    for s in D.body.find("BinaryOperator"):
        if s.d["op"] != "=":
            continue
        t = s.kids[0].strip()
        if t.k == "ArraySubscriptExpr" and t.kids[0].strip(casts=True).k == "ArraySubscriptExpr":
            inner = t.kids[0].strip(casts=True)
            b = inner.kids[0].strip(casts=True)
            if b.k == "MemberExpr" and b.d.get("field") == "sip" and b.d.get("rec") == "msa":
                stores.append((s, inner.kids[1].strip(casts=True), t.kids[1].strip(casts=True)))
    if len(stores) < 2:
        raise AnalysisBroken("R10d slot: stores into msa->sip[c][..] not found in do_align (%d)" % len(stores))
    srcs = []
    for s, node_idx, pos_idx in stores:
        r = s.kids[1].strip(casts=True)
        where = site(prog, s, s.kids[0].text())
        ok = r.k == "ArraySubscriptExpr" and r.kids[0].strip(casts=True).k == "ArraySubscriptExpr" and \
            r.kids[0].strip(casts=True).kids[0].strip(casts=True).k == "MemberExpr" and \
            r.kids[0].strip(casts=True).kids[0].strip(casts=True).d.get("field") == "sip"
        ck.inst("R10d", where, "do_align: %s = %s" % (s.kids[0].text(), s.kids[1].text()), prog.config)
        if not ok:
            ck.violation("R10d", "R10d/do_align/member-source", where, "a member id of the merged node is %s, not a member of a child" % s.kids[1].text(), prog.config)
            continue
        child = r.kids[0].strip(casts=True).kids[1].strip(casts=True).text()
        j = r.kids[1].strip(casts=True)
        loops = [x for x in s.ancestors() if x.k in ("ForStmt", "WhileStmt")]
        bt = ""
        if loops:
            lp = loops[0]
            bt = (lp.child("init").text() if lp.child("init") is not None else "") + (lp.child("cond").text() if lp.child("cond") is not None else "")
        from ..affine import loop_range
        from ..affine import single_defs
        subst = single_defs(D)
        rng = loop_range(loops[0], subst) if loops else None
        if rng is None:
            raise AnalysisBroken("R10d: the member copy loop at %s is not one of the recognised counting idioms" % s.loc)
        var, lo, hi = rng
        jl = lin(j, subst)
        idx_ok = jl is not None and ((jl.t == {var: 1} and jl.c == 0) or
                                     (jl.t.get(var) == -1 and jl.add(Lin(0, {var: 1})).add(hi, -1).is_const() and
                                      jl.add(Lin(0, {var: 1})).add(hi, -1).c == -1))
        if not (lo.is_const() and lo.c == 0 and hi.c == 0 and hi.t == {"msa->nsip[%s]" % child: 1}) or not idx_ok:
            ck.violation("R10d", "R10d/do_align/coverage-%s" % child, where,
                         "members [%s, %s) of child %s are copied instead of all [0, nsip[%s])" % (lo, hi, child, child), prog.config)
        srcs.append(child)
        # the write position advances by one per copied member
        if pos_idx.k == "DeclRefExpr":
            incs = [u for u in (loops[0].find("UnaryOperator") if loops else []) if u.d["op"] == "++" and u.kids[0].strip().text() == pos_idx.text()]
            if len(incs) != 1:
                ck.violation("R10d", "R10d/do_align/position", where, "the write position %s is not advanced exactly once per member" % pos_idx.text(), prog.config)
    if len(set(srcs)) != 2:
        ck.violation("R10d", "R10d/do_align/children", site(prog, D), "members are copied from children %s (both children expected)" % srcs, prog.config)
    # nsip[c] = nsip[a] + nsip[b]
    found = False
    for s in D.body.find("BinaryOperator"):
        if s.d["op"] == "=" and "nsip[" in s.kids[0].text() and s.kids[0].strip().k == "ArraySubscriptExpr":
            from ..affine import single_defs
            l = lin(s.kids[1], single_defs(D))
            where = site(prog, s, "nsip")
            ck.inst("R10d", where, "do_align: %s = %s" % (s.kids[0].text(), s.kids[1].text()), prog.config)
            found = True
            want = {"msa->nsip[%s]" % c for c in set(srcs)}
            if l is None or l.c != 0 or set(l.t) != want or any(v != 1 for v in l.t.values()):
                ck.violation("R10d", "R10d/do_align/nsip", where,
                             "the member count of the merged node is %s, not the sum of the children's counts" % s.kids[1].text(), prog.config)
    if not found:
        raise AnalysisBroken("R10d slot: store to msa->nsip[c] not found")


def r10h(ck, prog):
    """the cursor into the new-gap vector walks the row as it was before this merge: inside one iteration of update_gaps' slot
    loop no read of a gap count is reachable from the store that enlarges that count - a position computed from the already
    enlarged count shifts every later slot of the row by the columns the row has just received, and by a different amount for
    each row of the group"""
    from ..model import access_mode
    U = prog.fn("update_gaps")
    E = Effects(prog)
    gis = None
    for i, p_ in enumerate(U.params):
        if p_["ty"].endswith("*") and E.of_param("update_gaps", i).pwrites:
            gis = p_
    if gis is None:
        raise AnalysisBroken("R10h slot: the counts parameter of update_gaps was not resolved")
    subs = [x for x in U.body.find("ArraySubscriptExpr") if x.kids[0].strip(casts=True).k == "DeclRefExpr" and
            x.kids[0].strip(casts=True).d["did"] == gis["did"]]
    stores = [x for x in subs if access_mode(x) in ("write", "rmw")]
    reads = [x for x in subs if access_mode(x) == "read"]
    if not stores or not reads:
        raise AnalysisBroken("R10h slot: update_gaps has %d store(s) and %d plain read(s) of the counts" % (len(stores), len(reads)))
    cfg = U.cfg
    n = 0
    for st in stores:
        loops = [a for a in st.ancestors() if a.k in ("ForStmt", "WhileStmt", "DoStmt")]
        if not loops:
            raise AnalysisBroken("R10h: the store to the counts in update_gaps is not in a loop")
        outer = loops[0]
        stn = st
        while stn.parent is not None and stn.parent.k not in ("CompoundStmt", "ForStmt", "WhileStmt", "IfStmt"):
            stn = stn.parent
        back = [cfg.position(x) for x in (outer.child("cond"), outer.child("inc")) if x is not None]
        back = [b_ for b_ in back if b_ is not None]
        for rd in reads:
            if not rd.within(outer) or rd.kids[1].text() != st.kids[1].text() or rd.within(stn):
                continue
            # only reads that feed a position carried to the next slot (rel_pos += gis[i] + 1), not the bound of the scan itself
            asg = next((a for a in rd.ancestors() if (a.k == "CompoundAssignOperator" or (a.k == "BinaryOperator" and a.d["op"] == "=")) and
                        a.kids[0].strip().k == "DeclRefExpr" and rd.within(a.kids[1])), None)
            if asg is None:
                asg = next((a for a in rd.ancestors() if a.role == "declinit"), None)      # const int old_gaps = gis[idx];
            if asg is None:
                continue
            n += 1
            sp, rp = cfg.position(stn), cfg.position(rd)
            late = sp is not None and rp is not None and cfg.reaches(sp, rp, avoid=back)
            ck.inst("R10h", site(prog, rd, rd.text()), "update_gaps reads %s %s the count is enlarged in the same iteration" % (
                rd.text(), "AFTER" if late else "before"), prog.config)
            if late:
                ck.violation("R10h", "R10h/update_gaps/enlarged-count", site(prog, rd),
                             "update_gaps uses %s after %s in the same iteration: the position in the new-gap vector then advances by the "
                             "row's enlarged width, later slots of this row look up the vector at shifted columns, and rows of one finished "
                             "group are opened at different places" % (rd.text(), stn.text()[:40]), prog.config)
    ck.floor("R10h", n, 1, "position updates computed from a gap count in the slot loop")


def r10g(ck, prog):
    """a node is handed to its parent only when its merge, including the weaving of the new gaps into every member row, is
    complete: every omp task in the functions reachable from create_msa_tree is joined by a taskwait before the spawning
    function continues with a call, a shared store or its return (the clause R02a decides for all tasks, here for the
    merge recursion: an unjoined weaving or merging task lets the parent insert its gaps into rows the child has not
    finished, which re-opens the child's sub-alignment)"""
    from ..callgraph import CallGraph
    from . import c02
    fns = CallGraph(prog).reachable(["create_msa_tree"])
    if "do_align" not in fns or "make_seq" not in fns:
        raise AnalysisBroken("R10g: do_align / make_seq are not reachable from create_msa_tree")
    c02.r02a(ck, prog, only=fns, rule="R10g", floor=2 if prog.config.startswith("omp") else 0)


def run(ck, progs):
    describe(ck)
    ck.rule("R10h", "inside one iteration of update_gaps' slot loop no read of a gap count is reachable from the store that enlarges it: the vector cursor walks the row as it was before the merge")
    ck.rule("R10g", "every omp task under create_msa_tree (child merges, gap weaving) is joined before the spawning function calls, stores shared data or returns: a parent never merges a group whose own merge is still running")
    for cfg, prog in progs.items():
        ck.attempt(r10a, ck, prog)
        ck.attempt(r10b, ck, prog)
        ck.attempt(r10c, ck, prog)
        ck.attempt(r10d, ck, prog)
        ck.attempt(r10e, ck, prog)
        from . import c01
        ck.borrow(c01.r01i, prog, "R10f", ("R01i",))
        ck.attempt(r10g, ck, prog)
        ck.attempt(r10h, ck, prog)
    return ("Effect summary of create_msa_tree on msa (which paths under msa->sequences are written while aligning); "
            "all uses of msa_seq.gaps in the functions reachable from create_msa_tree; form of every store in update_gaps "
            "and into make_seq's vectors; argument agreement, loop coverage and vector immutability of the update_gaps "
            "applications; construction of sip[c]/nsip[c] in do_align.")
