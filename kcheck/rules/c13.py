"""C13 — nucleotide and protein inputs are recognised from their residue letters (clauses only).

Decided: the decision reads only the character histogram (R13a); the letter models are seeded with
the statement's letters, are case-closed and walked completely; only residue letters vote, and
every nucleotide letter weighs strictly more under the nucleotide model - so an all-nucleotide
input is nucleotide whatever its gaps, order or names (R13b); the kind gates the type (R13c=R09b).
Not decided: the quantitative protein premise (a sum of logarithms weighted by run-time counts).
"""
import math

from ..build import AnalysisBroken
from ..bytedom import Sym, ev
from ..effects import Effects
from ..model import access_mode
from ..util import site, guards, member_accesses, const_value, macro_of_const, stores_to_field, local_defs
from . import c09

NUC = "ACGTUN"


def describe(ck):
    ck.rule("R13a", "detect_alphabet reads only msa->letter_freq (and the quiet flag) and writes only biotype / L; every writer of letter_freq adds to it or zeroes it")
    ck.rule("R13b", "the nucleotide model is seeded with A C G T U N in both cases, both models are case-closed and their loops cover the literals; only letters vote; each nucleotide letter weighs strictly more under the nucleotide model; the larger total selects the matching biotype")
    ck.rule("R13d", "the histogram is fed exactly the characters the readers classify as residues or gap symbols - not names or other text (= R04a)")
    ck.rule("R13f", "kalign_run chooses the alphabet and tells aln_param_init the kind from msa->biotype only; the requested type does not flow into those tests")
    ck.rule("R13e", "msa.biotype is assigned a kind only by detect_alphabet; elsewhere it is only reset to UNDEF or copied from another msa")
    ck.rule("R13c", "the detected kind gates the alignment type (= R09b)")
    ck.not_decided += ["the quantitative premise 'at least a quarter protein-only letters => protein' (inequality between run-time weighted sums)"]
    ck.assumptions += ["C-locale isalpha"]


def r13a(ck, prog):
    E = Effects(prog)
    S = E.of_param("detect_alphabet", 0)
    reads = {p[0] for p in S.reads | S.preads}
    writes = {p[0] for p in S.writes | S.pwrites | S.frees}
    ck.inst("R13a", site(prog, prog.fn("detect_alphabet"), "effects"), "detect_alphabet reads msa fields %s, writes %s" % (sorted(reads), sorted(writes)), prog.config)
    if S.unknown:
        raise AnalysisBroken("R13a: effect summary incomplete: %s" % S.unknown[0])
    extra = reads - {"letter_freq", "quiet"}
    if extra:
        ck.violation("R13a", "R13a/detect_alphabet/reads-%s" % "-".join(sorted(extra)), site(prog, prog.fn("detect_alphabet")),
                     "the kind decision reads msa->%s: it is no longer a function of the residue histogram alone (order / naming / "
                     "number of sequences can change it)" % sorted(extra), prog.config)
    if "letter_freq" not in reads:
        raise AnalysisBroken("R13a slot: detect_alphabet does not read letter_freq")
    if writes - {"biotype", "L"}:
        ck.violation("R13a", "R13a/detect_alphabet/writes", site(prog, prog.fn("detect_alphabet")),
                     "detect_alphabet writes msa->%s" % sorted(writes - {"biotype", "L"}), prog.config)
    n = 0
    zeroers = []
    for F in prog.lib_functions():
        for m in member_accesses(F.body, "msa", "letter_freq"):
            mode = access_mode(m)
            if not mode.startswith("elem-") or mode == "elem-read":
                continue
            n += 1
            p = m
            while p is not None and p.k not in ("UnaryOperator", "BinaryOperator", "CompoundAssignOperator"):
                p = p.parent
            where = site(prog, m, "letter_freq")
            ok = False
            if p is not None:
                if p.k == "UnaryOperator" and p.d["op"] == "++":
                    ok = True
                elif p.k == "CompoundAssignOperator" and p.d["op"] == "+=":
                    ok = True
                elif p.k == "BinaryOperator" and p.d["op"] == "=" and const_value(p.kids[1]) == 0:
                    ok = True
                    zeroers.append((F, m))
                elif p.k == "BinaryOperator" and p.d["op"] == "=":
                    r = p.kids[1].strip(casts=True)
                    if r.k == "BinaryOperator" and r.d["op"] == "+" and any(k.strip(casts=True).text() == p.kids[0].strip().text() for k in r.kids):
                        ok = True            # x = x + e
            ck.inst("R13a", where, "%s updates letter_freq: %s" % (F.name, p.text()[:50] if p is not None else "?"), prog.config)
            if not ok:
                ck.violation("R13a", "R13a/%s/letter_freq-update" % F.name, where,
                             "%s changes the histogram by %s: counts must only be added (merging files must commute)" % (
                                 F.name, p.text()[:60] if p is not None else "?"), prog.config)
    ck.floor("R13a", n, 6, "histogram writers")
    # the histogram is cleared only where the msa is created (or explicitly reset for re-use): a function that clears it and
    # can run while a file is being read throws away what has been counted so far
    from ..callgraph import CallGraph
    from . import c05
    ctor_names = {F_.name for F_, tgt, call in c05.constructors(prog).get("msa", [])}
    cg = CallGraph(prog)
    readers = cg.reachable({"read_fasta", "read_clu", "read_msf"})
    for memsets in [(F, c) for F in prog.lib_functions() for c in F.body.calls("memset")
                    if c.args and any(m_.d.get("field") == "letter_freq" and m_.d.get("rec") == "msa" for m_ in c.args[0].find("MemberExpr"))]:
        zeroers.append(memsets)
    for F, node in zeroers:
        where = site(prog, node, "clear")
        in_ctor = F.name in ctor_names
        during_read = F.name in readers
        ck.inst("R13a", where, "%s clears the histogram: %s%s" % (F.name, "creates the msa" if in_ctor else "does not create the msa",
                                                                  "; reachable from the readers" if during_read else ""), prog.config)
        if during_read and not in_ctor:
            ck.violation("R13a", "R13a/%s/clears-while-reading" % F.name, where,
                         "%s clears msa->letter_freq and is reachable from the readers (e.g. when the sequence array grows): the letters "
                         "counted so far are forgotten and the kind is decided from the tail of the input only" % F.name, prog.config)


def r13f(ck, prog):
    """what kalign_run does with the detected kind: the tests that choose the alphabet (the stores to msa->L / the calls of
    convert_msa_to_internal) and the biotype argument of aln_param_init depend on msa->biotype only - no local or parameter
    that the requested type flows into (data or control dependence) takes its place.  Private helpers of kalign_run are
    followed, a helper parameter that receives a type-dependent argument counts as type-dependent"""
    K = prog.fn("kalign_run")
    t0 = {p_["did"] for p_ in K.params if p_["name"] == "type"}
    if not t0:
        raise AnalysisBroken("R13f slot: kalign_run has no parameter named type")

    def make_influenced(G, tainted):
        def influenced(expr, seen=None, depth=0):
            seen = seen if seen is not None else set()
            for r in expr.find("DeclRefExpr"):
                if r.d.get("did") in tainted:
                    return True
                if r.d.get("dk") == "Var" and not r.d.get("g") and r.d["did"] not in seen and depth < 4:
                    seen.add(r.d["did"])
                    for d_, nd in local_defs(G, r.d["did"]):
                        if d_ is not None and influenced(d_, seen, depth + 1):
                            return True
                        for anc in nd.ancestors():
                            c_ = anc.child("cond") if anc.k in ("IfStmt", "SwitchStmt") else None
                            if c_ is not None and not nd.within(c_) and influenced(c_, seen, depth + 1):
                                return True
            return False
        return influenced
    work = [(K, t0)]
    infK = make_influenced(K, t0)
    for c in K.body.calls():
        H = prog.functions.get(c.callee) if c.callee else None
        if H is not None and H.body is not None and H.static and H.file == K.file and H is not K:
            th = {H.params[i]["did"] for i, a in enumerate(c.args) if i < len(H.params) and infK(a)}
            work.append((H, th))
    n = 0
    for G, tainted in work:
        influenced = make_influenced(G, tainted)
        sites = [a for a, l, r in stores_to_field(G.body, "msa", "L")] + list(G.body.calls("convert_msa_to_internal"))
        for st in sites:
            for cond, pol in guards(st):
                if cond.parent is None or cond.parent.k != "IfStmt" or any(m_ in ("RUN", "RUNP") for m_ in cond.mac):
                    continue
                n += 1
                bad = influenced(cond)
                ck.inst("R13f", site(prog, st, "alphabet choice"), "%s: chosen under `%s`: %s" % (G.name, cond.text()[:40], "depends on the requested type" if bad else "detected kind only"), prog.config)
                if bad:
                    ck.violation("R13f", "R13f/%s/alphabet" % G.name, site(prog, st, "alphabet choice"),
                                 "%s chooses the alphabet under `%s`, into which the requested alignment type flows: an explicit "
                                 "--type can override the kind recognised from the residue letters instead of being checked against it" % (G.name, cond.text()[:50]), prog.config)
        for c in G.body.calls("aln_param_init"):
            P = prog.fn("aln_param_init")
            bi = P.param_index("biotype")
            if bi is not None and bi < len(c.args):
                n += 1
                a0 = c.args[bi].strip(casts=True)
                okarg = a0.k == "MemberExpr" and a0.d.get("field") == "biotype" and a0.d.get("rec") == "msa"
                ck.inst("R13f", site(prog, c, "biotype argument"), "%s: aln_param_init(biotype = %s)" % (G.name, a0.text()), prog.config)
                if not okarg and influenced(c.args[bi]):
                    ck.violation("R13f", "R13f/%s/param-biotype" % G.name, site(prog, c, "biotype argument"),
                                 "aln_param_init is told the kind `%s`, which depends on the requested type, not the detected msa->biotype: the "
                                 "'detected X but --type Y' checks can no longer fire" % a0.text(), prog.config)
    ck.floor("R13f", n, 1, "uses of the detected kind in kalign_run")


def r13e(ck, prog):
    """the detected kind is what everything downstream uses: msa.biotype is assigned a kind only by detect_alphabet; anywhere
    else it is reset to ALN_BIOTYPE_UNDEF or copied from another msa's biotype"""
    n = 0
    for F in prog.lib_functions():
        for a, lhs, rhs in stores_to_field(F.body, "msa", "biotype"):
            n += 1
            r = rhs.strip(casts=True)
            m = macro_of_const(r)
            where = site(prog, a, "biotype")
            copy = r.k == "MemberExpr" and r.d.get("field") == "biotype" and r.d.get("rec") == "msa"
            ck.inst("R13e", where, "%s: biotype = %s" % (F.name, m or r.text()[:30]), prog.config)
            if F.name == "detect_alphabet" or m == "ALN_BIOTYPE_UNDEF" or copy:
                continue
            ck.violation("R13e", "R13e/%s/biotype" % F.name, where,
                         "%s sets msa->biotype = %s: the kind of sequence is no longer the one recognised from the residue letters "
                         "(detect_alphabet) when control passes here" % (F.name, m or r.text()[:30]), prog.config)
    ck.floor("R13e", n, 3, "stores to msa.biotype")


_FEVAL_FN = [None]


def feval(n):
    """constant floating expression -> float or None (locals with a single constant definition are followed)"""
    n = n.strip(casts=True)
    if n.k == "DeclRefExpr" and n.d.get("dk") == "Var" and not n.d.get("g") and _FEVAL_FN[0] is not None:
        defs = local_defs(_FEVAL_FN[0], n.d["did"])
        if len(defs) == 1 and defs[0][0] is not None:
            return feval(defs[0][0])
        return None
    if n.k == "FloatingLiteral" or n.k == "IntegerLiteral":
        return float(n.d["v"])
    if n.cv is not None:
        return float(n.cv)
    if n.k == "BinaryOperator":
        a, b = feval(n.kids[0]), feval(n.kids[1])
        if a is None or b is None:
            return None
        try:
            return {"+": a + b, "-": a - b, "*": a * b, "/": a / b}.get(n.d["op"])
        except ZeroDivisionError:
            return None
    if n.k == "UnaryOperator" and n.d["op"] == "-":
        a = feval(n.kids[0])
        return -a if a is not None else None
    if n.k == "CallExpr" and n.callee in ("log", "logf") and n.args:
        a = feval(n.args[0])
        return math.log(a) if a and a > 0 else None
    if n.k in ("CStyleCastExpr", "ImplicitCastExpr", "ParenExpr") and n.kids:
        return feval(n.kids[0])
    return None


def models(prog, F):
    """{table did: dict(name, default, literal did, literal text, value, weights[128])}"""
    _FEVAL_FN[0] = F
    lits = {}
    for s in F.body.find("DeclStmt"):
        for dd in s.d["decls"]:
            init = dd.get("init")
            if init and init.get("k") == "StringLiteral" and dd.get("arr") is not None:
                lits[dd["did"]] = (dd["name"], init.get("s", ""), dd["arr"], s)
    tabs = {}
    for a in F.body.find("BinaryOperator"):
        if a.d["op"] != "=":
            continue
        l = a.kids[0].strip()
        if l.k != "ArraySubscriptExpr":
            continue
        b = l.kids[0].strip(casts=True)
        if b.k != "DeclRefExpr" or not b.ty.startswith("double"):
            continue
        v = feval(a.kids[1])
        if v is None:
            continue
        t = tabs.setdefault(b.d["did"], {"name": b.d["name"], "default": None, "lit": None, "value": None, "loops": []})
        idx = l.kids[1].strip(casts=True)
        loops = [x for x in a.ancestors() if x.k == "ForStmt"]
        if idx.k == "DeclRefExpr":
            t["default"] = v
            t["loops"].append(("default", loops[0] if loops else None))
        elif idx.k == "ArraySubscriptExpr" and idx.kids[0].strip(casts=True).k == "DeclRefExpr" and idx.kids[0].strip(casts=True).d["did"] in lits:
            t["lit"] = idx.kids[0].strip(casts=True).d["did"]
            t["value"] = v
            t["loops"].append(("literal", loops[0] if loops else None))
    return lits, tabs


def table_overrides(F, tabs):
    """stores `table[<constant>] = <constant expression | table2[<constant>]>` that follow the loops which fill the
    tables, in source order: [(table did, index, ('val', v) | ('copy', table did, index), node)]"""
    out = []
    for a in F.body.find("BinaryOperator"):
        if a.d["op"] != "=":
            continue
        l = a.kids[0].strip()
        if l.k != "ArraySubscriptExpr":
            continue
        b = l.kids[0].strip(casts=True)
        i = l.kids[1].strip(casts=True)
        if b.k != "DeclRefExpr" or b.d["did"] not in tabs or i.cv is None:
            continue
        r = a.kids[1].strip(casts=True)
        if r.k == "ArraySubscriptExpr" and r.kids[0].strip(casts=True).k == "DeclRefExpr" and r.kids[0].strip(casts=True).d["did"] in tabs \
                and r.kids[1].strip(casts=True).cv is not None:
            out.append((b.d["did"], i.cv, ("copy", r.kids[0].strip(casts=True).d["did"], r.kids[1].strip(casts=True).cv), a))
        else:
            v = feval(r)
            if v is None:
                raise AnalysisBroken("R13b: the value stored into %s[%s] at line %d is not a constant expression" % (b.d["name"], i.text(), a.line))
            out.append((b.d["did"], i.cv, ("val", v), a))
    return out


def _detect_fns(prog):
    F = prog.fn("detect_alphabet")
    fns = [F]
    for c in F.body.calls():
        H = prog.functions.get(c.callee) if c.callee else None
        if H is not None and H.body is not None and H.static and H.file == F.file and H not in fns:
            fns.append(H)
    return F, fns


def interp_tables(prog):
    """{decl id: (name, [128 floats])}: the 128-entry double tables detect_alphabet has built when it first looks at its
    argument - obtained by constant evaluation of its input-free prefix (loops unrolled, private helpers inlined, log()
    evaluated), so it does not matter how the tables are written down"""
    from ..consteval import Interp, Undecided, Ptr
    F = prog.fn("detect_alphabet")
    it = Interp(prog)
    env = {}
    if F.params:
        env[F.params[0]["did"]] = Ptr(it.new_struct("msa"))
    for st in F.body.kids:
        try:
            it.stmt(st, env)
        except Undecided:
            break
        except Exception:
            break
    names = {dd["did"]: dd["name"] for d in F.body.find("DeclStmt") for dd in d.d["decls"]}
    out = {}
    for did, v in env.items():
        if isinstance(v, list) and len(v) == 128 and all(isinstance(x, float) for x in v):
            out[did] = (names.get(did, "?"), list(v))
    return out


def _accumulators(prog, tables):
    """{accumulator decl id in detect_alphabet: table decl id}: `acc += T[i] * freq` directly, or `acc = helper(.., T, ..)`"""
    F, fns = _detect_fns(prog)
    acc = {}
    for a in F.body.find("CompoundAssignOperator"):
        if a.d["op"] == "+=" and a.kids[0].strip().k == "DeclRefExpr":
            tv = [r for r in a.kids[1].find("DeclRefExpr") if r.d["did"] in tables]
            if len(tv) == 1:
                acc[a.kids[0].strip().d["did"]] = tv[0].d["did"]
    for a in list(F.body.find("BinaryOperator")) + [k for d in F.body.find("DeclStmt") for k in d.kids if k.role == "declinit"]:
        if a.k == "BinaryOperator":
            if a.d["op"] != "=" or a.kids[0].strip().k != "DeclRefExpr":
                continue
            lhs_did, rhs = a.kids[0].strip().d["did"], a.kids[1].strip(casts=True)
        else:
            lhs_did, rhs = a.decl["did"], a.strip(casts=True)
        if rhs.k == "CallExpr" and prog.functions.get(rhs.callee) in fns:
            tv = [r for x in rhs.args for r in x.find("DeclRefExpr") if r.d["did"] in tables]
            if len(tv) == 1:
                acc[lhs_did] = tv[0].d["did"]
    return acc


def _classify(prog, tables, acc):
    """table decl id -> 'nucleotide' | 'protein' by use: the model whose total, when it is the larger one, makes the decision
    ALN_BIOTYPE_DNA is the nucleotide model"""
    F = prog.fn("detect_alphabet")
    out = {}
    for a, lhs, rhs in stores_to_field(F.body, "msa", "biotype"):
        m = macro_of_const(rhs.strip(casts=True))
        want = {"ALN_BIOTYPE_DNA": "nucleotide", "ALN_BIOTYPE_PROTEIN": "protein"}.get(m)
        if want is None:
            continue
        for cond, pol in guards(a):
            c0 = cond.strip()
            if c0.k == "BinaryOperator" and c0.d["op"] in (">", "<", ">=", "<="):
                l, r = c0.kids[0].strip(casts=True), c0.kids[1].strip(casts=True)
                if l.k == "DeclRefExpr" and r.k == "DeclRefExpr" and l.d["did"] in acc and r.d["did"] in acc:
                    bigger = l if (c0.d["op"] in (">", ">=")) == pol else r
                    out.setdefault(acc[bigger.d["did"]], set()).add(want)
    return out


def letter_weights(prog):
    """({'nucleotide': [128 weights], 'protein': [...]}, {kind: table name}) of detect_alphabet's two letter models"""
    tables = interp_tables(prog)
    if len(tables) != 2:
        raise AnalysisBroken("R13b slot: the two letter models of detect_alphabet were not recognised (%d table(s) of 128 doubles "
                             "after constant evaluation of its prefix)" % len(tables))
    acc = _accumulators(prog, tables)
    kinds = _classify(prog, tables, acc)
    if sorted(kinds) != sorted(tables) or any(len(v) != 1 for v in kinds.values()) or \
            sorted(next(iter(v)) for v in kinds.values()) != ["nucleotide", "protein"]:
        raise AnalysisBroken("R13b slot: which letter model decides for which kind is not resolved (%s)" % {tables[d][0]: sorted(v) for d, v in kinds.items()})
    W = {next(iter(kinds[d])): tables[d][1] for d in tables}
    return W, {next(iter(kinds[d])): tables[d][0] for d in tables}, acc


def voters_of(prog, tables):
    """the byte values whose counts enter the totals: the accumulation statement (in detect_alphabet or in the private helper
    that computes one total) is found, and the guards between it and its loop are evaluated for every value of the loop index"""
    from ..affine import loop_range
    F, fns = _detect_fns(prog)
    voters = None
    loops_seen = []
    for G in fns:
        for a in G.body.find("CompoundAssignOperator"):
            if a.d["op"] != "+=" or a.kids[0].strip().ty != "double":
                continue
            src = [r for r in a.kids[1].find("DeclRefExpr") if r.d["did"] in tables or
                   (r.d.get("dk") == "Parm" and r.ty.replace("const ", "").replace(" ", "") == "double*")]
            if not src:
                continue
            _FEVAL_FN[0] = G
            loops = [x for x in a.ancestors() if x.k == "ForStmt"]
            if not loops:
                raise AnalysisBroken("R13b: model accumulation at %s is not in a loop" % a.loc)
            iv = loops[0].child("inc").strip().kids[0].strip()
            sym = Sym(did=iv.d["did"], ty="int")
            vs = set()
            for c in range(128):
                ok = True
                for cond, pol in guards(a, stop=loops[0]):
                    if cond.parent.k != "IfStmt":
                        continue
                    # the histogram count itself is positive for a character that occurs: treat `letter_freq[i]` as true
                    r = _ev_filter(cond, sym, c)
                    if r is not None and bool(r) != pol:
                        ok = False
                if ok:
                    vs.add(c)
            voters = vs if voters is None else voters & vs
            loops_seen.append((loops[0], loop_range(loops[0])))
    return voters, loops_seen


def r13b(ck, prog, premise=True):
    F = prog.fn("detect_alphabet")
    W, names, acc = letter_weights(prog)
    tables = interp_tables(prog)
    for kind in ("nucleotide", "protein"):
        w = W[kind]
        hit = max(w)
        letters = "".join(chr(c) for c in range(128) if w[c] == hit)
        ck.inst("R13b", site(prog, F, names[kind]), "%s model %s (constant-evaluated): %d symbols carry the member weight %.4f (%s), the others %.4f" % (
            kind, names[kind], len(letters), hit, letters, min(w)), prog.config)
    missing = [c for c in NUC + NUC.lower() if W["nucleotide"][ord(c)] != max(W["nucleotide"])]
    if missing:
        ck.violation("R13b", "R13b/detect_alphabet/nucleotide-letters", site(prog, F),
                     "the nucleotide model does not give %s the member weight: such sequences are not recognised as nucleotide" % "".join(missing), prog.config)
    # the syntactic checks on the literals (array length = literal length, loop ranges) where the tables are written that way
    try:
        lits, tabs = models(prog, F)
        tabs = {k: v for k, v in tabs.items() if v["lit"] is not None and v["default"] is not None}
    except Exception:
        tabs = {}
    if len(tabs) == 2:
        from ..affine import loop_range
        for did, t in tabs.items():
            name, text, arr, decl = lits[t["lit"]]
            where = site(prog, decl, name)
            if arr != len(text):
                ck.violation("R13b", "R13b/detect_alphabet/%s-length" % name, where,
                             "array %s has %d entries for a %d-letter literal" % (name, arr, len(text)), prog.config)
            for what, lp in t["loops"]:
                if lp is None:
                    continue
                rng = loop_range(lp)
                want = 128 if what == "default" else len(text)
                if rng is None or not (rng[1].is_const() and rng[1].c == 0 and rng[2].is_const() and rng[2].c == want):
                    ck.violation("R13b", "R13b/detect_alphabet/%s-%s-loop" % (name, what), site(prog, lp),
                                 "the loop that fills %s's %s entries covers %s instead of [0, %d): letters are dropped silently" % (
                                     name, what, ("[%s, %s)" % (rng[1], rng[2])) if rng else "?", want), prog.config)
    else:
        ck.info("R13b", "the letter models are not written as literal + loop; the syntactic length / loop-range clauses do not apply "
                        "(the constant-evaluated tables are what the remaining clauses use)")
    for kind in ("nucleotide", "protein"):
        w = W[kind]
        bad = [c for c in "ABCDEFGHIJKLMNOPQRSTUVWXYZ" if (w[ord(c)] == max(w)) != (w[ord(c.lower())] == max(w))]
        if bad:
            ck.violation("R13b", "R13b/detect_alphabet/%s-case" % kind, site(prog, F, names[kind]),
                         "the %s letter set is not closed under case (%s)" % (kind, "".join(bad)), prog.config)
    # the voting filter
    voters, loops_seen = voters_of(prog, tables)
    if voters is None or sorted(acc.values()) != sorted(tables):
        raise AnalysisBroken("R13b slot: the two model totals were not recognised")
    for lp, rng in loops_seen:
        if rng is None or not (rng[1].is_const() and rng[1].c == 0 and rng[2].is_const() and rng[2].c == 128):
            ck.violation("R13b", "R13b/detect_alphabet/vote-loop", site(prog, lp),
                         "the voting loop does not cover the histogram [0,128)", prog.config)
    letters = {c for c in range(128) if chr(c).isalpha()}
    nonletter_voters = sorted(voters - letters)
    ck.inst("R13b", site(prog, F, "voters"), "%d characters can vote; non-letters among them: %s" % (
        len(voters), [chr(c) if 32 < c < 127 else "0x%02x" % c for c in nonletter_voters][:12]), prog.config)
    biased = [c for c in nonletter_voters if W["nucleotide"][c] != W["protein"][c]]
    if biased:
        ck.violation("R13b", "R13b/detect_alphabet/non-letters-vote", site(prog, F),
                     "%d non-letter characters (gap symbols, padding: e.g. %r) take part in the decision with weight %.3f for "
                     "protein vs %.3f for nucleotide: a nucleotide alignment that is mostly gaps is classified as protein, unlike "
                     "the same sequences without gaps" % (len(biased), chr(biased[len(biased) // 2]), W["protein"][biased[0]],
                                                          W["nucleotide"][biased[0]]), prog.config)
    missing_voters = sorted(letters - voters)
    if missing_voters:
        ck.violation("R13b", "R13b/detect_alphabet/letters-silent", site(prog, F),
                     "letters %s cannot vote" % "".join(chr(c) for c in missing_voters), prog.config)
    bad = [c for c in NUC + NUC.lower() if not W["nucleotide"][ord(c)] > W["protein"][ord(c)]]
    ck.inst("R13b", site(prog, F, "P1"), "per-letter margin of the nucleotide model on its own letters: min %.3f" % min(
        W["nucleotide"][ord(c)] - W["protein"][ord(c)] for c in NUC + NUC.lower()), prog.config)
    if bad:
        ck.violation("R13b", "R13b/detect_alphabet/nucleotide-margin", site(prog, F),
                     "letter(s) %s do not weigh more under the nucleotide model: an all-nucleotide input can be classified as protein" % "".join(bad),
                     prog.config)
    # second premise of the statement: at least a quarter protein-only letters => protein.  The totals are linear in the
    # histogram, so the worst case for a protein-only letter c is a quarter c and three quarters of the amino-acid letter
    # that is also a nucleotide letter and pulls hardest towards nucleotide.  Decided for every letter of the protein
    # alphabet the repository documents (20 amino acids + B, Z, X), both cases.
    prot_alphabet = "ACDEFGHIKLMNPQRSTVWYBZX"
    shared = [c for c in prot_alphabet + prot_alphabet.lower() if c.upper() in NUC]
    m_sh = max(W["nucleotide"][ord(c)] - W["protein"][ord(c)] for c in shared)
    for c in prot_alphabet:
        if c in NUC or not premise:
            continue
        m_po = min(W["protein"][ord(x)] - W["nucleotide"][ord(x)] for x in (c, c.lower()))
        okp = 0.25 * m_po > 0.75 * m_sh
        ck.inst("R13b", site(prog, F, "P2 %s" % c), "a quarter '%s' gives %.2f per residue towards protein against at most %.2f towards "
                                                    "nucleotide from the other three quarters: %s" % (c, 0.25 * m_po, 0.75 * m_sh, "protein" if okp else "NOT protein"), prog.config)
        if not okp:
            ck.violation("R13b", "R13b/detect_alphabet/protein-premise-%s" % c, site(prog, F, "P2 %s" % c),
                         "input in which a quarter (even a third) of the residues are '%s' - a letter that occurs only in proteins - and the "
                         "rest are amino-acid letters that are also nucleotide letters (A, C, G, T, N) is classified as nucleotide: '%s' weighs "
                         "%.2f towards protein, each of the others up to %.2f towards nucleotide" % (c, c, m_po, m_sh), prog.config)
    # decision polarity is what classified the models; both kinds must be decided somewhere
    n_dec = 0
    for a, lhs, rhs in stores_to_field(F.body, "msa", "biotype"):
        m = macro_of_const(rhs.strip(casts=True))
        if m in ("ALN_BIOTYPE_DNA", "ALN_BIOTYPE_PROTEIN"):
            n_dec += 1
            ck.inst("R13b", site(prog, a, "decision"), "biotype = %s where the %s total is larger" % (
                m, "nucleotide" if m == "ALN_BIOTYPE_DNA" else "protein"), prog.config)
    if n_dec < 2:
        raise AnalysisBroken("R13b slot: biotype decisions not found")


def _ev_filter(cond, sym, c):
    """evaluate the voting filter for character c; sub-expressions reading the histogram count are 'true'"""
    n = cond.strip()
    if n.k == "BinaryOperator" and n.d["op"] == "&&":
        a, b = _ev_filter(n.kids[0], sym, c), _ev_filter(n.kids[1], sym, c)
        if a is not None and not a:
            return 0
        if b is not None and not b:
            return 0
        return None if a is None or b is None else 1
    if any(m.d.get("field") == "letter_freq" for m in n.find("MemberExpr")) and not any(
            x.k == "CallExpr" or (x.k == "BinaryOperator" and x.d["op"] == "&" and x.mac) for x in n.walk()):
        return 1
    n0 = n.strip(casts=True)
    if n0.k == "DeclRefExpr" and n0.d.get("dk") == "Var" and _FEVAL_FN[0] is not None:
        # a local that holds the count (freq = msa->letter_freq[i]): positive for a character that occurs
        defs = [d for d, _ in local_defs(_FEVAL_FN[0], n0.d["did"]) if d is not None]
        if defs and all(any(m.d.get("field") == "letter_freq" for m in d.find("MemberExpr")) for d in defs):
            return 1
    return ev(n, sym, c)


def r13i(ck, prog):
    """the counts reach the decision at full width: inside the kind decision no integer variable narrower than the histogram's
    counters receives a value computed from them (a flag of 8 bits OR-ed with the counts is 0 whenever every count is a
    multiple of 256, and a balanced input then has 'no residues')"""
    _, fns = _detect_fns(prog)
    BITS = {"char": 8, "signed char": 8, "unsigned char": 8, "uint8_t": 8, "int8_t": 8, "_Bool": 1, "short": 16, "unsigned short": 16,
            "uint16_t": 16, "int16_t": 16, "int": 32, "unsigned int": 32, "uint32_t": 32, "int32_t": 32}
    rec = prog.records.get("msa")
    fty = next((f["ty"] for f in rec["fields"] if f["name"] == "letter_freq"), "") if rec else ""
    import re as _re
    base = _re.sub(r"\s*\[\d+\]$", "", fty).replace("const ", "").strip()
    wcount = BITS.get(base, 64)
    n = 0
    for F in fns:
        for a in F.body.walk():
            tgt = rhs = None
            if (a.k == "BinaryOperator" and a.d["op"] == "=") or a.k == "CompoundAssignOperator":
                tgt, rhs = a.kids[0].strip(), a.kids[1]
            elif a.role == "declinit" and a.decl is not None:
                tgt, rhs = None, a
            if rhs is None or not any(m.k == "MemberExpr" and m.d.get("field") == "letter_freq" for m in rhs.walk()):
                continue
            def boolean_only(m_):
                x_ = m_
                while x_ is not None and x_ is not rhs:
                    x_ = x_.parent
                    if x_ is not None and ((x_.k == "BinaryOperator" and x_.d["op"] in ("==", "!=", "<", ">", "<=", ">=", "&&", "||")) or
                                           (x_.k == "UnaryOperator" and x_.d["op"] == "!")):
                        return True
                return False
            if all(boolean_only(m_) for m_ in rhs.walk() if m_.k == "MemberExpr" and m_.d.get("field") == "letter_freq"):
                continue            # a truth value (count != 0), not a count
            ty = (a.decl.get("ty") if tgt is None else tgt.ty) or ""
            name = a.decl["name"] if tgt is None else tgt.text()
            ty = ty.replace("const ", "").strip()
            n += 1
            w = BITS.get(ty)
            ck.inst("R13i", site(prog, a, name), "%s: %s (%s) receives a value computed from the letter counts" % (F.name, name, ty), prog.config)
            # a product with a floating-point weight is a score, not a count
            if w is not None and w < wcount and not any(x.ty in ("double", "float") for x in rhs.walk()):
                ck.violation("R13i", "R13i/%s/%s" % (F.name, _re.sub(r"\W+", "", name)), site(prog, a, name),
                             "%s keeps a value computed from the %d-bit letter counts in the %d-bit %s %s: counts that are multiples of %d "
                             "look like 0, and whether residues were seen / which kind wins then depends on the exact counts, not on the "
                             "composition" % (F.name, wcount, w, ty, name, 2 ** w), prog.config)
    ck.floor("R13i", n, 1, "values computed from the letter counts in the kind decision")


def r13g(ck, prog):
    """every residue letter that is read feeds the histogram the kind is decided from: an increment of a letter_freq element
    that is indexed by an input character is executed for every letter the character loop sees - a condition it sits under
    must hold for all 52 letters (evaluated per byte) and must not depend on a counter of how much has been counted already
    (a sampling cap makes the kind depend on the order of the records)"""
    from ..bytedom import char_origin
    n = 0
    counted_in = set()
    for F in prog.lib_functions():
        for u in F.body.walk():
            if not ((u.k == "UnaryOperator" and u.d["op"] == "++") or (u.k == "CompoundAssignOperator" and u.d["op"] == "+=")):
                continue
            t = u.kids[0].strip()
            if not (t.k == "ArraySubscriptExpr" and t.kids[0].strip(casts=True).k == "MemberExpr" and
                    t.kids[0].strip(casts=True).d.get("field") == "letter_freq"):
                continue
            org = char_origin(t.kids[1])
            alias = None
            ix = t.kids[1].strip(casts=True)
            if not org and ix.k == "DeclRefExpr" and ix.d.get("dk") == "Var":
                # int c = (unsigned char)line[i]; ... letter_freq[c]++
                from ..util import local_defs
                defs = [d for d, _ in local_defs(F, ix.d["did"]) if d is not None]
                if len(defs) == 1:
                    org = char_origin(defs[0])
                    alias = (Sym(did=ix.d["did"], ty=ix.ty), defs[0])
            if len(org) != 1:
                continue                    # indexed by a counter (merge of two histograms), not by an input character
            n += 1
            counted_in.add(F.name)
            sym = Sym(text=org[0].text())
            where = site(prog, u, "letter_freq++")
            loop = next((a for a in u.ancestors() if a.k in ("ForStmt", "WhileStmt", "DoStmt")), None)
            if loop is None:
                raise AnalysisBroken("R13g: %s counts a character outside a loop" % F.name)
            conds = []
            x = u
            while x.parent is not None and x.parent is not loop:
                pa = x.parent
                if pa.k == "IfStmt" and x is not pa.child("cond"):
                    conds.append((pa, x is pa.child("then") or x.within(pa.child("then"))))
                elif pa.k in ("ConditionalOperator", "SwitchStmt") or (pa.k in ("ForStmt", "WhileStmt", "DoStmt")):
                    raise AnalysisBroken("R13g: the histogram increment of %s sits under a %s; not decided" % (F.name, pa.k))
                x = pa
            # early exits of the iteration in front of the increment:  if(c > 127) continue;
            body = loop.child("body")
            if body is not None and body.k == "CompoundStmt":
                for st in body.kids:
                    if u.within(st) or st is u:
                        break
                    if st.k == "IfStmt" and st.child("else") is None and any(j.k in ("ContinueStmt", "BreakStmt") for j in st.child("then").walk()) \
                            and not any(j.k in ("ForStmt", "WhileStmt", "DoStmt") for j in st.child("then").walk()):
                        conds.append((st, False))
            ck.inst("R13g", where, "%s counts %s under %d condition(s)" % (F.name, org[0].text(), len(conds)), prog.config)
            for ifs, in_then in conds:
                c = ifs.child("cond")
                missed = []
                unknown = False
                for b in list(range(65, 91)) + list(range(97, 123)):
                    v = ev(c, sym, b)
                    if v is None and alias is not None:
                        av = ev(alias[1], sym, b)
                        v = ev(c, alias[0], av) if av is not None else None
                    if v is None:
                        unknown = True
                        break
                    if bool(v) != in_then:
                        missed.append(chr(b))
                if not unknown:
                    if missed:
                        ck.violation("R13g", "R13g/%s/letters" % F.name, where,
                                     "%s does not count the letters %s (condition %s): they are stored as residues but do not vote on the kind" % (
                                         F.name, "".join(missed), c.text()[:50]), prog.config)
                    continue
                # depends on something other than the character: a budget that the branch itself uses up?
                branch = (ifs.child("then") if in_then else ifs.child("else")) if u.within(ifs) else loop.child("body")
                bumped = {y.kids[0].strip().d.get("did") for y in (branch.walk() if branch is not None else [])
                          if ((y.k == "UnaryOperator" and y.d["op"] in ("++", "--")) or y.k == "CompoundAssignOperator") and y.kids[0].strip().k == "DeclRefExpr"}
                tested = {r.d.get("did") for r in c.walk() if r.k == "DeclRefExpr"}
                if bumped & tested:
                    nm = next(r.d["name"] for r in c.walk() if r.k == "DeclRefExpr" and r.d.get("did") in bumped)
                    ck.violation("R13g", "R13g/%s/budget" % F.name, where,
                                 "%s counts a character only while %s: the counter %s is used up by the counting itself, so residues "
                                 "read later never vote - the kind then depends on the order of the records, not on their composition" % (
                                     F.name, c.text()[:50], nm), prog.config)
                    continue
                raise AnalysisBroken("R13g: %s counts a character under the condition %s, which is not a test of the character" % (F.name, c.text()[:50]))
    ck.floor("R13g", n, 1, "histogram increments indexed by an input character")
    # every reader reaches one of them (directly or through a helper): the rule saw the counting of each input format
    from ..callgraph import CallGraph
    cg = CallGraph(prog)
    for r in ("read_fasta", "read_clu", "read_msf", "kalign_arr_to_msa"):
        if not (cg.reachable({r}) & counted_in):
            raise AnalysisBroken("R13g: no histogram increment by an input character is reachable from %s" % r)


def run(ck, progs):
    describe(ck)
    ck.rule("R13h", "after a merge of input files the kind is decided again from the sum of both histograms (= R04c): merge_msa adds the new file's counts and re-runs the detection")
    ck.rule("R13i", "inside the kind decision no integer variable narrower than the histogram's counters receives a value computed from them")
    ck.rule("R13g", "every increment of the histogram by an input character is executed for all 52 letters (conditions evaluated per byte) and under no budget that the counting itself uses up")
    for cfg, prog in progs.items():
        ck.attempt(r13a, ck, prog)
        ck.attempt(r13b, ck, prog)
        ck.attempt(r13e, ck, prog)
        ck.attempt(r13f, ck, prog)
        ck.attempt(r13g, ck, prog)
        ck.attempt(r13i, ck, prog)
        from . import c04 as _c04
        ck.borrow(_c04.r04c, prog, "R13h", ("R04c",))
        from . import c04
        b0 = len(ck.instances)
        ck.attempt(c04.r04a, ck, prog)
        for i in ck.instances[b0:]:
            i["rule"] = "R13d"
        for v in ck.violations:
            if v["rule"] == "R04a":
                v["rule"] = "R13d"
                v["key"] = v["key"].replace("R04a", "R13d")
        before = len(ck.instances)
        ck.attempt(c09.r09b, ck, prog)
        for i in ck.instances[before:]:
            i["rule"] = "R13c"
        for v in ck.violations:
            if v["rule"] == "R09b":
                v["rule"] = "R13c"
                v["key"] = v["key"].replace("R09b", "R13c")
    return ("Effect summary of detect_alphabet on its msa argument; every writer of letter_freq; the two letter models "
            "reconstructed from the literals and constant log() expressions (weights per character), the voting filter "
            "evaluated for all 128 characters, per-letter margins on the nucleotide letters and the polarity of the final "
            "comparison; the (kind x type) table of aln_param_init.")
