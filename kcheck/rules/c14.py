"""C14 — letter case and RNA/DNA spelling do not influence the alignment.

Decided as non-interference: residue letters enter the computation only through the alphabet
table (R14a), and the table - evaluated at analysis time for every alphabet kalign_run selects -
cannot tell upper from lower case (R14b) nor U from T (R14c); the kind decision uses case-closed
letter sets with equal weights for T and U (via R13b).  Assumes C-locale isalpha.
"""
from ..build import AnalysisBroken
from ..callgraph import CallGraph
from ..consteval import alphabet_tables
from ..model import access_mode
from ..util import site, member_accesses, local_defs, const_value
from . import c05, c13


def describe(ck):
    ck.rule("R14a", "between entry of kalign_run and finalise_alignment, msa_seq.seq is read only by the letter-to-code function, and the letter only indexes the alphabet table (or is compared with constants / printed in the warning)")
    ck.rule("R14b", "for every alphabet kalign_run selects, the evaluated table gives each upper-case letter and its lower-case twin the same code")
    ck.rule("R14c", "the evaluated nucleotide table gives U and T (u and t) the same code; the kind decision treats both as nucleotide letters with equal weight")
    ck.rule("R14d", "the kind decision cannot tell the spellings apart either: case-closed letter sets, T/U both nucleotide letters, only letters vote (= R13b)")
    ck.assumptions += ["C-locale isalpha; the readers keep exactly the isalpha characters (R04a)"]


def r14a(ck, prog):
    cg = CallGraph(prog)
    from ..lift import Lifted
    K = prog.fn("kalign_run")
    L = Lifted(prog, cg)
    found = L.find_call(K, "finalise_alignment")
    if not found:
        raise AnalysisBroken("R14a slot: kalign_run (and its private helpers) do not call finalise_alignment")
    pre = set()
    for G, f in found:
        cfg = G.cfg
        for c in G.body.calls():
            if c.callee in cg.defined and c.callee != "finalise_alignment" and cfg.reaches(cfg.position(c), cfg.position(f)):
                pre.add(c.callee)
        if G is not K:
            cfgk = K.cfg
            hs = [h for h in L.sites(K, "finalise_alignment", "may")]
            for c in K.body.calls():
                if c.callee in cg.defined and c not in hs and any(cfgk.reaches(cfgk.position(c), cfgk.position(h)) for h in hs):
                    pre.add(c.callee)
    reach = cg.reachable(pre)
    readers = {}
    for name in sorted(reach):
        F = cg.defined.get(name)
        if F is None:
            continue
        for m in member_accesses(F.body, "msa_seq", "seq"):
            readers.setdefault(name, []).append(m)
    ck.inst("R14a", "call graph", "%d functions run before finalise_alignment; msa_seq.seq is touched in %s" % (len(reach), sorted(readers)), prog.config)
    conv = c05.r05b.__globals__["member_accesses"]  # noqa (same helper)
    slot = [F for F in prog.lib_functions() if any(True for _ in member_accesses(F.body, "alphabet", "to_internal")) and
            any(c05._pointee_written(m) for m in member_accesses(F.body, "msa_seq", "s"))]
    if len(slot) != 1:
        raise AnalysisBroken("R14a slot: letter-to-code function not unique (%s)" % [f.name for f in slot])
    T = slot[0]
    for name, ms in readers.items():
        for m in ms:
            where = site(prog, m, "seq")
            if name != T.name:
                ck.violation("R14a", "R14a/%s/reads-letters" % name, where,
                             "%s reads residue letters (msa_seq.seq) during the computation: case or T/U spelling can reach the "
                             "alignment without passing the alphabet table" % name, prog.config)
    if T.name not in readers:
        raise AnalysisBroken("R14a: %s does not read msa_seq.seq" % T.name)
    # no case mapping anywhere in the computation
    for name in sorted(reach):
        F = cg.defined.get(name)
        if F is None:
            continue
        for c in F.body.calls("toupper", "tolower"):
            ck.violation("R14a", "R14a/%s/%s" % (name, c.callee), site(prog, c),
                         "%s calls %s during the computation: letter case is being inspected or changed outside the alphabet table" % (name, c.callee),
                         prog.config)
        for x in F.body.walk():
            if x.k == "BinaryOperator" and x.d["op"] == "&" and x.mac and any(m in ("toupper", "tolower", "isupper", "islower") for m in x.mac):
                ck.violation("R14a", "R14a/%s/case-test" % name, site(prog, x),
                             "%s tests letter case during the computation" % name, prog.config)
    # inside the translation function: how is the letter used?
    tab_alias = set()
    for m in member_accesses(T.body, "alphabet", "to_internal"):
        q = m
        while q is not None and q.k != "BinaryOperator":
            q = q.parent
        if q is not None and q.d["op"] == "=" and q.kids[0].strip().k == "DeclRefExpr":
            tab_alias.add(q.kids[0].strip().d["did"])

    def is_table_index(node):
        p, c = node.up(casts=True)
        if p is not None and p.k == "ArraySubscriptExpr" and c.within(p.kids[1]):
            b = p.kids[0].strip(casts=True)
            return (b.k == "DeclRefExpr" and b.d["did"] in tab_alias) or (b.k == "MemberExpr" and b.d.get("field") == "to_internal")
        return False

    n = 0
    for m in readers[T.name]:
        p, c = m.up()
        if not (p is not None and p.k == "ArraySubscriptExpr"):
            continue
        letter = p
        n += 1
        q, cc = letter.up(casts=True)
        where = site(prog, letter, letter.text())
        use = None
        if is_table_index(letter):
            use = "table index"
        elif q is not None and q.k == "CallExpr" and q.callee in ("warning", "fprintf", "printf", "log_message", "error"):
            use = "diagnostic"
        elif q is not None and (q.k == "DeclStmt" or (q.k == "BinaryOperator" and q.d["op"] == "=" and q.kids[0].strip().k == "DeclRefExpr")):
            v = q.kids[0].strip() if q.k == "BinaryOperator" else None
            did = v.d["did"] if v is not None else letter.parent.decl["did"] if letter.parent and letter.parent.decl else None
            uses = list(T.body.refs(did=did)) if did is not None else []
            bad = []
            for u in uses:
                if access_mode(u) == "write":
                    continue
                if is_table_index(u):
                    continue
                up_, uc = u.up(casts=True)
                if up_ is not None and up_.k == "BinaryOperator" and up_.d["op"] in ("<", ">", "<=", ">=", "==", "!=") and \
                        any(const_value(k) is not None for k in up_.kids):
                    # a range test (c > 127) tells no letter from its case twin; a comparison with one particular letter does
                    import operator as _op
                    OPS = {"<": _op.lt, ">": _op.gt, "<=": _op.le, ">=": _op.ge, "==": _op.eq, "!=": _op.ne}

                    def pure(e):
                        """e consists of comparisons of this letter with constants joined by && || !"""
                        e = e.strip(casts=True)
                        if e.k == "UnaryOperator" and e.d["op"] == "!":
                            return pure(e.kids[0])
                        if e.k == "BinaryOperator" and e.d["op"] in ("&&", "||"):
                            return pure(e.kids[0]) and pure(e.kids[1])
                        if e.k == "BinaryOperator" and e.d["op"] in OPS:
                            a_, b_ = e.kids[0].strip(casts=True), e.kids[1].strip(casts=True)
                            return (a_.k == "DeclRefExpr" and a_.d.get("did") == did and const_value(b_) is not None) or \
                                (b_.k == "DeclRefExpr" and b_.d.get("did") == did and const_value(a_) is not None)
                        return False

                    def val(e, ch):
                        e = e.strip(casts=True)
                        if e.k == "UnaryOperator":
                            return not val(e.kids[0], ch)
                        if e.d["op"] == "&&":
                            return val(e.kids[0], ch) and val(e.kids[1], ch)
                        if e.d["op"] == "||":
                            return val(e.kids[0], ch) or val(e.kids[1], ch)
                        a_, b_ = e.kids[0].strip(casts=True), e.kids[1].strip(casts=True)
                        if a_.k == "DeclRefExpr" and a_.d.get("did") == did:
                            return OPS[e.d["op"]](ch, const_value(b_))
                        return OPS[e.d["op"]](const_value(a_), ch)
                    top = up_
                    while True:
                        pq, pc = top.up(casts=True)
                        if pq is not None and ((pq.k == "BinaryOperator" and pq.d["op"] in ("&&", "||")) or (pq.k == "UnaryOperator" and pq.d["op"] == "!")) and pure(pq):
                            top = pq
                            continue
                        break
                    split = [chr(b_) for b_ in range(65, 91) if val(top, b_) != val(top, b_ + 32)] if pure(top) else []
                    up_ = top
                    if split:
                        ck.violation("R14a", "R14a/%s/case-sensitive-test" % T.name, site(prog, up_),
                                     "%s tests the raw letter with %s, which holds for one of %s/%s and not for the other: the same residue "
                                     "written in the other case takes a different path" % (T.name, up_.text()[:40], split[0], split[0].lower()), prog.config)
                    continue
                bad.append(u)
            use = "local %s used only as table index / range test" % (v.text() if v is not None else "?") if not bad else None
            if bad:
                ck.violation("R14a", "R14a/%s/letter-use" % T.name, site(prog, bad[0]),
                             "the residue letter is used as %s, not only as an index into the alphabet table" % bad[0].up(casts=True)[0].text()[:60],
                             prog.config)
                use = "other"
        if use is None and q is not None and q.k == "CallExpr" and q.callee:
            H_ = prog.fn(prog.resolve(q.callee, T.file), required=False)
            if H_ is not None and H_.body is not None and H_.static and H_.file == T.file:
                raise AnalysisBroken("R14a: %s hands the residue letter to its helper %s; how the helper uses it is not decided" % (T.name, H_.name))
        ck.inst("R14a", where, "%s reads a letter: %s" % (T.name, use), prog.config)
        if use is None:
            ck.violation("R14a", "R14a/%s/letter-use" % T.name, where,
                         "the residue letter %s is used in %s" % (letter.text(), q.text()[:60] if q is not None else "?"), prog.config)
    if n == 0:
        raise AnalysisBroken("R14a: no letter read found in %s" % T.name)


def r14bc(ck, prog):
    tabs = alphabet_tables(prog)
    ph = c05.used_alphabets(prog)
    used = sorted({n for lst in ph.values() for n, c in lst})
    for name in used:
        t = tabs[name]
        where = "create_alphabet(%s)" % name
        if t["error"]:
            if t["error"].startswith("undecided"):
                raise AnalysisBroken("R14b: the constructor of %s uses a construct the constant evaluator does not model (%s)" % (name, t["error"]))
            ck.violation("R14b", "R14b/create_alphabet/%s" % name, where, "alphabet %s: %s" % (name, t["error"]), prog.config)
            continue
        tab = t["to_internal"]
        diff = [chr(u) for u in range(65, 91) if tab[u] != tab[u + 32]]
        ck.inst("R14b", where, "%s: %d letters with a code; upper/lower twins with different codes: %s" % (
            name, sum(1 for u in range(65, 91) if tab[u] != -1), diff or "none"), prog.config)
        if diff:
            ck.violation("R14b", "R14b/create_alphabet/%s-case" % name, where,
                         "in alphabet %s the letters %s have a different code in lower case (%s vs %s): changing case changes the alignment" % (
                             name, "".join(diff), [tab[ord(c)] for c in diff][:5], [tab[ord(c) + 32] for c in diff][:5]), prog.config)
        other = [c for c in range(128) if tab[c] != -1 and not chr(c).isalpha()]
        if other:
            ck.violation("R14b", "R14b/create_alphabet/%s-nonletter" % name, where,
                         "alphabet %s assigns codes to non-letters %s" % (name, [chr(c) for c in other]), prog.config)
        if "DNA" in name:
            ck.inst("R14c", where, "%s: T=%d U=%d t=%d u=%d" % (name, tab[ord("T")], tab[ord("U")], tab[ord("t")], tab[ord("u")]), prog.config)
            if len({tab[ord("T")], tab[ord("U")], tab[ord("t")], tab[ord("u")]}) != 1 or tab[ord("T")] == -1:
                ck.violation("R14c", "R14c/create_alphabet/%s-TU" % name, where,
                             "in %s, T/U/t/u have codes %s: RNA and DNA spelling of the same sequence align differently" % (
                                 name, [tab[ord(c)] for c in "TUtu"]), prog.config)
            acgt = [tab[ord(c)] for c in "ACGT"]
            if len(set(acgt)) != 4 or -1 in acgt:
                ck.violation("R14c", "R14c/create_alphabet/%s-ACGT" % name, where,
                             "A, C, G, T do not have four distinct codes (%s)" % acgt, prog.config)
    if not any("DNA" in n for n in used):
        raise AnalysisBroken("R14c slot: no nucleotide alphabet among %s" % used)
    # kind decision: T and U (both cases) are in the nucleotide literal with one weight
    F = prog.fn("detect_alphabet")
    lits, tb = c13.models(prog, F)
    for did, t in tb.items():
        if t["lit"] is None:
            continue
        text = lits[t["lit"]][1]
        if set("ACGT") <= set(text.upper()) and len(set(text.upper()) - set("ACGTUN")) < 10:
            ok = all(c in text for c in "TUtu")
            ck.inst("R14c", site(prog, F, "kind letters"), "nucleotide letter set %r contains T,U,t,u: %s (one weight for all members)" % (text, ok), prog.config)
            if not ok:
                ck.violation("R14c", "R14c/detect_alphabet/TU", site(prog, F),
                             "the nucleotide letter set %r lacks one of T,U,t,u: spelling changes the detected kind" % text, prog.config)


def r14e(ck, prog):
    """the kind decision is blind to spelling: dna_total - protein_total is linear in the letter histogram, so it is the same
    for every case pattern and every T/U substitution iff each letter's margin (nucleotide weight - protein weight) equals
    the margin of its other-case twin, and the margins of T and U (t and u) are equal"""
    W = c13.letter_weights(prog)[0]
    F = prog.fn("detect_alphabet")
    margin = lambda c: W["nucleotide"][ord(c)] - W["protein"][ord(c)]
    import string
    n = 0
    for c in string.ascii_uppercase:
        n += 1
        if abs(margin(c) - margin(c.lower())) > 1e-12:
            ck.violation("R14e", "R14e/detect_alphabet/case-%s" % c, site(prog, F, c),
                         "'%s' and '%s' weigh differently in the kind decision (%.3f vs %.3f towards nucleotide): changing the case of "
                         "residues can change the detected kind, and with it the gap pattern" % (c, c.lower(), margin(c), margin(c.lower())), prog.config)
    for a, b in (("T", "U"), ("t", "u")):
        n += 1
        ck.inst("R14e", site(prog, F, a + "/" + b), "margin towards nucleotide: '%s' %.3f, '%s' %.3f" % (a, margin(a), b, margin(b)), prog.config)
        if abs(margin(a) - margin(b)) > 1e-12:
            ck.violation("R14e", "R14e/detect_alphabet/%s%s" % (a, b), site(prog, F, a + "/" + b),
                         "'%s' and '%s' weigh differently in the kind decision (%.3f vs %.3f towards nucleotide; '%s' is a letter of the "
                         "protein model, '%s' is not): the same nucleotide sequences are detected as protein when spelled with %s and as "
                         "nucleotide when spelled with %s once enough ambiguity letters (R, Y, K, M, ...) are present" % (
                             a, b, margin(a), margin(b), a, b, a, b), prog.config)
    ck.inst("R14e", site(prog, F, "case"), "26 letters have the same margin in both cases", prog.config)
    ck.floor("R14e", n, 28, "spelling twins")


LOGGERS = ("log_message", "warning", "error", "message", "fprintf", "printf", "snprintf")


def r14g(ck, prog):
    """the counts of particular spellings are looked at only where the kind is decided: every read of an element of
    msa.letter_freq outside detect_alphabet (and its private helpers) is the additive merge into another histogram or feeds a
    diagnostic message only.  A read of the count of a particular letter anywhere else makes the computation depend on how the
    residues were spelled (R14e shows that the kind decision itself does not)"""
    from .c13 import _detect_fns
    from ..model import access_mode
    from ..util import const_value
    _, dfns = _detect_fns(prog)
    dnames = {f.name for f in dfns}
    n = 0
    for F in prog.lib_functions():
        for m in F.body.find("MemberExpr"):
            if m.d.get("field") != "letter_freq" or m.d.get("rec") != "msa":
                continue
            p, c = m.up(casts=True)
            if p is None or p.k != "ArraySubscriptExpr" or not c.within(p.kids[0]):
                continue                      # the array as a whole (handed to memset / sizeof): no element is looked at
            if access_mode(p) != "read":
                continue
            n += 1
            where = site(prog, p, "letter_freq")
            if F.name in dnames:
                ck.inst("R14g", where, "%s (kind decision) reads %s" % (F.name, p.text()), prog.config)
                continue
            q, qc = p.up(casts=True)
            # additive merge: X->letter_freq[i] += Y->letter_freq[i]  /  = X + Y
            a = p
            while a is not None and a.k not in ("CompoundAssignOperator", "BinaryOperator", "CallExpr", "IfStmt", "ForStmt", "WhileStmt", "ReturnStmt", "CompoundStmt") \
                    or (a is not None and a.k == "BinaryOperator" and a.d["op"] in ("+",)):
                a = a.parent
            if a is not None and a.k in ("CompoundAssignOperator", "BinaryOperator") and a.d["op"] in ("+=", "=") and \
                    "letter_freq" in a.kids[0].text() and p.within(a.kids[1]):
                ck.inst("R14g", where, "%s adds %s into %s" % (F.name, p.text(), a.kids[0].text()), prog.config)
                continue
            # diagnostics: argument of a logging call, or the condition of an if whose branches only log
            anc = list(p.ancestors())
            call = next((x for x in anc if x.k == "CallExpr"), None)
            if call is not None and call.callee in LOGGERS:
                ck.inst("R14g", where, "%s prints %s" % (F.name, p.text()), prog.config)
                continue
            ifs = next((x for x in anc if x.k == "IfStmt"), None)
            if ifs is not None and p.within(ifs.child("cond")):
                body = [b for b in (ifs.child("then"), ifs.child("else")) if b is not None]
                calls = [x for b in body for x in b.calls()]
                stores = [x for b in body for x in b.walk() if (x.k == "BinaryOperator" and x.d["op"] == "=") or x.k == "CompoundAssignOperator" or
                          (x.k == "UnaryOperator" and x.d["op"] in ("++", "--")) or x.k in ("ReturnStmt", "GotoStmt", "BreakStmt", "ContinueStmt")]
                if calls and all(x.callee in LOGGERS for x in calls) and not stores:
                    ck.inst("R14g", where, "%s tests %s to decide whether to print a message" % (F.name, p.text()), prog.config)
                    continue
            idx = p.kids[1].strip(casts=True)
            if const_value(idx) is not None or idx.k == "CharacterLiteral":
                v = const_value(idx)
                ck.inst("R14g", where, "%s reads the count of one spelling: %s" % (F.name, p.text()), prog.config)
                ck.violation("R14g", "R14g/%s/letter_freq" % F.name, where,
                             "%s looks at %s - the number of times the input spells a residue as %s - outside the kind decision: writing the "
                             "same residues in the other case / as T instead of U changes what %s does" % (
                                 F.name, p.text(), repr(chr(v)) if v is not None and 32 <= v < 127 else idx.text(), F.name), prog.config)
                continue
            raise AnalysisBroken("R14g: %s reads %s outside the kind decision; whether the use is spelling-blind is not decided" % (F.name, p.text()))
    ck.floor("R14g", n, 4, "reads of letter_freq elements")


def run(ck, progs):
    describe(ck)
    ck.rule("R14g", "elements of msa.letter_freq are read only by the kind decision, by the additive merge into another histogram and by diagnostics: no other code looks at the count of a particular spelling")
    ck.rule("R14f", "in each reader a letter and its other-case twin take the same branch of the character classification (all 26 pairs evaluated)")
    ck.rule("R14e", "each letter's margin in the kind decision (nucleotide weight - protein weight) equals that of its case twin, and T's equals U's: the decision is linear in the histogram, so this is exactly spelling-invariance")
    for cfg, prog in progs.items():
        ck.attempt(r14a, ck, prog)
        ck.attempt(r14bc, ck, prog)
        ck.attempt(r14e, ck, prog)
        ck.attempt(r14g, ck, prog)
        from . import c04
        ck.attempt(c04.r04i, ck, prog, rule="R14f", case_only=True)
        b0 = len(ck.instances)
        ck.attempt(c13.r13b, ck, prog, premise=False)       # the quarter-protein premise is C13's clause, not a spelling matter
        for i in ck.instances[b0:]:
            i["rule"] = "R14d"
        for v in ck.violations:
            if v["rule"] == "R13b":
                v["rule"] = "R14d"
                v["key"] = v["key"].replace("R13b", "R14d")
    return ("Who-may-read of msa_seq.seq over everything kalign_run runs before finalise_alignment and the uses of the "
            "letter inside the translation function; the alphabet tables of every alphabet kalign_run selects, obtained by "
            "constant evaluation of create_alphabet and its callees (loops unrolled, calls inlined), compared entry by entry "
            "for case twins and for T/U; membership of T,U,t,u in the kind decision's nucleotide set.")
