"""C15 — written alignment files are self-consistent and correctly labelled (MSF header clauses).

Decided: the MSF header's declared length (R15a), checksum span and row/name pairing (R15b) and
molecule type (R15c) agree with what the body emits / what kalign_run leaves behind.
Not decided: wrapping at 60, presence of every sequence in every block, exact byte layout,
numerical correctness of the GCG checksum arithmetic.
"""
from ..build import AnalysisBroken
from ..util import (local_defs, site, guards, printf_specs, reaching_sources, macro_of_const, const_value)
from .c01 import _seq_origin


def describe(ck):
    ck.rule("R15a", "write_msa_msf: the length printed after 'MSF:' and every 'Len:' has the same source as the bound that ends row emission")
    ck.rule("R15b", "write_msa_msf: every GCG checksum is taken over that same span of the row it is printed for; the overall check sums all rows")
    ck.rule("R15c", "write_msa_msf: every banner (!!AA/!!NA) and 'Type:' (P/N) choice, evaluated in the two (biotype, L) states kalign_run leaves behind, labels protein as protein and nucleotide as nucleic")
    ck.rule("R15f", "the GCG checksum uses the position weights (i % 57)+1, folds residues to upper case and reduces mod 10000")
    ck.rule("R15g", "Clustal/MSF output lines are keyed by (block, position of the row in the msa | numseq for the separator | negative for headers)")
    ck.rule("R15d", "the GCG checksum accumulators are reduced in every iteration (or are 64 bit): no overflow for long rows")
    ck.rule("R15e", "row emission covers exactly [0, alnlen): FASTA prints every column in a counted loop; the block writers emit one residue per cursor step and leave both loops exactly on cursor == alnlen (other loop shapes: no verdict)")
    ck.not_decided += ["wrapping at 60 columns and block completeness (loop arithmetic over run-time widths)",
                       "the checksum arithmetic itself (overflow for extreme widths)"]


def _fmt_calls(F, token):
    """(call, spec index, arg node) for snprintf/fprintf calls whose format contains token; arg = value printed right after token"""
    out = []
    from .c06 import _printf_like
    for c in F.body.calls():
        lit = next((a for a in c.args if a.strip(casts=True).k == "StringLiteral" and "%" in a.strip(casts=True).d.get("s", "")), None)
        if lit is None or not (c.callee in ("snprintf", "fprintf", "sprintf", "printf") or _printf_like(F.prog, c, lit)):
            continue
        fi = None
        for i, a in enumerate(c.args):
            a0 = a.strip(casts=True)
            if a0.k == "StringLiteral" and "%" in a0.d.get("s", ""):
                fi = i
                break
        if fi is None:
            continue
        fmt = c.args[fi].strip(casts=True).d["s"]
        if token not in fmt:
            continue
        for before, conv, argi in printf_specs(fmt):
            if before.rstrip().endswith(token.rstrip()):
                if fi + 1 + argi < len(c.args):
                    out.append((c, conv, c.args[fi + 1 + argi]))
    return out


def writer_closure(prog, name):
    """the writer and the private helpers (static functions of the same file) it calls, transitively: a writer split into
    add_header / add_sequence_lines / print_buffer helpers is read as one unit"""
    F = prog.fn(name)
    out = [F]
    work = [F]
    while work:
        G = work.pop()
        for c in G.body.calls():
            H = prog.fn(prog.resolve(c.callee, G.file), required=False) if c.callee else None
            if H is not None and H.body is not None and H.static and H.file == F.file and H not in out and \
                    not H.name.startswith(("write_msa_", "read_")):
                out.append(H)
                work.append(H)
    return out


def xsources(prog, closure, F, expr, depth=0):
    """reaching sources of expr in F, written in terms of the writer at the root of the closure: where a source mentions a
    parameter of a helper, the argument of the helper's call site(s) is substituted (all call sites inside the closure)"""
    import re as _re
    out = set()
    for t in reaching_sources(F, expr):
        if F is closure[0] or depth > 3:
            out.add(t)
            continue
        names = [p_["name"] for p_ in F.params if _re.search(r"(?<![\w>.])%s\b" % _re.escape(p_["name"]), t)]
        if not names:
            out.add(t)
            continue
        sites = [(G, c) for G in closure for c in G.body.calls(F.name)]
        if not sites:
            out.add(t)
            continue
        for G, c in sites:
            tt = {t}
            for nm in names:
                idx = F.param_index(nm)
                if idx is None or idx >= len(c.args):
                    continue
                subs = xsources(prog, closure, G, c.args[idx], depth + 1)
                tt = {_re.sub(r"(?<![\w>.])%s\b" % _re.escape(nm), sub, x) for x in tt for sub in subs}
            out |= tt
    return out


def body_bound(prog, F):
    """the expression the row cursor is compared with to stop emitting residues"""
    cursors = {}
    for a in F.body.find("BinaryOperator"):
        if a.d["op"] != "=":
            continue
        r0 = a.kids[1].strip(casts=True)
        if r0.k == "ArraySubscriptExpr" and _seq_origin(F, r0):
            i0 = r0.kids[1].strip(casts=True)
            if i0.k == "DeclRefExpr":
                cursors[i0.d["did"]] = i0.d["name"]
    bounds = []
    for b in F.body.find("BinaryOperator"):
        if b.d["op"] in ("==", "<", ">=", "!=", "<=", ">"):
            l, r = b.kids[0].strip(casts=True), b.kids[1].strip(casts=True)
            if l.k == "DeclRefExpr" and l.d["did"] in cursors:
                bounds.append((b, b.kids[1]))
            elif r.k == "DeclRefExpr" and r.d["did"] in cursors:
                bounds.append((b, b.kids[0]))
    return cursors, bounds


def r15(ck, prog):
    CL = writer_closure(prog, "write_msa_msf")
    holders = [(G,) + body_bound(prog, G) for G in CL]
    holders = [h for h in holders if h[1] and h[2]]
    if len(holders) != 1:
        raise AnalysisBroken("R15a slot: row-emission cursor / bound not found in write_msa_msf")
    FB, cursors, bounds = holders[0]
    bsrc = set()
    for b, e in bounds:
        bsrc |= xsources(prog, CL, FB, e)
        ck.inst("R15a", site(prog, b, "body bound"), "rows are emitted until %s (source %s)" % (b.text(), sorted(xsources(prog, CL, FB, e))), prog.config)
    n = 0
    for token in ("MSF:", "Len:"):
        hits = [(G, h) for G in CL for h in _fmt_calls(G, token)]
        if not hits:
            raise AnalysisBroken("R15a slot: no format string with '%s' in write_msa_msf" % token)
        for F, (c, conv, arg) in hits:
            n += 1
            src = xsources(prog, CL, F, arg)
            where = site(prog, c, token)
            ck.inst("R15a", where, "header prints %s after '%s' (source %s)" % (arg.text(), token, sorted(src)), prog.config)
            if src != bsrc or len(src) != 1:
                ck.violation("R15a", "R15a/write_msa_msf/%s" % token.strip(":"), where,
                             "the MSF header declares %s (= %s) after '%s' but the rows are emitted up to %s: declared and "
                             "actual alignment length differ" % (arg.text(), sorted(src), token, sorted(bsrc)), prog.config)
    ck.floor("R15a", n, 2, "header length fields")
    # --- R15b
    nchk = 0
    for F, c in [(G, c) for G in CL for c in G.body.calls("GCGchecksum")]:
        nchk += 1
        where = site(prog, c, "GCGchecksum")
        row, ln = c.args[0], c.args[1]
        src = xsources(prog, CL, F, ln)
        ck.inst("R15b", where, "per-row checksum over %s of %s (source %s)" % (ln.text(), row.text(), sorted(src)), prog.config)
        if src != bsrc:
            ck.violation("R15b", "R15b/write_msa_msf/row-span", where,
                         "the per-row Check: is computed over %s but the row printed is %s long" % (sorted(src), sorted(bsrc)), prog.config)
        if not _seq_origin(F, row):
            ck.violation("R15b", "R15b/write_msa_msf/row-data", where, "the checksum is not taken over the row (msa_seq.seq)", prog.config)
        # same sequence as the name printed by the same call
        p = c
        while p is not None and not (p.k == "CallExpr" and p is not c):
            p = p.parent
        if p is not None:
            names = [a for a in p.args if any(m.d.get("field") == "name" for m in a.find("MemberExpr"))]
            if names:
                idx_n = [s.kids[1].text() for s in names[0].find("ArraySubscriptExpr")]
                idx_r = [s.kids[1].text() for s in row.find("ArraySubscriptExpr")]
                if idx_n != idx_r:
                    ck.violation("R15b", "R15b/write_msa_msf/row-pairing", where,
                                 "Name: is printed for sequence [%s] but Check: for [%s]" % (idx_n, idx_r), prog.config)
    for F, c in [(G, c) for G in CL for c in G.body.calls("GCGMultchecksum")]:
        nchk += 1
        where = site(prog, c, "GCGMultchecksum")
        if len(c.args) < 2:
            ck.violation("R15b", "R15b/write_msa_msf/total-span", where,
                         "the overall Check: is computed by GCGMultchecksum without the alignment length: it cannot cover the rows as written", prog.config)
            continue
        src = xsources(prog, CL, F, c.args[1])
        ck.inst("R15b", where, "overall checksum over %s (source %s)" % (c.args[1].text(), sorted(src)), prog.config)
        if src != bsrc:
            ck.violation("R15b", "R15b/write_msa_msf/total-span", where,
                         "the overall Check: covers %s but rows are %s long" % (sorted(src), sorted(bsrc)), prog.config)
    M = prog.fn("GCGMultchecksum", required=False)
    if M is not None:
        for c in M.body.calls("GCGchecksum"):
            nchk += 1
            where = site(prog, c, "GCGMultchecksum->GCGchecksum")
            ln = c.args[1].strip(casts=True)
            ok_len = ln.k == "DeclRefExpr" and ln.d.get("dk") == "Parm"
            ok_row = any(m.d.get("field") == "seq" for m in c.args[0].find("MemberExpr"))
            loops = [a for a in c.ancestors() if a.k == "ForStmt"]
            ok_all = bool(loops) and "numseq" in (loops[0].child("cond").text() if loops[0].child("cond") else "")
            ck.inst("R15b", where, "sums GCGchecksum(%s, %s) over %s" % (c.args[0].text(), c.args[1].text(),
                                                                         loops[0].child("cond").text() if loops else "?"), prog.config)
            if ok_len and ok_row and not loops:
                raise AnalysisBroken("R15b: GCGMultchecksum does not use a counted for-loop; coverage of all numseq rows is not decided")
            if not (ok_len and ok_row and ok_all):
                ck.violation("R15b", "R15b/GCGMultchecksum/shape", where,
                             "GCGMultchecksum does not sum the row checksums of all numseq rows over the length it is given", prog.config)
    ck.floor("R15b", nchk, 2, "checksum calls")
    # --- R15c: evaluate every banner / Type: choice in the two states kalign_run can leave behind
    from .c05 import used_alphabets
    from ..consteval import alphabet_tables
    ph = used_alphabets(prog)
    tabs = alphabet_tables(prog)
    prot = [n for n, c in ph["alignment"] if "PROTEIN" in n]
    dna = [n for n, c in ph["alignment"] if "DNA" in n]
    if len(prot) != 1 or len(dna) != 1:
        raise AnalysisBroken("R15c slot: alignment-phase alphabets of kalign_run not resolved (%s / %s)" % (prot, dna))
    states = {
        "protein": {"biotype": prog.macro_int("ALN_BIOTYPE_PROTEIN"), "L": tabs[prot[0]]["L"]},
        "nucleic": {"biotype": prog.macro_int("ALN_BIOTYPE_DNA"), "L": tabs[dna[0]]["L"]},
    }

    def marks(x):
        s_ = set()
        for l in x.find("StringLiteral"):
            if "!!AA_" in l.d.get("s", ""):
                s_.add("protein")
            if "!!NA_" in l.d.get("s", ""):
                s_.add("nucleic")
        for l in x.find("CharacterLiteral"):
            if l.d["v"] == ord("P"):
                s_.add("protein")
            if l.d["v"] == ord("N"):
                s_.add("nucleic")
        return s_

    def evalc(c, st):
        c = c.strip(casts=True)
        if c.cv is not None:
            return c.cv
        if c.k == "MemberExpr" and c.d.get("rec") == "msa" and c.d.get("field") in st:
            return st[c.d["field"]]
        if c.k == "UnaryOperator" and c.d["op"] == "!":
            v = evalc(c.kids[0], st)
            return None if v is None else int(not v)
        if c.k == "BinaryOperator":
            a, b = evalc(c.kids[0], st), evalc(c.kids[1], st)
            op = c.d["op"]
            if op == "&&":
                if a == 0 or b == 0:
                    return 0
                return None if a is None or b is None else 1
            if op == "||":
                if (a is not None and a) or (b is not None and b):
                    return 1
                return None if a is None or b is None else 0
            if a is None or b is None:
                return None
            return {"==": a == b, "!=": a != b, "<": a < b, ">": a > b, "<=": a <= b, ">=": a >= b}.get(op) and 1 or \
                (0 if op in ("==", "!=", "<", ">", "<=", ">=") else None)
        return None

    def is_choice(x):
        if x.k not in ("IfStmt", "ConditionalOperator") or x.child("then") is None or x.child("else") is None:
            return False
        a, b = marks(x.child("then")), marks(x.child("else"))
        return bool(a) and bool(b) and a != b

    def choose(x, st):
        if x is None:
            return set()
        if is_choice(x):
            v = evalc(x.child("cond"), st)
            if v is None:
                return choose(x.child("then"), st) | choose(x.child("else"), st) | {"?undecidable: %s" % x.child("cond").text()}
            return choose(x.child("then") if v else x.child("else"), st)
        sub = [k for k in x.kids]
        out = set()
        direct = set()
        if x.k in ("StringLiteral", "CharacterLiteral"):
            return marks(x)
        for k in sub:
            out |= choose(k, st)
        return out

    tops = []
    for n_ in [x for G in CL for x in G.body.walk()]:
        if is_choice(n_) and not any(is_choice(a) and a is not n_ and n_.role != "cond" for a in n_.ancestors()):
            tops.append(n_)
    if len(tops) < 2:
        raise AnalysisBroken("R15c slot: banner / Type: choices not found in write_msa_msf (%d)" % len(tops))
    for t in tops:
        where = site(prog, t, "type choice")
        res = {k: choose(t, st) for k, st in states.items()}
        ck.inst("R15c", where, "after a protein run (biotype=%d, L=%d) -> %s; after a nucleotide run (biotype=%d, L=%d) -> %s" % (
            states["protein"]["biotype"], states["protein"]["L"], sorted(res["protein"]),
            states["nucleic"]["biotype"], states["nucleic"]["L"], sorted(res["nucleic"])), prog.config)
        for kind in ("protein", "nucleic"):
            if res[kind] != {kind}:
                ck.violation("R15c", "R15c/write_msa_msf/%s" % kind, where,
                             "after a %s alignment (msa->biotype=%d, msa->L=%d) the choice %s labels the file %s" % (
                                 kind, states[kind]["biotype"], states[kind]["L"], t.child("cond").text(), sorted(res[kind])), prog.config)
                break


def r15h(ck, prog):
    """a header line that did not fit is written again into the enlarged buffer: inside `if (written >= size)` the retried
    snprintf is given a size that is provably larger than `written` (the buffer was just re-allocated to written + 1);
    retrying with the old size cuts the line at the same place again"""
    from ..affine import lin
    n = 0
    fns = []
    for name in ("write_msa_msf", "write_msa_clu"):
        W = prog.fn(name)
        fns.append(W)
        for c in W.body.calls():
            H = prog.functions.get(c.callee) if c.callee else None
            if H is not None and H.body is not None and H.static and H.file == W.file and H not in fns:
                fns.append(H)
    for F in fns:
        name = F.name
        for ifs in F.body.find("IfStmt"):
            c = ifs.child("cond").strip(casts=True)
            if not (c.k == "BinaryOperator" and c.d["op"] in (">=", ">")):
                continue
            w, sz = c.kids[0].strip(casts=True), c.kids[1].strip(casts=True)
            if w.k != "DeclRefExpr" or w.ty != "int":
                continue
            firsts = [d for d, _ in local_defs(F, w.d["did"]) if d is not None and d.strip(casts=True).k == "CallExpr"
                      and d.strip(casts=True).callee in ("snprintf", "vsnprintf")]
            if not firsts:
                continue
            retries = [x for x in ifs.child("then").find("CallExpr") if x.callee in ("snprintf", "vsnprintf")]
            if not retries:
                continue
            for r in retries:
                n += 1
                where = site(prog, r, "retry")
                d = lin(r.args[1])
                lw = lin(w)
                ck.inst("R15h", where, "%s: after `%s` the line is written again with size %s" % (name, c.text(), r.args[1].text()), prog.config)
                if d is None or lw is None:
                    raise AnalysisBroken("R15h: size of the retried snprintf at %s is not affine" % r.loc)
                rest = d.add(lw, -1)
                if rest.is_const() and rest.c >= 1:
                    continue
                if r.args[1].strip(casts=True).text() == sz.text() or (rest.is_const() and rest.c < 1):
                    ck.violation("R15h", "R15h/%s/retry-size" % name, where,
                                 "%s retries the line that did not fit (%s) with size %s: the copy is cut at the same place again, the header "
                                 "loses its tail (check value, type, '..')" % (name, c.text(), r.args[1].text()), prog.config)
                else:
                    raise AnalysisBroken("R15h: size %s of the retried snprintf at %s is not comparable with %s" % (r.args[1].text(), r.loc, w.text()))
    ck.floor("R15h", n, 1, "retried header lines")


def r15i(ck, prog):
    """a sequence name printed into the name column of a block format cannot run into the residues: every %s conversion
    of msa_seq.name in write_msa_msf / write_msa_clu that has a field width also has a precision"""
    import re
    n = 0
    for name, F in [(nm, G) for nm in ("write_msa_msf", "write_msa_clu") for G in writer_closure(prog, nm)]:
        from .c06 import _printf_like
        for c in F.body.calls():
            fi = next((i for i, a in enumerate(c.args) if a.strip(casts=True).k == "StringLiteral" and "%" in a.strip(casts=True).d.get("s", "")), None)
            if fi is None or not (c.callee in ("snprintf", "fprintf", "sprintf") or _printf_like(prog, c, c.args[fi])):
                continue
            fmt = c.args[fi].strip(casts=True).d["s"]
            argi = 0
            for m in re.finditer(r"%([-+ #0]*)(\*|\d+)?(?:\.(\*|\d+))?(hh|h|ll|l|L|z|j|t)?([diouxXeEfFgGaAcspn%])", fmt):
                if m.group(5) == "%":
                    continue
                if m.group(2) == "*":
                    argi += 1
                if m.group(3) == "*":
                    argi += 1
                val = c.args[fi + 1 + argi] if fi + 1 + argi < len(c.args) else None
                argi += 1
                if m.group(5) != "s" or val is None:
                    continue
                if not any(x.k == "MemberExpr" and x.d.get("field") == "name" and x.d.get("rec") == "msa_seq" for x in val.walk()):
                    continue
                n += 1
                where = site(prog, c, "name")
                ck.inst("R15i", where, "%s prints a sequence name with '%s'" % (name, m.group(0)), prog.config)
                if m.group(2) is not None and m.group(3) is None:
                    ck.violation("R15i", "R15i/%s/name-precision" % name, where,
                                 "%s prints the name with '%s': a width pads short names but does not cut long ones, so a name longer than "
                                 "the column runs into the residues and the row no longer has a name field and at most 60 columns" % (name, m.group(0)),
                                 prog.config)
    ck.floor("R15i", n, 1, "name conversions in the block writers")


def r15l(ck, prog):
    """the label of a block row is the sequence's name up to its terminator, the same string the header lines print: the loop
    that copies msa_seq.name into the line ends at strnlen/strlen of the name or at the NUL byte only - a label cut at some
    other byte (a blank, a punctuation character) no longer matches the Name: line / the other blocks of the same row"""
    from ..bytedom import Sym, ev
    from ..affine import loop_range
    n = 0
    for name, F in [(nm, G) for nm in ("write_msa_msf", "write_msa_clu") for G in writer_closure(prog, nm)]:
        for a in F.body.walk():
            if not (a.k == "BinaryOperator" and a.d["op"] == "="):
                continue
            r = a.kids[1].strip(casts=True)
            if not (r.k == "ArraySubscriptExpr" and any(m.k == "MemberExpr" and m.d.get("field") == "name" and m.d.get("rec") == "msa_seq" for m in r.kids[0].walk())):
                continue
            loop = a.parent
            while loop is not None and loop.k not in ("ForStmt", "WhileStmt", "DoStmt"):
                loop = loop.parent
            if loop is None:
                raise AnalysisBroken("R15l: %s copies a name character outside a loop" % name)
            n += 1
            where = site(prog, a, "label")
            sym = Sym(text=r.text())
            # exits that look at the character
            conds = []
            c0 = loop.child("cond")
            if c0 is not None:
                conds.append((c0, False))
            for i in loop.walk():
                if i.k == "IfStmt" and any(b.k in ("BreakStmt", "ReturnStmt", "GotoStmt") for b in i.child("then").walk()) and a.within(loop):
                    conds.append((i.child("cond"), True))
            cut = set()
            stops_at_nul = False
            for c, leaves_when_true in conds:
                if not any(sym.matches(x) for x in c.walk()):
                    continue
                for b in range(256):
                    v = ev(c, sym, b if b < 128 else b - 256)
                    if v is None:
                        raise AnalysisBroken("R15l: exit test '%s' of the label loop in %s cannot be evaluated" % (c.text()[:50], name))
                    out = bool(v) if leaves_when_true else not bool(v)
                    if out and b:
                        cut.add(b)
                    if out and not b:
                        stops_at_nul = True
            if cut:
                shown = "".join(chr(b) if 33 <= b < 127 else "\\x%02x" % b for b in sorted(cut))[:40]
                ck.inst("R15l", where, "%s: label loop leaves at bytes %s" % (name, shown), prog.config)
                ck.violation("R15l", "R15l/%s/label-cut" % name, where,
                             "%s stops copying the row label at the bytes {%s}, not only at the end of the name: a block row of a sequence whose "
                             "name contains one of them is labelled with a prefix of the name the header lines print in full, and two names "
                             "that differ only after it get the same label" % (name, shown), prog.config)
                continue
            ok = stops_at_nul
            if not ok:
                rg = loop_range(loop)
                if rg is not None and rg[1].is_const() and rg[1].c == 0 and len(rg[2].t) == 1 and rg[2].c == 0:
                    var = next(iter(rg[2].t))
                    # nearest assignment to the bound before the loop
                    prev = None
                    for x in F.body.walk():
                        if x.k == "BinaryOperator" and x.d["op"] == "=" and x.kids[0].strip().text() == var and x.loc and loop.loc and x.loc[1] <= loop.loc[1] and not x.within(loop):
                            prev = x
                    if prev is not None:
                        call = prev.kids[1].strip(casts=True)
                        if call.k == "CallExpr" and call.callee in ("strnlen", "strlen") and call.args[0].strip(casts=True).text() == r.kids[0].strip(casts=True).text():
                            ok = True
                            # the line the label goes into was sized from a measure of the names: the label must not be measured
                            # more generously (strlen, or a larger cap) than that
                            capL = const_value(call.args[1]) if call.callee == "strnlen" and len(call.args) > 1 else None
                            sizing = [c_ for G in writer_closure(prog, name) for c_ in G.body.calls("strnlen", "strlen")
                                      if c_ is not call and any(m.d.get("field") == "name" and m.d.get("rec") == "msa_seq" for m in c_.args[0].find("MemberExpr"))
                                      and any(a_.k == "BinaryOperator" and a_.d["op"] == "=" and "max" in a_.kids[0].text().lower() for a_ in c_.ancestors())]
                            caps = [const_value(c_.args[1]) for c_ in sizing if c_.callee == "strnlen" and len(c_.args) > 1]
                            if sizing and all(c_.callee == "strnlen" for c_ in sizing) and caps and all(v is not None for v in caps):
                                if capL is None and call.callee == "strlen" or (capL is not None and capL > min(caps)):
                                    ck.violation("R15l", "R15l/%s/label-longer-than-line" % name, site(prog, call, "label length"),
                                                 "%s measures the label with %s but sized the output line from strnlen(name, %d): a name longer "
                                                 "than %d characters (FASTA names are as long as their header line) is copied past the end of the "
                                                 "line buffer" % (name, call.text()[:40], min(caps), min(caps)), prog.config)
            if not ok:
                raise AnalysisBroken("R15l: where the label loop of %s ends is not understood" % name)
            ck.inst("R15l", where, "%s: the label is the name up to its terminator" % name, prog.config)
    ck.floor("R15l", n, 2, "label copies in the block writers")


def run(ck, progs):
    describe(ck)
    ck.rule("R15m", "the comparator of the output lines compares block and row key separately, or packs them with a factor of at least 2^31")
    ck.rule("R15n", "a comparison of num_line with alloc_num_lines guards only the growth of the line buffer: no line is written or skipped depending on it")
    ck.rule("R15l", "the label of a block row is copied from the name up to its terminator only (strnlen/strlen bound or a NUL test): it is the string the header lines print")
    ck.rule("R15j", "the writers are reached only for an msa whose rows have been rendered (status FINAL): nothing is written from ungapped residues with alnlen 0 (= R01d)")
    ck.rule("R15h", "a header line that did not fit is written again with a size larger than what the first attempt needed")
    ck.rule("R15i", "every %s conversion of a sequence name in the MSF/Clustal writers that has a width also has a precision")
    for cfg, prog in progs.items():
        ck.attempt(r15, ck, prog)
        ck.attempt(r15d, ck, prog)
        ck.attempt(r15e, ck, prog)
        ck.attempt(r15f, ck, prog)
        ck.attempt(r15g, ck, prog)
        ck.attempt(r15h, ck, prog)
        ck.attempt(r15i, ck, prog)
        ck.attempt(r15l, ck, prog)
        ck.attempt(r15m, ck, prog)
        ck.attempt(r15n, ck, prog)
        from . import c01
        ck.borrow(c01.r01d, prog, "R15j", ("R01d",))
    return ("Reaching-definition agreement inside write_msa_msf between the header's declared length, the checksum spans "
            "and the bound that terminates row emission; pairing of Name: and Check: on the same sequence index; the "
            "predicate that selects banner and Type:.")


# --------------------------------------------------------------------------- R15d / R15e
def r15d(ck, prog):
    """the per-row checksum accumulator stays bounded: a 32-bit accumulator must be reduced in every
    iteration, otherwise rows of ~150k columns overflow it (UB, wrong declared checksum)"""
    n = 0
    for F in prog.lib_functions():
        if not F.name.startswith("GCGchecksum"):
            continue
        for lp in F.body.find("ForStmt"):
            from ..affine import loop_range
            rng = loop_range(lp)
            if rng is None or rng[2].is_const():
                continue
            body = lp.child("body")
            accs = {}
            for a in body.walk():
                if a.k == "BinaryOperator" and a.d["op"] == "=" and a.kids[0].strip().k == "DeclRefExpr":
                    v = a.kids[0].strip()
                    if any(r.d["did"] == v.d["did"] for r in a.kids[1].find("DeclRefExpr")):
                        accs[v.d["did"]] = (v, a, a.kids[1])
                elif a.k == "CompoundAssignOperator" and a.d["op"] in ("+=", "*=", "-=") and a.kids[0].strip().k == "DeclRefExpr":
                    v = a.kids[0].strip()
                    accs[v.d["did"]] = (v, a, None)
            for did, (v, a, rhs) in accs.items():
                n += 1
                where = site(prog, a, v.text())
                bits = 64 if v.ty in ("long", "unsigned long", "long long", "unsigned long long") else 32
                reduced = rhs is not None and rhs.strip(casts=True).k == "BinaryOperator" and rhs.strip(casts=True).d["op"] in ("%", "&") and \
                    rhs.strip(casts=True).kids[1].cv is not None
                ck.inst("R15d", where, "%s: accumulator %s (%d bit) over a loop of run-time length: %s" % (
                    F.name, v.text(), bits, "reduced every iteration" if reduced else "not reduced"), prog.config)
                if bits < 64 and not reduced:
                    ck.violation("R15d", "R15d/%s/%s" % (F.name, v.text()), where,
                                 "%s accumulates into the %d-bit %s without reducing it in each iteration (%s): rows beyond "
                                 "~150 000 columns overflow it and the declared checksum is wrong" % (F.name, bits, v.text(), a.text()[:60]),
                                 prog.config)
    ck.floor("R15d", n, 1, "checksum accumulators")


def r15e(ck, prog):
    """row emission covers exactly the alignment length, for the loop shapes the rule can decide;
    any other shape is 'no verdict' (exit 2), never a pass"""
    from ..affine import loop_range, lin, single_defs
    from ..build import AnalysisBroken
    # FASTA: residues printed one by one
    W = prog.fn("write_msa_fasta")
    done = 0
    for c in W.body.calls("fprintf", "fputc", "putc"):
        args = [a for a in c.args if a.strip(casts=True).k == "ArraySubscriptExpr" and _seq_origin(W, a.strip(casts=True))]
        if not args:
            continue
        idx = args[0].strip(casts=True).kids[1].strip(casts=True)
        loops = [x for x in c.ancestors() if x.k == "ForStmt"]
        rng = loop_range(loops[0], single_defs(W)) if loops else None
        if rng is None or idx.text() != rng[0]:
            raise AnalysisBroken("R15e: residue emission loop of write_msa_fasta has an unrecognised shape")
        done += 1
        lo, hi = rng[1], rng[2]
        ok = lo.is_const() and lo.c == 0 and hi.c == 0 and list(hi.t.items()) == [("msa->alnlen", 1)]
        ck.inst("R15e", site(prog, loops[0], "fasta row"), "write_msa_fasta prints columns [%s, %s) of every row" % (lo, hi), prog.config)
        if not ok:
            ck.violation("R15e", "R15e/write_msa_fasta/coverage", site(prog, loops[0]),
                         "write_msa_fasta prints columns [%s, %s) instead of [0, alnlen)" % (lo, hi), prog.config)
    if not done:
        raise AnalysisBroken("R15e: write_msa_fasta no longer prints residues one by one in a counted loop; "
                             "coverage of all alnlen columns cannot be decided for the new shape")
    # block writers: cursor-controlled emission
    for name in ("write_msa_clu", "write_msa_msf"):
        holders = [(G,) + body_bound(prog, G) for G in writer_closure(prog, name)]
        holders = [h for h in holders if h[1]]
        if len(holders) != 1 or len(holders[0][1]) != 1:
            raise AnalysisBroken("R15e: %s: row cursor not unique (%s)" % (name, [(h[0].name, h[1]) for h in holders]))
        F, cursors, bounds = holders[0]
        did, cname = list(cursors.items())[0]
        mods = []
        for a in F.body.walk():
            if a.k == "UnaryOperator" and a.d["op"] in ("++", "--") and a.kids[0].strip().k == "DeclRefExpr" and a.kids[0].strip().d["did"] == did:
                mods.append(("inc", a))
            elif a.k in ("BinaryOperator", "CompoundAssignOperator") and (a.d["op"] == "=" or a.k == "CompoundAssignOperator") and \
                    a.kids[0].strip().k == "DeclRefExpr" and a.kids[0].strip().d["did"] == did:
                mods.append(("set" if a.k == "BinaryOperator" else "step", a))
        incs = [a for k, a in mods if k == "inc" and a.d["op"] == "++"]
        sets = [a for k, a in mods if k == "set"]
        other = [a for k, a in mods if k == "step" or (k == "inc" and a.d["op"] == "--")]
        stores = [a for a in F.body.find("BinaryOperator") if a.d["op"] == "=" and a.kids[1].strip(casts=True).k == "ArraySubscriptExpr" and
                  a.kids[1].strip(casts=True).kids[1].strip(casts=True).k == "DeclRefExpr" and
                  a.kids[1].strip(casts=True).kids[1].strip(casts=True).d["did"] == did]
        where = site(prog, stores[0] if stores else F, "%s cursor" % cname)
        eq_tests = [b for b, e in bounds if b.d["op"] == "==" and reaching_sources(F, e) == {"msa->alnlen"}]
        # the block loop: the loop around the store that is not the 60-column loop
        loops = [x for x in stores[0].ancestors() if x.k in ("ForStmt", "WhileStmt", "DoStmt")] if stores else []
        shape_ok = (len(stores) == 1 and len(incs) == 1 and not other and all(const_value(s.kids[1]) == 0 for s in sets) and
                    len(loops) >= 2 and loops[1].k == "WhileStmt" and const_value(loops[1].child("cond")) == 1)
        if not shape_ok:
            raise AnalysisBroken("R15e: the block loop of %s is not the recognised cursor-controlled shape (one store row[f], one f++, "
                                 "while(1) left on f == alnlen); block coverage cannot be decided for the new shape" % name)
        inner, block = loops[0], loops[1]
        # inner loop: exit test f == alnlen precedes the store; block loop: a break under f == alnlen
        inner_tests = [t for t in eq_tests if t.within(inner)]
        block_tests = [t for t in eq_tests if t.within(block) and not t.within(inner)]
        brk = any(any(x.k == "BreakStmt" for x in t.parent.child("then").walk()) for t in block_tests if t.parent.k == "IfStmt" and t.parent.child("then") is not None)
        cfg = F.cfg
        pre = bool(inner_tests) and not cfg.reaches(cfg.position(inner.child("cond")), cfg.position(stores[0]), avoid=[cfg.position(t) for t in inner_tests])
        inc_after = cfg.reaches(cfg.position(stores[0]), cfg.position(incs[0])) and stores[0].parent is incs[0].parent
        ck.inst("R15e", where, "%s: one residue per f++, inner exit on f==alnlen before the store: %s, block loop left on f==alnlen: %s" % (
            name, pre, brk), prog.config)
        if not (pre and brk and inc_after):
            ck.violation("R15e", "R15e/%s/blocks" % name, where,
                         "%s does not stop emitting exactly when the cursor reaches alnlen (inner test before store: %s, block loop "
                         "break on f==alnlen: %s, f++ right after the store: %s): rows are cut short or padded with an empty block" % (
                             name, pre, brk, inc_after), prog.config)


def r15f(ck, prog):
    """ingredients of the GCG checksum: position weight (i % 57) + 1, case-folded residue, reduction mod 10000"""
    n = 0
    for F in prog.lib_functions():
        if not F.name.startswith("GCGchecksum"):
            continue
        n += 1
        # the function and the static helpers of its file it calls (a per-character term moved into gcg_term())
        fns = [F]
        for c_ in F.body.calls():
            H = prog.fn(prog.resolve(c_.callee, F.file), required=False) if c_.callee else None
            if H is not None and H.body is not None and H.static and H.file == F.file and H not in fns:
                fns.append(H)
        consts = {x.cv for G in fns for x in G.body.find("IntegerLiteral") if x.cv is not None}
        up = [c for G in fns for c in G.body.calls("toupper")] + [x for G in fns for x in G.body.walk() if x.mac and "toupper" in x.mac and x.k == "CallExpr"]
        folded = [c for c in up if any(r.d.get("dk") == "Parm" for a in c.args for r in a.find("DeclRefExpr"))]
        where = site(prog, F, "formula")
        ck.inst("R15f", where, "%s: constants %s, case folding of the row: %s" % (F.name, sorted(consts & {57, 1, 10000}), bool(folded)), prog.config)
        if not {57, 10000} <= consts:
            ck.violation("R15f", "R15f/%s/constants" % F.name, where,
                         "%s does not use the GCG constants 57 and 10000 (found %s)" % (F.name, sorted(consts)), prog.config)
        if not folded:
            ck.violation("R15f", "R15f/%s/case" % F.name, where,
                         "%s sums the residues without folding them to upper case: rows with lower-case letters get a checksum that is "
                         "not the GCG checksum of the row" % F.name, prog.config)
    # the checksums are sums reduced modulo 10000 step by step: the reduction does not commute with splitting the sum over
    # threads, so neither checksum function may carry an OpenMP work-sharing directive with a reduction over its accumulator
    for F in prog.lib_functions():
        if not F.name.startswith("GCG"):
            continue
        for d in F.body.walk():
            if "omp" in d.d and any(c["kind"] == "reduction" for c in d.d.get("clauses", [])):
                accs = {e.get("did") for c in d.d.get("clauses", []) if c["kind"] == "reduction" for e in c.get("exprs", [])}
                # a final reduction of the combined value makes it right again:  chk %= 10000 / return chk % 10000 behind the loop
                final = [x for x in F.body.walk() if not x.within(d) and x.loc and d.loc and x.loc[1] > d.loc[1] and
                         ((x.k == "BinaryOperator" and x.d["op"] == "%") or (x.k == "CompoundAssignOperator" and x.d["op"] == "%=")) and
                         any(r.k == "DeclRefExpr" and r.d.get("did") in accs for r in x.kids[0].walk())]
                if final:
                    ck.inst("R15f", site(prog, d, "omp " + d.d["omp"]), "%s: reduction over the accumulator, reduced again behind the loop" % F.name, prog.config)
                    continue
                ck.violation("R15f", "R15f/%s/omp-reduction" % F.name, site(prog, d, "omp " + d.d["omp"]),
                             "%s accumulates its checksum under an OpenMP reduction: every thread reduces its private partial sum modulo "
                             "10000 and the partial sums are then added without a final reduction - with several threads the value "
                             "printed after 'Check:' exceeds the sum of the row checksums modulo 10000" % F.name, prog.config)
    ck.floor("R15f", n, 1, "GCG checksum functions")


def r15m(ck, prog):
    """the comparator that orders the output lines compares the block first and the row key second, each on its own - or, if it
    packs both into one number, the factor leaves room for every row key (>= 2^31): block*65536 + seq_id makes rows 65536.. of one
    block sort into the next"""
    cmps = set()
    for nm in ("write_msa_clu", "write_msa_msf"):
        for G in writer_closure(prog, nm):
            for c in G.body.calls("qsort"):
                for a in c.args:
                    a0 = a.strip(casts=True)
                    if a0.k == "DeclRefExpr" and a0.d.get("dk") == "Fn":
                        cmps.add(a0.d["name"])
    if not cmps:
        raise AnalysisBroken("R15m slot: the writers pass no comparator to qsort")
    n = 0
    for cn in sorted(cmps):
        C = prog.fn(cn)
        n += 1
        where = site(prog, C, "line order")
        packed = []
        for b in C.body.find("BinaryOperator"):
            if b.d["op"] in ("*", "<<") and any(m.k == "MemberExpr" and m.d.get("field") == "block" for m in b.kids[0].walk()) and const_value(b.kids[1]) is not None:
                f_ = const_value(b.kids[1]) if b.d["op"] == "*" else 2 ** const_value(b.kids[1])
                packed.append((b, f_))
            elif b.d["op"] == "*" and any(m.k == "MemberExpr" and m.d.get("field") == "block" for m in b.kids[1].walk()) and const_value(b.kids[0]) is not None:
                packed.append((b, const_value(b.kids[0])))
        ck.inst("R15m", where, "%s orders lines by %s" % (cn, "a packed key (factor %s)" % [f_ for _, f_ in packed] if packed else "block, then row key"), prog.config)
        for b, f_ in packed:
            if f_ < 2 ** 31:
                ck.violation("R15m", "R15m/%s/packed-key" % cn, site(prog, b, "key"),
                             "%s combines block and row key as %s: a row key of %d or more (an alignment with that many sequences) reaches "
                             "into the next block's range, rows of two blocks interleave and the separator lands inside a block" % (
                                 cn, b.text()[:50], f_), prog.config)
    ck.floor("R15m", n, 1, "comparators of output lines")


def r15n(ck, prog):
    """whether a line is written does not depend on how full the line buffer is: a comparison of num_line with alloc_num_lines
    guards the call that grows the buffer and nothing else"""
    n = 0
    for nm in ("write_msa_clu", "write_msa_msf"):
        for G in writer_closure(prog, nm):
            for ifs in G.body.find("IfStmt"):
                c = ifs.child("cond")
                fields = {m.d.get("field") for m in c.find("MemberExpr")}
                if not {"num_line", "alloc_num_lines"} <= fields:
                    continue
                n += 1
                body = [b_ for b_ in (ifs.child("then"), ifs.child("else")) if b_ is not None]
                stores = [x for b_ in body for x in b_.walk() if (x.k == "BinaryOperator" and x.d["op"] == "=") or x.k == "CompoundAssignOperator" or
                          (x.k == "UnaryOperator" and x.d["op"] in ("++", "--"))]
                calls = [x.callee for b_ in body for x in b_.calls()]
                where = site(prog, ifs, "capacity test")
                ck.inst("R15n", where, "%s: capacity test guards %s" % (G.name, calls or "nothing"), prog.config)
                if stores and G.name not in ("resize_line_buffer", "alloc_line_buffer"):
                    ck.violation("R15n", "R15n/%s/capacity-gates-output" % nm, where,
                                 "%s writes a line (%s) only when the line buffer has room (%s): when the line falls on a multiple of the "
                                 "buffer's growth step it is silently left out - two blocks run together without the separator" % (
                                     G.name, stores[0].text()[:40], c.text()[:50]), prog.config)
    ck.floor("R15n", n, 2, "capacity tests in the block writers")


def r15g(ck, prog):
    """output lines are ordered by (block, seq_id): sequence rows must carry their position in the msa as seq_id, the
    block separator the value numseq, header lines negative ids - anything else lets rows sort behind the separator"""
    from ..affine import loop_range
    from ..util import local_defs
    n = 0

    def key_ok(CL, F, r, at, depth=0):
        """is the value r (an expression of F, used at node `at`) a legitimate ordering key?"""
        r = r.strip(casts=True)
        if r.cv is not None and r.cv < 0:
            return True
        if r.k == "MemberExpr" and r.d.get("field") == "numseq":
            return True
        if r.k != "DeclRefExpr":
            return False
        if r.d.get("dk") == "Parm" and F is not CL[0] and depth < 3:
            idx = F.param_index(r.d["name"])
            sites = [(G, c) for G in CL for c in G.body.calls(F.name)]
            return idx is not None and bool(sites) and all(idx < len(c.args) and key_ok(CL, G, c.args[idx], c, depth + 1) for G, c in sites)
        for lp in [x for x in at.ancestors() if x.k == "ForStmt"]:
            rg = loop_range(lp)
            if rg and rg[0] == r.text() and rg[1].is_const() and rg[1].c == 0 and list(rg[2].t) == ["msa->numseq"]:
                return True
        # header counter: a local initialised to a negative value and only incremented
        if r.d.get("dk") == "Var":
            inits = [x for x, nn in local_defs(F, r.d["did"]) if x is not None]
            if inits and all(any(k.k == "UnaryOperator" and k.d["op"] == "-" for k in x.walk()) or (x.cv is not None and x.cv < 0) for x in inits):
                return True
        return False
    for name in ("write_msa_clu", "write_msa_msf"):
        CL = writer_closure(prog, name)
        for F in CL:
            if any("out_line" in c_.text() for c_ in F.body.calls("malloc", "realloc", "calloc")):
                continue                # the constructor / grower of the line buffer: initial values of fresh lines
            for a in F.body.find("BinaryOperator"):
                if a.d["op"] != "=":
                    continue
                l = a.kids[0].strip()
                if not (l.k == "MemberExpr" and l.d.get("field") == "seq_id" and l.d.get("rec") == "out_line"):
                    continue
                n += 1
                what = a.kids[1].strip(casts=True).text()
                where = site(prog, a, "seq_id")
                ck.inst("R15g", where, "%s: out_line.seq_id = %s" % (name, what), prog.config)
                if not key_ok(CL, F, a.kids[1], a):
                    ck.violation("R15g", "R15g/%s/seq_id" % name, where,
                                 "%s orders an output line by %s: rows must be keyed by their position 0..numseq-1 in the msa (the block "
                                 "separator is keyed numseq); any other key can sort a row behind the separator of its block" % (name, what),
                                 prog.config)
    ck.floor("R15g", n, 2, "line ordering keys")


