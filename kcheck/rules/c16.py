"""C16 — a library call's result does not depend on the calls made before it.

Decided: there is no channel from one call to the next - no mutable process-wide state (R16a), the
OpenMP thread count is re-established by every kalign_run (R16b), no constructor leaves a field
that is read later unset, i.e. nothing reads stale heap (R16c = R05c), and the objects each API
function acquires are released or handed to the caller on every path, success and failure (R16d).
Not decided: allocator state / fragmentation; libgomp's thread pool (excluded by the statement).
"""
from ..build import AnalysisBroken
from ..callgraph import CallGraph
from ..effects import Effects
from ..model import access_mode
from ..util import site, guards, const_value, local_defs
from . import c05, c03

API_OWNERS = ("kalign", "kalign_run", "kalign_read_input", "kalign_write_msa", "kalign_msa_compare", "kalign_check_msa",
              "kalign_arr_to_msa", "kalign_msa_to_arr", "convert_msa_to_internal", "build_tree_kmeans", "create_msa_tree",
              "compare_pair", "kalign_sort_msa", "write_msa_clu", "write_msa_msf", "write_msa_fasta", "make_seq", "do_align",
              "recursive_aln", "read_file_stdin", "finalise_alignment")


# functions that own what they acquire also when they fail (API entry points, and helpers that publish their
# out-parameter only on success); for all other functions only the success exits are checked (C05: "leaks on the
# success path"), because their failure exits are reachable by allocation failure only or are infeasible
FAILURE_OWNERS = ("kalign", "kalign_run", "kalign_read_input", "kalign_msa_compare", "kalign_write_msa", "read_file_stdin")
# acquisitions that happen only on a branch no caller takes; each is verified, not trusted
CONDITIONAL_ACQ = {
    ("build_tree_kmeans", "t"): ("alloc_tasks", "only when *tasks is NULL; every caller allocates the task list first"),
}


def describe(ck):
    ck.rule("R16a", "every file-scope variable and function-local static of the library is const or only ever assigned compile-time constants (idempotent)")
    ck.rule("R16b", "kalign_run calls omp_set_num_threads with its own n_threads parameter before anything that opens a parallel region")
    ck.rule("R16c", "no constructor leaves a later-read field unset: nothing reads heap bytes left by an earlier call (= R05c)")
    ck.rule("R16d", "objects acquired into locals by the API functions (and the helpers they own) are released or handed over on every path to every exit, failure exits included")
    ck.rule("R16e", "nothing reachable from the API reads a clock, a random source or pointer values as data (= R03d over all API roots)")
    ck.not_decided += ["heap exhaustion / fragmentation effects", "libgomp's internal thread pool (excluded by the statement)"]


def r16a(ck, prog, functions=None, rule="R16a"):
    n = 0
    statics = {}
    fns = list(functions) if functions is not None else list(prog.lib_functions())
    for g in prog.globals:
        if functions is None and "/lib/" not in g["loc"]:
            continue
        if not g.get("def") and g.get("extern"):
            continue
        statics[g["did"]] = (g["name"], g["const"], prog.rel(g["loc"]))
    # function-local statics
    local_static = {}
    for F in fns:
        for s in F.body.find("DeclStmt"):
            for dd in s.d["decls"]:
                if dd.get("static"):
                    local_static[dd["did"]] = (dd["name"], bool(dd.get("const")) or dd.get("ty", "").startswith("const "), site(prog, s), F.name)
    for did, (name, const, loc) in sorted(statics.items(), key=lambda x: x[1][0]):
        n += 1
        writes = []
        for F in fns:
            for r in F.body.find("DeclRefExpr"):
                if r.d["name"] == name and r.d.get("g"):
                    m = access_mode(r)
                    if m in ("write", "rmw", "addr", "decay") or m.startswith("elem-w") or m.startswith("elem-rmw") or \
                            m.endswith("-decay") or m.endswith("-addr"):
                        writes.append((F, r, m))
        if const:
            # a const-qualified object: handing out its address (a cursor walking a constant table) cannot change it
            writes = [w_ for w_ in writes if w_[2] not in ("addr", "decay") and not w_[2].endswith("-decay") and not w_[2].endswith("-addr")]
        ck.inst(rule, loc + ":" + name, "global %s: %s, %d write site(s)" % (name, "const" if const else "mutable", len(writes)), prog.config)
        if const and not writes:
            continue
        for F, r, m in writes:
            p = r
            while p is not None and p.k not in ("BinaryOperator", "CompoundAssignOperator", "UnaryOperator", "CallExpr"):
                p = p.parent
            ok = False
            if p is not None and p.k == "BinaryOperator" and p.d["op"] == "=":
                rhs = p.kids[1]
                ok = const_value(rhs) is not None or (
                    rhs.strip(casts=True).k == "CallExpr" and (rhs.strip(casts=True).callee or "").startswith("_mm") and
                    all(const_value(a) is not None or a.strip(casts=True).k == "IntegerLiteral" for a in rhs.strip(casts=True).args))
            if not ok:
                ck.violation(rule, "%s/%s/%s" % (rule, F.name, name), site(prog, r),
                             "%s modifies the process-wide variable %s (%s): state survives from one library call to the next" % (
                                 F.name, name, p.text()[:60] if p is not None else m), prog.config)
    for did, (name, const, loc, fname) in sorted(local_static.items(), key=lambda x: x[1][0]):
        n += 1
        ck.inst(rule, loc + ":" + name, "function-local static %s in %s: %s" % (name, fname, "const" if const else "mutable"), prog.config)
        if not const:
            ck.violation(rule, "%s/%s/static-%s" % (rule, fname, name), loc,
                         "%s keeps a mutable function-local static %s: state survives from one library call to the next" % (fname, name), prog.config)
    return n


def r16j(ck, prog):
    """nothing is released twice: from a call that releases a local pointer (free / MFREE / *free* / fclose) no second release
    of the same local is reachable unless the local is assigned in between (MFREE's `p = NULL`, a fresh allocation, the
    hand-over idiom `m = NULL`) - a test `if(p)` in front of the second release does not help when p still holds the old
    address"""
    n = 0
    for F in prog.lib_functions():
        if F.cfg is None:
            continue
        rel = {}
        for c in F.body.calls():
            if not c.callee or not (("free" in c.callee.lower()) or c.callee == "fclose") or not c.args:
                continue
            a0 = c.args[0].strip(casts=True)
            if a0.k == "DeclRefExpr" and a0.d.get("dk") == "Var" and not a0.d.get("g") and (a0.ty or "").endswith("*"):
                rel.setdefault(a0.d["did"], []).append(c)
        for did, sites_ in rel.items():
            if len(sites_) < 2:
                continue
            assigns = [x for x in F.body.walk() if ((x.k == "BinaryOperator" and x.d["op"] == "=") and x.kids[0].strip().k == "DeclRefExpr" and
                                                    x.kids[0].strip().d["did"] == did)]
            # out-parameter acquisitions (&p handed to an allocator) also give p a new value
            assigns += [x for x in F.body.walk() if x.k == "UnaryOperator" and x.d["op"] == "&" and x.kids[0].strip().k == "DeclRefExpr" and
                        x.kids[0].strip().d["did"] == did]
            ap = [F.cfg.position(x) for x in assigns]
            ap = [p_ for p_ in ap if p_ is not None]
            for r1 in sites_:
                for r2 in sites_:
                    if r1 is r2:
                        continue
                    p1, p2 = F.cfg.position(r1), F.cfg.position(r2)
                    if p1 is None or p2 is None:
                        continue
                    n += 1
                    if F.cfg.reaches(p1, p2, avoid=ap):
                        ck.violation("R16j", "R16j/%s/%s" % (F.name, r1.args[0].strip(casts=True).text()), site(prog, r2, "second release"),
                                     "%s releases %s at line %s and can reach this second release with %s still holding the old address "
                                     "(no assignment in between): a double free on that path" % (
                                         F.name, r1.args[0].strip(casts=True).text(), site(prog, r1).split(":")[1] if ":" in site(prog, r1) else "?",
                                         r1.args[0].strip(casts=True).text()), prog.config)
    ck.inst("R16j", "lib", "%d ordered pairs of releases of one local examined" % n, prog.config)
    ck.floor("R16j", n, 4, "pairs of releases of the same local")


def r16b(ck, prog):
    K = prog.fn("kalign_run")
    if not prog.config.startswith("omp"):
        return
    cg = CallGraph(prog)
    # functions that (transitively) contain an omp parallel directive
    par = set()
    for F in prog.lib_functions():
        if any("omp" in n.d and n.d["omp"].startswith("parallel") for n in F.body.walk()):
            par.add(F.name)

    def opens(name):
        return name in cg.defined and bool(set(cg.reachable({name})) & par)

    def check(F, parm_ok, depth=0):
        """F sets the thread count from a value for which parm_ok(arg node) holds, unconditionally, before anything in F that opens
        a parallel region; returns the positions in F that count as 'the thread count is set here' (empty: F does not set it)"""
        cfg = F.cfg
        sets = []
        for s_ in F.body.calls("omp_set_num_threads"):
            a = s_.args[0].strip(casts=True)
            if not (a.k == "DeclRefExpr" and a.d.get("dk") == "Parm" and parm_ok(F, a)):
                ck.violation("R16b", "R16b/%s/argument" % F.name, site(prog, s_), "omp_set_num_threads(%s) does not use the call's own parameter" % a.text(), prog.config)
            if [c for c, pol in guards(s_) if "RUN" not in c.mac]:
                ck.violation("R16b", "R16b/%s/conditional" % F.name, site(prog, s_), "omp_set_num_threads is conditional", prog.config)
            sets.append(s_)
        helpers = []
        if depth < 2:
            for c in F.body.calls():
                G = prog.fn(prog.resolve(c.callee, F.file), required=False) if c.callee else None
                if G is None or G is F or G.cfg is None or not any(True for _ in G.body.calls("omp_set_num_threads")):
                    continue

                def ok_in_callee(H, a, c=c, G=G):
                    idx = H.param_index(a.d["name"])
                    if idx is None or idx >= len(c.args):
                        return False
                    b = c.args[idx].strip(casts=True)
                    return b.k == "DeclRefExpr" and b.d.get("dk") == "Parm" and parm_ok(F, b)
                inner = check(G, ok_in_callee, depth + 1)
                if inner and not G.succeeds_avoiding([G.cfg.position(x) for x in inner]):
                    if [g for g, pol in guards(c) if "RUN" not in g.mac]:
                        ck.violation("R16b", "R16b/%s/conditional" % F.name, site(prog, c), "%s (which sets the thread count) is called conditionally" % G.name, prog.config)
                    helpers.append(c)
                elif inner:
                    raise AnalysisBroken("R16b: %s sets the thread count on some of its success paths only; not decided" % G.name)
        allsets = sets + helpers
        spos = [cfg.position(x) for x in allsets]
        for c in F.body.calls():
            if c in helpers:
                continue
            if opens(c.callee):
                ck.inst("R16b", site(prog, c, c.callee), "%s: %s opens parallel regions; the thread count is set before it" % (F.name, c.callee), prog.config)
                if allsets and cfg.reaches(None, cfg.position(c), avoid=spos):
                    ck.violation("R16b", "R16b/%s/%s" % (F.name, c.callee), site(prog, c),
                                 "%s (which opens a parallel region) can run before omp_set_num_threads" % c.callee, prog.config)
        return allsets
    sets = check(K, lambda F, a: True)
    where = site(prog, sets[0] if sets else K, "omp_set_num_threads")
    ck.inst("R16b", where, "kalign_run sets the OpenMP thread count at %d place(s)" % len(sets), prog.config)
    if not sets:
        ck.violation("R16b", "R16b/kalign_run/missing", where,
                     "kalign_run never calls omp_set_num_threads: the thread count of an earlier call stays in force", prog.config)
        return


# --------------------------------------------------------------------------- R16d
RELEASERS_BY_ADDRESS = set()      # (function, param index): frees *param and sets it to NULL


def _out_allocators(prog, E):
    """(function, param index) pairs whose callee stores a fresh object through a T** parameter"""
    out = set()
    for F in prog.all_functions:
        for i, p in enumerate(F.params):
            if p["ty"].endswith("**") or p["ty"].endswith("* *"):
                S = E.of_param(F.name, i)
                if () in S.pwrites:
                    # a function that releases *p and clears it (release_x(&p)) also stores through p: not an allocator
                    pn = p["name"]
                    sts = [a for a in F.body.find("BinaryOperator") if a.d["op"] == "=" and a.kids[0].strip().k == "UnaryOperator" and
                           a.kids[0].strip().d["op"] == "*" and a.kids[0].strip().kids[0].strip(casts=True).text() == pn]
                    only_null = bool(sts) and all(a.kids[1].strip(casts=True).cv == 0 or "NULL" in "".join(a.kids[1].strip(casts=True).mac or []) or
                                                  "NULL" in "".join(a.kids[1].mac or []) for a in sts)
                    frees_it = any(("free" in (c.callee or "").lower() or c.callee == "fclose") and c.args and
                                   c.args[0].strip(casts=True).text() in ("*" + pn, "*%s" % pn) for c in F.body.calls())
                    if only_null and frees_it:
                        RELEASERS_BY_ADDRESS.add((F.name, i))
                        continue
                    out.add((F.name, i))
    return out


def r16d(ck, prog, functions=None, rule="R16d", all_exits=True):
    E = Effects(prog)
    allocs = _out_allocators(prog, E)
    n = 0
    names = functions or API_OWNERS
    for fname in names:
        F = prog.functions.get(fname)
        if F is None or F.cfg is None:
            if functions is None and fname in ("kalign", "kalign_run", "kalign_read_input", "kalign_msa_compare"):
                raise AnalysisBroken("R16d slot: API function %s not found" % fname)
            continue
        cfg = F.cfg
        locals_ = {}
        for s in F.body.find("DeclStmt"):
            for dd in s.d["decls"]:
                if dd.get("dkind") == "Var" and dd.get("ty", "").endswith("*") and not dd.get("static"):
                    locals_[dd["did"]] = dd
        for did, dd in locals_.items():
            acq = []
            for c in F.body.find("CallExpr"):
                for i, a in enumerate(c.args):
                    a0 = a.strip(casts=True)
                    if a0.k == "UnaryOperator" and a0.d["op"] == "&" and a0.kids[0].strip().k == "DeclRefExpr" and \
                            a0.kids[0].strip().d["did"] == did and (c.callee, i) in allocs:
                        acq.append(c)
                if c.callee in ("malloc", "calloc", "_mm_malloc", "fopen"):
                    p, ch = c.up(casts=True)
                    if p is not None and p.k == "BinaryOperator" and p.d["op"] == "=" and p.kids[0].strip().k == "DeclRefExpr" and \
                            p.kids[0].strip().d["did"] == did:
                        acq.append(c)
            # RUNP(p = constructor(...)) of repo functions returning a fresh object
            for a in F.body.find("BinaryOperator"):
                if a.d["op"] == "=" and a.kids[0].strip().k == "DeclRefExpr" and a.kids[0].strip().d["did"] == did:
                    r = a.kids[1].strip(casts=True)
                    if r.k == "CallExpr" and r.callee in prog.functions and r.callee not in ("malloc",) and \
                            any(x in r.callee.lower() for x in ("alloc", "create", "pick_anchor", "d_estimation", "init_")):
                        acq.append(r)
            # `T* p = constructor();` in a declaration (DECLARE_TIMER hides esl_stopwatch_Create() this way)
            for d_ in F.body.find("DeclStmt"):
                for kid in d_.kids:
                    if kid.role == "declinit" and kid.decl.get("did") == did:
                        r = kid.strip(casts=True)
                        if r.k == "CallExpr" and r.callee and (r.callee in ("malloc", "calloc", "fopen") or (
                                r.callee in prog.functions and any(x in r.callee.lower() for x in ("alloc", "create", "init_")))):
                            acq.append(r)
            if not acq:
                continue
            # barriers: releases, hand-overs, NULL tests guarding a release, reassignment
            barriers = []
            for c in F.body.find("CallExpr"):
                uses = [a for a in c.args if any(r.d["did"] == did for r in a.find("DeclRefExpr"))]
                if not uses:
                    continue
                if c in acq:
                    continue
                cal = c.callee or ""
                if "free" in cal.lower() or cal in ("fclose", "gfree"):
                    barriers.append(c)
                elif any((cal, i_) in RELEASERS_BY_ADDRESS for i_, a_ in enumerate(c.args) if a_ in uses and a_.strip(casts=True).k == "UnaryOperator"
                         and a_.strip(casts=True).d["op"] == "&"):
                    barriers.append(c)               # release_x(&p): frees and clears
                elif cal in prog.functions:
                    # handed to a function that takes ownership? (stores it / frees it)
                    for i, a in enumerate(c.args):
                        if a in uses:
                            S = E.of_param(cal, i)
                            if S.frees and () in S.frees:
                                barriers.append(c)
            for a in F.body.find("BinaryOperator"):
                if a.d["op"] != "=":
                    continue
                r = a.kids[1].strip(casts=True)
                l = a.kids[0].strip()
                if r.k == "DeclRefExpr" and r.d["did"] == did and l.k != "DeclRefExpr":
                    barriers.append(a)           # published through an out-parameter / stored in a field
                if r.k == "DeclRefExpr" and r.d["did"] == did and l.k == "DeclRefExpr" and l.d.get("dk") == "Var":
                    barriers.append(a)           # moved into another local (followed no further: counts as hand-over)
            for r in F.body.find("ReturnStmt"):
                if r.kids and any(x.d["did"] == did for x in r.kids[0].find("DeclRefExpr")):
                    barriers.append(r)
            for ifs in F.body.find("IfStmt"):
                cnd = ifs.child("cond")
                if any(r.d["did"] == did for r in cnd.find("DeclRefExpr")):
                    # a release guarded by a test of the variable itself (if(p) free(p); if(p != *out) free(p)):
                    # the test decides whether the function still owns something
                    th = ifs.child("then")
                    if th is not None and any((("free" in (x.callee or "").lower() or x.callee == "fclose") and
                                               any(r.d["did"] == did for a_ in x.args for r in a_.find("DeclRefExpr")))
                                              for x in th.calls()):
                        barriers.append(cnd)
            # NULL tests of the variable: the branch in which it is NULL holds nothing
            for ifs in F.body.find("IfStmt"):
                c0 = ifs.child("cond").strip(casts=True)
                null_branch = None
                if c0.k == "DeclRefExpr" and c0.d["did"] == did:
                    null_branch = ifs.child("else")
                elif c0.k == "UnaryOperator" and c0.d["op"] == "!" and c0.kids[0].strip(casts=True).k == "DeclRefExpr" and \
                        c0.kids[0].strip(casts=True).d["did"] == did:
                    null_branch = ifs.child("then")
                elif c0.k == "BinaryOperator" and c0.d["op"] in ("==", "!=") and any(
                        k.strip(casts=True).k == "DeclRefExpr" and k.strip(casts=True).d["did"] == did for k in c0.kids) and \
                        any("NULL" in k.mac or k.strip(casts=True).cv == 0 for k in c0.kids):
                    null_branch = ifs.child("then") if c0.d["op"] == "==" else ifs.child("else")
                if null_branch is not None:
                    barriers += [x for x in null_branch.walk() if x.k in ("GotoStmt", "ReturnStmt")]
            # a release under the same condition as the acquisition (f = fopen() iff outfile; fclose(f) iff outfile)
            def norm_guards(node):
                out = set()
                for c, pol in guards(node):
                    if c.parent is None or c.parent.k != "IfStmt" or "RUN" in c.mac or "RUNP" in c.mac:
                        continue
                    t = c.strip(casts=True)
                    while t.k == "UnaryOperator" and t.d["op"] == "!":
                        pol = not pol
                        t = t.kids[0].strip(casts=True)
                    out.add((t.text(), pol))
                return out
            acq_guards = None
            for a_ in acq:
                g_ = norm_guards(a_)
                acq_guards = g_ if acq_guards is None else acq_guards & g_
            for b_ in list(barriers):
                if b_.k == "CallExpr":
                    for c, pol in guards(b_):
                        if c.parent is not None and c.parent.k == "IfStmt":
                            t = c.strip(casts=True)
                            pl = pol
                            while t.k == "UnaryOperator" and t.d["op"] == "!":
                                pl = not pl
                                t = t.kids[0].strip(casts=True)
                            if acq_guards and (t.text(), pl) in acq_guards:
                                barriers.append(c)
            # failure edges that only an allocation failure / argument precondition can take are outside the fault model
            st = c05.status_functions(prog)
            for g in F.body.find("GotoStmt"):
                if g.d["label"] != "ERROR":
                    continue
                macs = set(g.mac)
                cause = set()
                if macs & c05.ALLOC_MACROS:
                    cause.add("alloc")
                elif "RUN" in macs or "RUNP" in macs:
                    for anc in g.ancestors():
                        if anc.k == "IfStmt":
                            for cc in anc.child("cond").calls():
                                cause |= st.get(cc.callee, set() if cc.callee in prog.functions else {"input"})
                                if cc.callee == "fopen":
                                    cause.add("input")
                            break
                elif "ASSERT" in macs:
                    cause.add("pre")
                else:
                    cause.add("input")
                if "input" not in cause:
                    barriers.append(g)
            bpos = [x for x in (cfg.position(b) for b in barriers) if x is not None]
            owns_on_failure = all_exits and (functions is not None or fname in FAILURE_OWNERS)
            exits = F.returns() if owns_on_failure else F.success_returns()
            if not owns_on_failure:
                bpos = bpos + F.error_jumps()          # success paths only: a path that takes a failure jump is not one
            for a in acq:
                n += 1
                apos = cfg.position(a)
                if (fname, dd["name"]) in CONDITIONAL_ACQ and a.callee == CONDITIONAL_ACQ[(fname, dd["name"])][0]:
                    # verify: in every caller, the same allocator dominates the call
                    okc = True
                    ncall = 0
                    for G, call in prog.callers_of(fname):
                        if "/tests/" in G.file:
                            continue
                        ncall += 1
                        pre = [G.cfg.position(x) for x in G.body.calls(a.callee)]
                        if not pre or G.cfg.reaches(None, G.cfg.position(call), avoid=pre):
                            okc = False
                    ck.inst(rule, site(prog, a, dd["name"]), "%s: %s acquired %s (verified in %d caller(s): %s)" % (
                        fname, dd["name"], CONDITIONAL_ACQ[(fname, dd["name"])][1], ncall, okc), prog.config)
                    if okc and ncall:
                        continue
                # the failure edge of the acquiring RUN/MMALLOC itself does not hold the object
                own_fail = []
                for anc in a.ancestors():
                    if anc.k == "IfStmt" and a.within(anc.child("cond")):
                        own_fail += [cfg.position(g) for g in anc.child("then").find("GotoStmt")]
                        break
                avoid = bpos + [x for x in own_fail if x is not None]
                where = site(prog, a, "%s<-%s" % (dd["name"], a.callee))
                leak = None
                for r in exits:
                    rp = cfg.position(r)
                    if apos is not None and rp is not None and cfg.reaches(apos, rp, avoid=avoid):
                        leak = r
                        break
                ck.inst(rule, where, "%s: %s acquired by %s; %d release/hand-over point(s); %s" % (
                    fname, dd["name"], a.callee, len(bpos), "every exit covered" if leak is None else "exit at line %d NOT covered" % leak.line), prog.config)
                if leak is not None:
                    kind = "success" if leak in F.success_returns() else "failure"
                    ck.violation(rule, "%s/%s/%s" % (rule, fname, dd["name"]), where,
                                 "%s acquires %s with %s and can reach the %s exit at %s without releasing it or handing it over: "
                                 "the object stays allocated after the call" % (fname, dd["name"], a.callee, kind, site(prog, leak)),
                                 prog.config, path=[where, site(prog, leak)])
    return n


def r16f(ck, prog):
    """count and allocation stay paired: whoever assigns msa.num_profiles a non-zero value (re)allocates the per-profile
    arrays sip / nsip / plen in the same function - kalign_free_msa releases exactly num_profiles entries"""
    n = 0
    for F in prog.lib_functions():
        for a in F.body.find("BinaryOperator"):
            if a.d["op"] != "=":
                continue
            l = a.kids[0].strip()
            if not (l.k == "MemberExpr" and l.d.get("field") == "num_profiles" and l.d.get("rec") == "msa"):
                continue
            n += 1
            v = const_value(a.kids[1])
            where = site(prog, a, "num_profiles")
            allocs = {m.d["field"] for m in F.body.find("MemberExpr") if m.d.get("rec") == "msa" and m.d["field"] in ("sip", "nsip", "plen")
                      and access_mode(m) == "write" and any(x.k == "CallExpr" and x.callee in ("malloc", "realloc") for x in m.up()[0].walk())}
            ck.inst("R16f", where, "%s sets num_profiles = %s; allocates %s here" % (F.name, a.kids[1].text(), sorted(allocs)), prog.config)
            if v == 0:
                continue
            if allocs != {"sip", "nsip", "plen"}:
                ck.violation("R16f", "R16f/%s/num_profiles" % F.name, where,
                             "%s changes msa->num_profiles without re-allocating sip/nsip/plen: the count no longer matches the arrays "
                             "(kalign_free_msa then leaves entries allocated, or walks past them)" % F.name, prog.config)
    ck.floor("R16f", n, 2, "writers of num_profiles")


def r16g(ck, prog, functions=None):
    """an owning local is not overwritten while it still holds its object: for a local pointer that the function releases
    (free / MFREE / free_*), an assignment of a new object at a point where the pointer is known to be live (the assignment
    is guarded by a test that dereferences it or found it non-NULL) is preceded, in the same block, by a statement that
    saves or consumes the old value (tmp = p; x->f = p; free(p); f(p))"""
    def refs(n, did):
        return any(r.d.get("did") == did for r in n.find("DeclRefExpr"))
    n = 0
    for F in (functions if functions is not None else prog.lib_functions()):
        if F.body is None:
            continue
        released = {}
        for c in F.body.find("CallExpr"):
            if "free" in (c.callee or "").lower():
                for a in c.args:
                    a0 = a.strip(casts=True)
                    if a0.k == "DeclRefExpr" and a0.d.get("dk") == "Var" and not a0.d.get("g") and a0.ty.endswith("*"):
                        released[a0.d["did"]] = a0.d["name"]
        for did, name in released.items():
            for A in F.body.find("BinaryOperator"):
                if A.d["op"] != "=":
                    continue
                l = A.kids[0].strip()
                if not (l.k == "DeclRefExpr" and l.d["did"] == did):
                    continue
                r = A.kids[1].strip(casts=True)
                if r.cv == 0 or "NULL" in "".join(r.mac) or refs(A.kids[1], did):
                    continue
                live = False
                for cond, pol in guards(A):
                    c0 = cond.strip(casts=True)
                    if any(m.d.get("arrow") and refs(m.kids[0], did) for m in cond.find("MemberExpr")):
                        live = True
                    if c0.k == "DeclRefExpr" and c0.d.get("did") == did and pol:
                        live = True
                    if c0.k == "UnaryOperator" and c0.d["op"] == "!" and c0.kids[0].strip(casts=True).k == "DeclRefExpr" \
                            and c0.kids[0].strip(casts=True).d.get("did") == did and not pol:
                        live = True
                if not live:
                    continue
                n += 1
                blk = A.parent
                while blk is not None and blk.k != "CompoundStmt":
                    blk = blk.parent
                saved = False
                for st in (blk.kids if blk is not None else []):
                    if st is A or A.within(st):
                        break
                    for x in st.walk():
                        if x.k == "BinaryOperator" and x.d["op"] == "=" and refs(x.kids[1], did) and not refs(x.kids[0], did):
                            saved = True
                        if x.k == "CallExpr" and any(refs(a, did) for a in x.args):
                            saved = True
                where = site(prog, A, name)
                ck.inst("R16g", where, "%s: %s = %s while %s is live; old value %s" % (F.name, name, r.text()[:30], name,
                                                                                      "saved / consumed first" if saved else "NOT saved"), prog.config)
                if not saved:
                    ck.violation("R16g", "R16g/%s/%s" % (F.name, name), where,
                                 "%s overwrites %s with %s at a point where %s still holds an object it owns (the function releases %s "
                                 "later) without saving or releasing the old one: it stays allocated after the call" % (
                                     F.name, name, r.text()[:30], name, name), prog.config)
    return n


def r16h(ck, prog, functions=None):
    """errno is process-wide state that earlier calls leave behind: it is read only on the failure branch of the call that
    sets it, i.e. under a test of a call result (if (stat(..) != 0) { ... errno ... }), never after a call that succeeded"""
    n = 0
    for F in (functions if functions is not None else prog.all_functions):
        if F.body is None or (functions is None and "/tests/" in F.file):
            continue
        for c in F.body.calls("__errno_location"):
            n += 1
            where = site(prog, c, "errno")
            ok = False
            for cond, pol in guards(c):
                if c.within(cond):
                    continue
                if any(x.k == "CallExpr" and x.callee not in ("__errno_location",) for x in cond.walk()):
                    ok = True
                for r in cond.find("DeclRefExpr"):
                    if r.d.get("dk") == "Var" and any(d_ is not None and any(x.k == "CallExpr" for x in d_.walk()) for d_, _ in local_defs(F, r.d["did"])):
                        ok = True
            ck.inst("R16h", where, "%s reads errno %s" % (F.name, "on the failure branch of a call" if ok else "without a test of a call result"), prog.config)
            if not ok:
                ck.violation("R16h", "R16h/%s/errno" % F.name, where,
                             "%s reads errno without first testing the result of the call that may have set it: a successful call leaves "
                             "errno as an earlier, unrelated failure set it, so the outcome depends on what the process did before" % F.name, prog.config)
    return n


def run(ck, progs):
    describe(ck)
    ck.rule("R16j", "no local pointer is released twice on a path without being assigned in between")
    ck.rule("R16i", "writing an msa does not change it (= R06i): a second kalign_write_msa on the same object gives what a first one would")
    ck.rule("R16h", "errno is read only under a test of the result of the call that sets it")
    ck.rule("R16g", "an owning local pointer is not overwritten while it is known to hold a live object unless the old value was saved or released just before")
    ck.rule("R16f", "msa.num_profiles is changed only together with a re-allocation of the sip / nsip / plen arrays it counts")
    for cfg, prog in progs.items():
        n = ck.attempt(r16a, ck, prog)
        ck.attempt(r16b, ck, prog)
        before = len(ck.instances)
        ck.attempt(c05.r05c, ck, prog)
        for i in ck.instances[before:]:
            i["rule"] = "R16c"
        for v in ck.violations:
            if v["rule"] == "R05c":
                v["rule"] = "R16c"
                v["key"] = v["key"].replace("R05c", "R16c")
        ck.attempt(r16f, ck, prog)
        from . import c09
        ck.borrow(c09.r09i, prog, "R16c", ("R09i",))     # a setter that leaves a penalty unset leaves it to the previous owner of the heap block
        b2 = len(ck.instances)
        ck.attempt(c05.r05s, ck, prog)
        for i in ck.instances[b2:]:
            i["rule"] = "R16c"
        for v in ck.violations:
            if v["rule"] == "R05s":
                v["rule"] = "R16c"
                v["key"] = v["key"].replace("R05s", "R16c")
        n = ck.attempt(r16d, ck, prog)
        ck.floor("R16d", n, 12, "acquisitions in API-owned functions")
        ck.attempt(r16h, ck, prog)
        ck.attempt(r16j, ck, prog)
        from . import c06 as _c06
        ck.borrow(_c06.r06i, prog, "R16i", ("R06i",))
        n = ck.attempt(r16g, ck, prog)
        ck.floor("R16g", n or 0, 1, "overwrites of live owning locals")
        cg = CallGraph(prog)
        ck.attempt(c03.r03d, ck, prog, cg, roots=tuple(sorted(c05.api_functions(prog))), rule="R16e")
    from ..controls import control_program
    from ..report import Check
    cp = control_program(ck.work, "c16.c")
    sub = Check(ck.prop, ck.tier, ck.seed)
    sub.known = {}
    r16a(sub, cp, functions=cp.all_functions)
    r16d(sub, cp, functions=[F.name for F in cp.all_functions], all_exits=True)
    r16g(sub, cp, functions=cp.all_functions)
    r16h(sub, cp, functions=cp.all_functions)
    keys = {v["key"] for v in sub.violations}
    ck.control("R16g", "bad_r16g_best_overwritten", "R16g/bad_r16g_best_overwritten/best" in keys, True)
    ck.control("R16g", "ok_r16g_best_swapped", any("ok_r16g" in k for k in keys), False)
    ck.control("R16h", "bad_r16h_stale_errno", "R16h/bad_r16h_stale_errno/errno" in keys, True)
    ck.control("R16h", "ok_r16h_failure_branch", any("ok_r16h" in k for k in keys), False)
    for want in ("R16a/ctl_counter/calls", "R16a/ctl_cache/static-last", "R16d/bad_r16d_leak_on_error/buf"):
        ck.control(want.split("/")[0], want, want in keys, True)
    for quiet in ("ok_r16d_released", "ctl_const_table"):
        ck.control("R16d" if "r16d" in quiet else "R16a", quiet, any(quiet in k for k in keys), False)
    return ("Enumeration of every file-scope variable and function-local static with all their write sites; dominance of "
            "omp_set_num_threads over everything that opens a parallel region in kalign_run; constructor completeness; "
            "typestate (acquire -> release | hand-over) over the CFG of every API-owned function on all exits; "
            "call-graph reachability of clocks, random sources and pointer-as-data from every API function.")
