"""C17 — the alignment-comparison score is exact (two structural clauses).

Decided: rows are matched before pairing - both alignments are sorted by the same (name, checksum)
order and compare_pair receives reference rows i,j with test rows i,j (R17a); the score is
100 * (relations of the reference reproduced) / (relations of the reference) - numerator from the
counters incremented in the comparison loops, denominator from the counters incremented while
scanning the FIRST pair of rows, which the caller fills with the reference (R17b).
Not decided: that the counters count the stated relations; the 0..100 range.
"""
from ..build import AnalysisBroken
from ..affine import loop_range
from ..util import site, reaching_sources, const_value, local_defs, guards


def describe(ck):
    ck.rule("R17a", "kalign_msa_compare sorts both alignments with the same function before pairing; compare_pair gets rows i,j of the reference with rows i,j of the test and each alignment's own length; all pairs i<j are visited; the sort comparator reads name and checksum only")
    ck.rule("R17b", "the score is 100 * a / b with a = the counters incremented in compare_pair's comparison loops and b = the counters incremented while scanning the first (reference) pair of rows; test-side counters do not enter")
    ck.not_decided += ["that compare_pair's counters count exactly the stated relations (index arithmetic)", "the 0..100 range"]


def r17a(ck, prog):
    K = prog.fn("kalign_msa_compare")
    pr, pt = K.params[0], K.params[1]
    cfg = K.cfg
    calls = list(K.body.calls("compare_pair"))
    if len(calls) != 1:
        raise AnalysisBroken("R17a slot: kalign_msa_compare calls compare_pair %d time(s)" % len(calls))
    cp = calls[0]
    sorts = {}
    via = {}
    for c in K.body.calls():
        if not (c.callee and c.args):
            continue
        a = c.args[0].strip(casts=True)
        if not (a.k == "DeclRefExpr" and a.d["did"] in (pr["did"], pt["did"])):
            continue
        if "sort" in c.callee:
            sorts.setdefault(a.d["did"], []).append(c)
            via[id(c)] = c.callee
            continue
        # a private helper that prepares one alignment: it must sort the msa it is given on every path to its success return
        H = prog.functions.get(c.callee)
        if H is not None and H.body is not None and H.static and H.file == K.file and H.params:
            inner = [x for x in H.body.calls() if x.callee and "sort" in x.callee and x.args and x.args[0].strip(casts=True).k == "DeclRefExpr"
                     and x.args[0].strip(casts=True).d.get("did") == H.params[0]["did"]]
            pos = [H.cfg.position(x) for x in inner]
            if inner and not H.succeeds_avoiding([p_ for p_ in pos if p_ is not None]):
                sorts.setdefault(a.d["did"], []).append(c)
                via[id(c)] = inner[0].callee
    for p in (pr, pt):
        where = site(prog, K, "sort %s" % p["name"])
        cs = sorts.get(p["did"], [])
        ck.inst("R17a", where, "alignment %s is sorted by %s before pairing" % (p["name"], [via[id(c)] + ("" if via[id(c)] == c.callee else " (in %s)" % c.callee) for c in cs]), prog.config)
        if not cs or cfg.reaches(None, cfg.position(cp), avoid=[cfg.position(c) for c in cs]):
            ck.violation("R17a", "R17a/kalign_msa_compare/sort-%s" % ("reference" if p is pr else "test"), where,
                         "rows of %s are paired by position without having been sorted: the score depends on the row order of that file" % p["name"],
                         prog.config)
    fns = {via[id(c)] for cs in sorts.values() for c in cs}
    if len(fns) > 1:
        ck.violation("R17a", "R17a/kalign_msa_compare/sort-functions", site(prog, K), "the two alignments are sorted by different functions %s" % sorted(fns), prog.config)
    # argument pairing
    def parts(a):
        base = [r.d["did"] for r in a.find("DeclRefExpr") if r.d["did"] in (pr["did"], pt["did"])]
        idx = [s.kids[1].strip(casts=True).text() for s in a.find("ArraySubscriptExpr")]
        return (base[0] if base else None), (idx[0] if idx else None)
    A = [parts(a) for a in cp.args[:6]]
    where = site(prog, cp, "compare_pair")
    ck.inst("R17a", where, "compare_pair(%s)" % ", ".join(a.text() for a in cp.args[:6]), prog.config)
    ok = (A[0][0] == A[1][0] == A[4][0] and A[2][0] == A[3][0] == A[5][0] and A[0][0] != A[2][0] and
          A[0][1] == A[2][1] and A[1][1] == A[3][1] and A[0][1] != A[1][1] and A[0][1] is not None and A[1][1] is not None)
    if not ok:
        ck.violation("R17a", "R17a/kalign_msa_compare/pairing", where,
                     "compare_pair does not receive rows (i, j) of one alignment with rows (i, j) of the other and each alignment's own length: %s" % (
                         [a.text() for a in cp.args[:6]]), prog.config)
    if A[0][0] != pr["did"]:
        ck.violation("R17a", "R17a/kalign_msa_compare/reference-first", where,
                     "the first pair of rows comes from %s, not from the reference parameter %s" % (cp.args[0].text(), pr["name"]), prog.config)
    for k, want in ((4, "alnlen"), (5, "alnlen")):
        if not any(m.d.get("field") == want for m in cp.args[k].find("MemberExpr")):
            ck.violation("R17a", "R17a/kalign_msa_compare/length-%d" % k, where, "row length argument %s is not the alignment length" % cp.args[k].text(), prog.config)
    loops = [x for x in cp.ancestors() if x.k == "ForStmt"]
    if len(loops) < 2:
        raise AnalysisBroken("R17a: compare_pair is not called in a double loop")
    inner, outer = loop_range(loops[0]), loop_range(loops[1])
    ck.inst("R17a", site(prog, loops[1], "pairs"), "pairs: outer %s, inner %s" % (outer, inner), prog.config)
    good = outer is not None and inner is not None and outer[1].is_const() and outer[1].c == 0 and \
        list(outer[2].t.values()) == [1] and list(outer[2].t)[0].endswith("->numseq") and outer[2].c == 0 and \
        inner[1].t == {outer[0]: 1} and inner[1].c == 1 and inner[2].t == outer[2].t and inner[2].c == 0
    if not good:
        ck.violation("R17a", "R17a/kalign_msa_compare/all-pairs", site(prog, loops[1]),
                     "the loops do not visit exactly the pairs 0 <= i < j < numseq (outer %s, inner %s)" % (outer, inner), prog.config)
    # the comparator of the sort
    for fn in fns:
        S = prog.fn(fn)
        for q in S.body.calls("qsort"):
            for a in q.args:
                a0 = a.strip(casts=True)
                if a0.k == "DeclRefExpr" and a0.d.get("dk") == "Fn":
                    C = prog.fn(a0.d["name"])
                    fields = {m.d["field"] for m in C.body.find("MemberExpr")}
                    ck.inst("R17a", site(prog, C, "comparator"), "%s orders rows by %s" % (C.name, sorted(fields)), prog.config)
                    if not fields <= {"name", "chksum"} or "name" not in fields:
                        ck.violation("R17a", "R17a/%s/fields" % C.name, site(prog, C),
                                     "the row-matching order reads %s (name and checksum expected)" % sorted(fields), prog.config)


def r17d(ck, prog):
    """one notion of 'same name': the order that matches rows and the uniqueness check that kalign_msa_compare relies
    on compare names with the same function over the same span"""
    used = {}
    for fname in ("kalign_check_msa", "kalign_sort_msa"):
        F = prog.fn(fname)
        fns = [F]
        for q in F.body.calls("qsort"):
            for a in q.args:
                a0 = a.strip(casts=True)
                if a0.k == "DeclRefExpr" and a0.d.get("dk") == "Fn":
                    fns.append(prog.fn(a0.d["name"]))
        for G in fns:
            for c in G.body.calls("strncmp", "strcmp", "strncasecmp", "strcasecmp", "memcmp"):
                if any(m.d.get("field") == "name" for a in c.args for m in a.find("MemberExpr")):
                    span = c.args[2].cv if len(c.args) > 2 else None
                    used.setdefault((c.callee, span), []).append((G.name, c))
    ck.inst("R17d", site(prog, prog.fn("kalign_check_msa"), "name comparisons"), "name comparisons used for uniqueness and row matching: %s" % (
        {"%s/%s" % k: sorted({g for g, _ in v}) for k, v in used.items()}), prog.config)
    if len(used) > 1:
        kinds = sorted(used, key=lambda k: -len(used[k]))
        g, c = used[kinds[-1]][0]
        ck.violation("R17d", "R17d/%s/name-compare" % g, site(prog, c),
                     "%s compares names with %s over %s bytes while the other sites use %s over %s: two names can be 'different' for "
                     "the uniqueness check and 'equal' for the row matching (or vice versa), and tied rows are paired by checksum "
                     "order" % (g, kinds[-1][0], kinds[-1][1], kinds[0][0], kinds[0][1]), prog.config)
    if not used:
        raise AnalysisBroken("R17d slot: no name comparison found in kalign_check_msa / kalign_sort_msa")


def counter_classes(prog):
    """cmp_stats field -> 'first' | 'second' | 'match' according to which row parameters the loop that increments it reads"""
    P = prog.fn("compare_pair")
    pidx = {p["did"]: i for i, p in enumerate(P.params)}
    out = {}
    for u in P.body.find("UnaryOperator"):
        if u.d["op"] != "++":
            continue
        t = u.kids[0].strip()
        if not (t.k == "MemberExpr" and t.d.get("rec") == "cmp_stats"):
            continue
        loops = [x for x in u.ancestors() if x.k == "ForStmt"]
        if not loops:
            raise AnalysisBroken("R17b: counter %s incremented outside a loop" % t.text())
        used = {pidx[r.d["did"]] for r in loops[-1].find("DeclRefExpr") if r.d["did"] in pidx and pidx[r.d["did"]] < 4}
        cls = "first" if used and used <= {0, 1} else "second" if used and used <= {2, 3} else "match" if not used else "mixed"
        out.setdefault(t.d["field"], set()).add(cls)
        site_ = site(prog, u, t.d["field"])
    # counters updated inside helpers: &stat->f handed to a helper together with row parameters, or stat itself
    from ..effects import Effects
    E = Effects(prog)
    for c in P.body.calls():
        if not c.callee or c.callee not in prog.functions:
            continue
        used = set()
        for a in c.args:
            for r in a.find("DeclRefExpr"):
                if r.d["did"] in pidx and pidx[r.d["did"]] < 4:
                    used.add(pidx[r.d["did"]])
        cls = "first" if used and used <= {0, 1} else "second" if used and used <= {2, 3} else "match" if not used else "mixed"
        for i, a in enumerate(c.args):
            a0 = a.strip(casts=True)
            if a0.k == "UnaryOperator" and a0.d["op"] == "&" and a0.kids[0].strip().k == "MemberExpr" and \
                    a0.kids[0].strip().d.get("rec") == "cmp_stats":
                S = E.of_param(c.callee, i)
                if () in S.pwrites:
                    out.setdefault(a0.kids[0].strip().d["field"], set()).add(cls)
            elif a0.k == "DeclRefExpr" and a0.ty.replace(" ", "") == "structcmp_stats*":
                S = E.of_param(c.callee, i)
                for p_ in S.writes:
                    if len(p_) == 1:
                        out.setdefault(p_[0], set()).add(cls)
    if not out:
        raise AnalysisBroken("R17b: no update of a cmp_stats counter found in compare_pair or the helpers it calls")
    return out


def _score_sites(prog):
    """[(function, expression, store node)]: where the value stored through kalign_msa_compare's score pointer is computed -
    the right-hand side of the store, or, when that is a call of a private helper, the helper's returned expression"""
    K = prog.fn("kalign_msa_compare")
    sp = [p for p in K.params if p["ty"].replace(" ", "") in ("float*", "double*")]
    if len(sp) != 1:
        raise AnalysisBroken("R17b slot: score out-parameter not found")
    stores = [a for a in K.body.find("BinaryOperator") if a.d["op"] == "=" and a.kids[0].strip().k == "UnaryOperator" and
              a.kids[0].strip().d["op"] == "*" and a.kids[0].strip().kids[0].strip(casts=True).k == "DeclRefExpr" and
              a.kids[0].strip().kids[0].strip(casts=True).d["did"] == sp[0]["did"]]
    out = []
    for st in stores:
        r = st.kids[1].strip(casts=True)
        H = prog.fn(prog.resolve(r.callee, K.file), required=False) if r.k == "CallExpr" and r.callee else None
        if H is not None and H.body is not None and H.static and H.file == K.file:
            rets = [x for x in H.body.find("ReturnStmt") if x.kids]
            if len(rets) != 1:
                raise AnalysisBroken("R17b: the score is computed by %s, which has %d value returns; not decided" % (H.name, len(rets)))
            out.append((H, rets[0].kids[0], st))
        else:
            out.append((K, st.kids[1], st))
    return out


def r17b(ck, prog):
    K = prog.fn("kalign_msa_compare")
    cls = counter_classes(prog)
    ck.inst("R17b", site(prog, prog.fn("compare_pair"), "counters"), "counter classes by the rows their loop scans: %s" % {k: sorted(v) for k, v in sorted(cls.items())}, prog.config)
    for f, c in cls.items():
        if len(c) != 1 or "mixed" in c:
            ck.violation("R17b", "R17b/compare_pair/%s" % f, site(prog, prog.fn("compare_pair")),
                         "counter %s is incremented in loops over different rows (%s)" % (f, sorted(c)), prog.config)
    first = {f for f, c in cls.items() if c == {"first"}}
    second = {f for f, c in cls.items() if c == {"second"}}
    match = {f for f, c in cls.items() if c == {"match"}}
    if len(first) != len(second) or not first or not match:
        ck.violation("R17b", "R17b/compare_pair/twins", site(prog, prog.fn("compare_pair")),
                     "reference-side counters %s and test-side counters %s are not twins" % (sorted(first), sorted(second)), prog.config)
    # the store through the score parameter
    sites_ = _score_sites(prog)
    if len(sites_) != 1:
        raise AnalysisBroken("R17b slot: %d stores through the score parameter" % len(sites_))
    SF, sexpr, st = sites_[0]
    rhs = sexpr.strip(casts=True)
    where = site(prog, st, "*score")
    # shape: K * a / b
    num = den = None
    factor = None
    if rhs.k == "BinaryOperator" and rhs.d["op"] == "/":
        den = rhs.kids[1]
        l = rhs.kids[0].strip(casts=True)
        if l.k == "BinaryOperator" and l.d["op"] == "*":
            for x, y in ((l.kids[0], l.kids[1]), (l.kids[1], l.kids[0])):
                v = const_value(x)
                if v is None and x.strip(casts=True).k == "FloatingLiteral":
                    v = x.strip(casts=True).d["v"]
                if v is not None:
                    factor, num = v, y
    if num is None or den is None:
        ck.violation("R17b", "R17b/kalign_msa_compare/shape", where, "the score is %s, not constant * numerator / denominator" % rhs.text(), prog.config)
        return
    nsrc, dsrc = reaching_sources(SF, num), reaching_sources(SF, den)
    import re
    allf = set(cls)
    nf = set(re.findall(r"(?:->|\.)\s*(\w+)", " ".join(nsrc))) & allf
    df = set(re.findall(r"(?:->|\.)\s*(\w+)", " ".join(dsrc))) & allf
    ck.inst("R17b", where, "score = %s * (%s) / (%s)" % (factor, sorted(nf), sorted(df)), prog.config)
    if factor != 100:
        ck.violation("R17b", "R17b/kalign_msa_compare/factor", where, "the score is scaled by %s, not 100" % factor, prog.config)
    if len(nsrc) != 1 or len(dsrc) != 1 or any(s.startswith("<") for s in nsrc | dsrc):
        ck.violation("R17b", "R17b/kalign_msa_compare/definitions", where,
                     "numerator / denominator have several or undefined reaching definitions: %s / %s" % (sorted(nsrc), sorted(dsrc)), prog.config)
    if nf != match:
        ck.violation("R17b", "R17b/kalign_msa_compare/numerator", where,
                     "the numerator sums %s; the relations reproduced by the test alignment are counted in %s" % (sorted(nf), sorted(match)), prog.config)
    if df != first:
        ck.violation("R17b", "R17b/kalign_msa_compare/denominator", where,
                     "the denominator sums %s; the relations of the reference alignment are counted in %s (test-side counters: %s)" % (
                         sorted(df), sorted(first), sorted(second)), prog.config)
    for s_ in nsrc | dsrc:
        if "/" in s_ or "*" in s_.replace("(double)", "") or "-" in s_.replace("->", ""):
            ck.violation("R17b", "R17b/kalign_msa_compare/arith", where, "numerator/denominator are not plain sums of counters: %s" % s_, prog.config)
    # counters start at zero
    zero = {a.kids[0].strip().d["field"] for a in K.body.find("BinaryOperator") if a.d["op"] == "=" and
            a.kids[0].strip().k == "MemberExpr" and a.kids[0].strip().d.get("rec") == "cmp_stats" and const_value(a.kids[1]) == 0}
    for dn in K.body.find("DeclStmt"):
        for kid in dn.kids:
            if kid.role == "declinit" and "cmp_stats" in (kid.decl.get("ty") or "") and "*" not in (kid.decl.get("ty") or ""):
                il = kid.strip(casts=True)
                if il.k == "InitListExpr" and all((x.cv == 0) or x.k == "ImplicitValueInitExpr" for x in il.kids):
                    zero |= first | second | match          # struct cmp_stats s = {0}: every member starts at zero
    for c in K.body.calls("memset", "calloc"):
        if "cmp_stats" in c.text() and ((c.callee == "memset" and const_value(c.args[1]) == 0) or c.callee == "calloc"):
            zero |= first | second | match
    if not (first | second | match) <= zero:
        # zeroing delegated to a helper that receives the stats object
        for c in K.body.calls():
            H = prog.functions.get(c.callee) if c.callee else None
            if H is not None and any(a.strip(casts=True).ty.replace(" ", "") == "structcmp_stats*" for a in c.args):
                zero |= {a.kids[0].strip().d["field"] for a in H.body.find("BinaryOperator") if a.d["op"] == "=" and
                         a.kids[0].strip().k == "MemberExpr" and a.kids[0].strip().d.get("rec") == "cmp_stats" and const_value(a.kids[1]) == 0}
    if not (first | second | match) <= zero:
        ck.violation("R17b", "R17b/kalign_msa_compare/zero", site(prog, K),
                     "counters %s are not zeroed before counting" % sorted((first | second | match) - zero), prog.config)


def r17c(ck, prog):
    """the premise 'a file with at least one gap is recognised as an alignment' and the counting itself:
    detect_aligned totals the gaps of every sequence (shared with R04b), and the pair loop that feeds the shared
    counters is not distributed over threads (no OpenMP directive encloses the compare_pair call; shared with R02c)."""
    from . import c04
    from ..report import Check
    sub = Check(ck.prop, ck.tier, ck.seed)
    sub.known = {}
    c04.r04b(sub, prog)
    for i in sub.instances:
        if "gap total" in i["site"] or "UNALIGNED" in i["site"]:
            ck.inst("R17c", i["site"], i["what"], i["config"])
    for v in sub.violations:
        if "coverage" in v["key"] or "gap-span" in v["key"] or "detect_aligned" in v["key"]:
            ck.violation("R17c", v["key"].replace("R04b", "R17c"), v["site"],
                         v["msg"] + " (kalign_msa_compare then never finalises such a file and every counter stays zero)", v["config"])
    K = prog.fn("kalign_msa_compare")
    for c in K.body.calls("compare_pair"):
        omp = [a for a in c.ancestors() if "omp" in a.d]
        ck.inst("R17c", site(prog, c, "sequential"), "the compare_pair loop is %s" % ("under omp " + omp[0].d["omp"] if omp else "sequential"), prog.config)
        if omp:
            ck.violation("R17c", "R17c/kalign_msa_compare/omp-%s" % omp[0].d["omp"].split()[0], site(prog, omp[0]),
                         "the pair loop runs under `omp %s` while compare_pair increments the counters of one shared cmp_stats: "
                         "increments are lost, the score varies from run to run" % omp[0].d["omp"], prog.config)
    P = prog.fn("compare_pair")
    for x in list(P.body.walk()) + list(K.body.walk()):
        if "omp" in x.d and not any(a is x for c in K.body.calls("compare_pair") for a in c.ancestors()):
            ck.violation("R17c", "R17c/%s/omp" % x.fn.name, site(prog, x), "OpenMP directive `omp %s` in the comparison code" % x.d["omp"], prog.config)


def _row_loops(G):
    """[(loop, row parameter dids subscripted by the loop variable, int parameter dids in the bound)] of function G"""
    from ..affine import loop_range
    pr = {p_["did"]: p_ for p_ in G.params}
    out = []
    for lp in G.body.find("ForStmt"):
        rng = loop_range(lp)
        if rng is None:
            continue
        var = rng[0]
        used = set()
        for sub in lp.child("body").find("ArraySubscriptExpr"):
            b_, i_ = sub.kids[0].strip(casts=True), sub.kids[1].strip(casts=True)
            if b_.k == "DeclRefExpr" and b_.d.get("did") in pr and pr[b_.d["did"]]["ty"].replace("const ", "").replace(" ", "") == "char*" \
                    and i_.k == "DeclRefExpr" and i_.d["name"] == var:
                used.add(b_.d["did"])
        if used:
            bound = {r.d["did"] for r in lp.child("cond").find("DeclRefExpr") if r.d.get("did") in pr and pr[r.d["did"]]["ty"].replace("const ", "") == "int"}
            out.append((lp, used, bound))
    return out


def r17e(ck, prog):
    """each loop that walks the rows of one alignment runs to that alignment's own length: the rows and lengths that belong
    together are taken from the call in kalign_msa_compare (arguments rooted at the same msa) and followed through the
    private helpers compare_pair hands them to"""
    K, P = prog.fn("kalign_msa_compare"), prog.fn("compare_pair")
    calls = list(K.body.calls("compare_pair"))
    if len(calls) != 1:
        raise AnalysisBroken("R17e slot: kalign_msa_compare calls compare_pair %d time(s)" % len(calls))
    owner = {}
    for i, a in enumerate(calls[0].args):
        roots = [r.d["name"] for r in a.find("DeclRefExpr") if r.ty.replace("const ", "").startswith("struct msa")]
        if len(set(roots)) == 1 and i < len(P.params):
            owner[P.params[i]["did"]] = roots[0]
    if len(owner) < 6:
        raise AnalysisBroken("R17e slot: row / length arguments of compare_pair not resolved (%d)" % len(owner))
    n = 0

    def check(G, own, via):
        nonlocal n
        names = {p_["did"]: p_["name"] for p_ in G.params}
        for lp, used, bound in _row_loops(G):
            if not bound:
                raise AnalysisBroken("R17e: the loop over %s at line %d of %s is not bounded by a length parameter" % (sorted(names[d] for d in used), lp.line, G.name))
            if any(d not in own for d in used | bound):
                raise AnalysisBroken("R17e: owner of %s in %s%s not resolved" % (sorted(names[d] for d in (used | bound) if d not in own), G.name, via))
            n += 1
            ro, lo = {own[d] for d in used}, {own[d] for d in bound}
            where = site(prog, lp, "loop over %s" % "/".join(sorted(names[d] for d in used)))
            ck.inst("R17e", where, "%s%s walks %s (alignment %s) up to %s (alignment %s)" % (
                G.name, via, sorted(names[d] for d in used), sorted(ro), sorted(names[d] for d in bound), sorted(lo)), prog.config)
            if ro != lo:
                ck.violation("R17e", "R17e/%s/%s" % (G.name, "+".join(sorted(names[d] for d in used))), where,
                             "%s%s walks %s, rows of alignment '%s', up to %s, the length of alignment '%s': when the two alignments "
                             "have different numbers of columns the relations of the longer one are cut off (score too low) or the shorter one "
                             "is read past its end" % (G.name, via, sorted(names[d] for d in used), "/".join(sorted(ro)), sorted(names[d] for d in bound), "/".join(sorted(lo))),
                             prog.config)
    check(P, owner, "")
    for c in P.body.calls():
        H = prog.functions.get(c.callee) if c.callee else None
        if H is None or H.body is None or not H.static or H.file != P.file or not _row_loops(H):
            continue
        own = {}
        for i, a in enumerate(c.args):
            a0 = a.strip(casts=True)
            if a0.k == "DeclRefExpr" and a0.d.get("did") in owner and i < len(H.params):
                own[H.params[i]["did"]] = owner[a0.d["did"]]
        check(H, own, " (called at line %d)" % c.line)
    ck.floor("R17e", n, 2, "row-walking loops of compare_pair")


def r17f(ck, prog):
    """the score is computed in double precision from the integer counters: the value stored through the score pointer and
    every local it is computed from have type double and no float-typed operand (100.0f * a rounds to 24 bits before the
    division: identical alignments then score 100.000008 or 99.9999924)"""
    outs = _score_sites(prog)
    if not outs:
        raise AnalysisBroken("R17f slot: the store through the score pointer was not found in kalign_msa_compare")
    n = 0
    for K, sexpr, a in outs:
        exprs = [sexpr]
        for r in sexpr.find("DeclRefExpr"):
            if r.d.get("dk") == "Var" and not r.d.get("g"):
                exprs += [d for d, _ in local_defs(K, r.d["did"]) if d is not None]
                exprs.append(r)
        narrow = [x for e in exprs for x in e.walk() if x.ty in ("float", "const float") and x.k not in ("ImplicitCastExpr",)]
        n += 1
        where = site(prog, a, "score")
        ck.inst("R17f", where, "*score = %s: %d sub-expression(s), %d of type float" % (sexpr.text()[:40], sum(1 for e in exprs for _ in e.walk()), len(narrow)), prog.config)
        if narrow:
            ck.violation("R17f", "R17f/kalign_msa_compare/float", site(prog, narrow[0], "float"),
                         "the score is computed with single-precision operands (%s): the counters exceed 2^24 on ordinary alignments, "
                         "so identical alignments no longer score exactly 100" % narrow[0].text()[:40], prog.config)


_INT_BITS = {"char": 8, "signed char": 8, "unsigned char": 8, "short": 16, "unsigned short": 16, "int": 32, "unsigned int": 32,
             "int32_t": 32, "uint32_t": 32, "int16_t": 16, "uint16_t": 16, "int8_t": 8, "uint8_t": 8,
             "long": 64, "unsigned long": 64, "long long": 64, "unsigned long long": 64, "int64_t": 64, "uint64_t": 64, "size_t": 64}


def _bits(ty):
    t = (ty or "").replace("const ", "").strip()
    return _INT_BITS.get(t)


def r17h(ck, prog):
    """the counters are as wide as struct cmp_stats declares them all the way to the division: no local variable and no
    conversion of an integer type narrower than the counter fields lies between a counter and *score (the number of relations
    is (rows-1) x residues and passes 2^31 for alignments of a few thousand rows)"""
    K = prog.fn("kalign_msa_compare")
    rec = prog.records.get("cmp_stats")
    if rec is None:
        raise AnalysisBroken("R17h slot: struct cmp_stats not found")
    fb = {f["name"]: _bits(f["ty"]) for f in rec["fields"]}
    if not fb or any(v is None for v in fb.values()):
        raise AnalysisBroken("R17h: the counter fields of struct cmp_stats are not plain integer types (%s)" % fb)
    wmin = min(fb.values())
    outs = _score_sites(prog)
    if not outs:
        raise AnalysisBroken("R17h slot: the store through the score pointer was not found in kalign_msa_compare")

    def has_counter(e):
        return any(m.k == "MemberExpr" and m.d.get("rec") == "cmp_stats" for m in e.walk())
    n = 0
    for K, sexpr, a in outs:
        seen = set()
        work = [sexpr]
        bad = []
        while work:
            e = work.pop()
            for x in e.walk():
                if x.k in ("ImplicitCastExpr", "CStyleCastExpr") and x.d.get("ck") == "IntegralCast" and _bits(x.ty) is not None and \
                        _bits(x.ty) < wmin and x.kids and has_counter(x.kids[0]):
                    bad.append((x, "converted to %s" % x.ty))
                if x.k == "DeclRefExpr" and x.d.get("dk") == "Var" and not x.d.get("g") and x.d["did"] not in seen:
                    seen.add(x.d["did"])
                    defs = [d for d, _ in local_defs(K, x.d["did"]) if d is not None]
                    if any(has_counter(d) for d in defs) and _bits(x.ty) is not None and _bits(x.ty) < wmin:
                        bad.append((x, "held in the %s variable %s" % (x.ty, x.d["name"])))
                    work += defs
        n += 1
        where = site(prog, a, "score")
        ck.inst("R17h", where, "counters are %d bit wide; %d local(s) between them and *score" % (wmin, len(seen)), prog.config)
        for x, what in bad[:2]:
            ck.violation("R17h", "R17h/kalign_msa_compare/narrow", site(prog, x, "narrow"),
                         "a sum of the %d-bit counters is %s on its way to the score: it wraps once (rows-1) x residues passes 2^31, and the "
                         "score leaves the range 0..100" % (wmin, what), prog.config)
    ck.floor("R17h", n, 1, "stores through the score pointer")


def r17j(ck, prog):
    """what counts as a residue of a row does not depend on its case: every test compare_pair (or a private helper of it) makes
    on a character of a row, evaluated for all byte values, gives the same answer for a letter and its other-case twin, holds
    for every letter and fails for '-' and '.' - a lower-case residue taken for a gap shifts the column numbering of the
    whole row and the score compares the wrong pairs"""
    from ..bytedom import Sym, ev, char_origin
    P = prog.fn("compare_pair")
    fns = [P]
    for c in P.body.calls():
        H = prog.fn(prog.resolve(c.callee, P.file), required=False) if c.callee else None
        if H is not None and H.body is not None and H.static and H.file == P.file and H not in fns:
            fns.append(H)
    n = 0
    for F in fns:
        cparams = {p_["did"] for p_ in F.params if (p_["ty"] or "").replace("const ", "").strip() in ("char *", "char*")}
        for cnd in [x.child("cond") for x in F.body.walk() if x.k in ("IfStmt", "ConditionalOperator", "WhileStmt") and x.child("cond") is not None]:
            org = [o for o in char_origin(cnd) if any(r.k == "DeclRefExpr" and r.d.get("did") in cparams for r in o.walk())]
            if len({o.text() for o in org}) != 1:
                continue
            sym = Sym(text=org[0].text())
            vals = {}
            for b in list(range(65, 91)) + list(range(97, 123)) + [45, 46]:
                vals[b] = ev(cnd, sym, b)
            if any(v is None for v in vals.values()):
                continue
            n += 1
            where = site(prog, cnd, "row character test")
            split = [chr(b) for b in range(65, 91) if bool(vals[b]) != bool(vals[b + 32])]
            ck.inst("R17j", where, "%s tests %s: %s" % (F.name, cnd.text()[:40], "case-blind" if not split else "splits %s" % "".join(split[:6])), prog.config)
            if split:
                ck.violation("R17j", "R17j/%s/case" % F.name, where,
                             "%s tests a row character with %s, which tells %s from %s: a residue written in lower case is taken for a gap, the "
                             "residue numbering of that row shifts and the score counts pairs of different residues" % (
                                 F.name, cnd.text()[:50], split[0], split[0].lower()), prog.config)
                continue
            letters = {bool(vals[b]) for b in range(65, 91)}
            if len(letters) == 1 and bool(vals[45]) == letters.pop():
                ck.violation("R17j", "R17j/%s/gap" % F.name, where,
                             "%s tests a row character with %s, which does not tell a letter from the gap symbol '-'" % (F.name, cnd.text()[:50]), prog.config)
    ck.floor("R17j", n, 2, "tests of a row character in compare_pair")


def r17i(ck, prog):
    """rows are matched by position after both alignments have been brought into one order: kalign_sort_msa sorts on every
    success path, or what lets it skip the sort is a scan of all numseq-1 adjacent pairs of rows"""
    from ..callgraph import CallGraph
    from ..lift import Lifted
    from ..affine import loop_range, lin, single_defs, Lin
    F = prog.fn("kalign_sort_msa")
    L = Lifted(prog, CallGraph(prog))
    where = site(prog, F, "kalign_sort_msa")
    if L.passes_through(F, "qsort"):
        ck.inst("R17i", where, "every success path of kalign_sort_msa sorts", prog.config)
        return
    # a bypass: recognise an order scan over adjacent rows
    subst = single_defs(F)
    scans = []
    for lp in F.body.find("ForStmt"):
        rg = loop_range(lp, subst)
        if rg is None:
            continue
        var, lo, hi = rg
        for c in lp.child("body").calls("strncmp", "strcmp", "memcmp"):
            offs = []
            for a_ in c.args[:2]:
                idx = [x for x in a_.walk() if x.k == "ArraySubscriptExpr" and x.kids[0].strip(casts=True).k == "MemberExpr" and
                       x.kids[0].strip(casts=True).d.get("field") == "sequences"]
                if len(idx) != 1:
                    break
                l = lin(idx[0].kids[1], subst)
                if l is None or l.t != {var: 1}:
                    break
                offs.append(l.c)
            if len(offs) == 2 and abs(offs[0] - offs[1]) == 1:
                scans.append((lp, lo.add(Lin(min(offs))), hi.add(Lin(min(offs)))))
    if not scans:
        raise AnalysisBroken("R17i: kalign_sort_msa can return success without sorting, and no scan of adjacent rows that would justify it "
                             "was recognised")
    for lp, lo, hi in scans:
        w = site(prog, lp, "order scan")
        ck.inst("R17i", w, "kalign_sort_msa skips the sort after examining the adjacent pairs starting at [%s, %s)" % (lo, hi), prog.config)
        full = lo.is_const() and lo.c == 0 and hi.t == {"msa->numseq": 1} and hi.c == -1
        if not full:
            ck.violation("R17i", "R17i/kalign_sort_msa/scan", w,
                         "kalign_sort_msa skips the sort when the adjacent pairs starting at [%s, %s) are in order; the pairs are "
                         "[0, msa->numseq - 1): rows outside the scan can be out of order, and rows of different sequences are then compared" % (lo, hi),
                         prog.config)


def r17g(ck, prog):
    """each alignment is rendered on its own: in kalign_msa_compare a call finalise_alignment(X) is guarded only by tests of X
    itself - whether the reference is rendered must not depend on the state of the test alignment or vice versa"""
    K = prog.fn("kalign_msa_compare")
    n = 0
    fns = [K] + [prog.functions[c.callee] for c in K.body.calls() if c.callee in prog.functions and prog.functions[c.callee].static
                 and prog.functions[c.callee].file == K.file and prog.functions[c.callee].body is not None]
    for c in [x for G in fns for x in G.body.calls("finalise_alignment")]:
        a0 = c.args[0].strip(casts=True) if c.args else None
        if a0 is None or a0.k != "DeclRefExpr":
            continue
        n += 1
        others = set()
        for cond, pol in guards(c):
            if cond.parent is None or cond.parent.k != "IfStmt" or any(m_ in ("RUN", "RUNP") for m_ in cond.mac):
                continue
            for r in cond.find("DeclRefExpr"):
                if r.ty.replace("const ", "").startswith("struct msa") and r.d["did"] != a0.d["did"]:
                    others.add(r.d["name"])
        where = site(prog, c, "finalise_alignment(%s)" % a0.d["name"])
        ck.inst("R17g", where, "finalise_alignment(%s) is guarded by tests of %s" % (a0.d["name"], "itself only" if not others else sorted(others)), prog.config)
        if others:
            ck.violation("R17g", "R17g/kalign_msa_compare/%s" % a0.d["name"], where,
                         "whether alignment '%s' is rendered into gapped rows also depends on the state of '%s': comparing an alignment "
                         "made in this process with one read from a file leaves one of them unrendered (alnlen 0) and the score is 0/0" % (
                             a0.d["name"], "/".join(sorted(others))), prog.config)
    ck.floor("R17g", n, 1, "finalise_alignment calls in kalign_msa_compare and its private helpers")


def run(ck, progs):
    describe(ck)
    ck.rule("R17h", "no local variable or conversion narrower than the counter fields of struct cmp_stats lies between a counter and *score")
    ck.rule("R17j", "every test compare_pair makes on a row character gives the same answer for a letter and its case twin, and tells letters from the gap symbol")
    ck.rule("R17i", "kalign_sort_msa sorts on every success path, or skips the sort only after a scan of all numseq-1 adjacent pairs of rows")
    ck.rule("R17g", "finalise_alignment(X) in kalign_msa_compare is guarded by tests of X only")
    ck.rule("R17e", "each row-walking loop of compare_pair is bounded by the length of the alignment its rows belong to (pairing taken from the call site)")
    ck.rule("R17f", "the score is computed in double precision: no float-typed operand on the way from the counters to *score")
    ck.rule("R17d", "uniqueness check and row-matching order compare names with the same function over the same span")
    ck.rule("R17c", "files with a gap anywhere are recognised as alignments (gap total covers every sequence, = R04b) and the counting loop is not distributed over threads")
    for cfg, prog in progs.items():
        ck.attempt(r17a, ck, prog)
        ck.attempt(r17b, ck, prog)
        ck.attempt(r17c, ck, prog)
        ck.attempt(r17d, ck, prog)
        ck.attempt(r17e, ck, prog)
        ck.attempt(r17f, ck, prog)
        ck.attempt(r17g, ck, prog)
        ck.attempt(r17h, ck, prog)
        ck.attempt(r17i, ck, prog)
        ck.attempt(r17j, ck, prog)
    return ("CFG dominance of both sort calls over the pairing loop, argument pairing and loop ranges of the compare_pair "
            "call, field read set of the row-matching comparator; classification of compare_pair's counters by the row "
            "parameters their loops scan, and reaching definitions of numerator and denominator of the stored score.")
