"""Scenario evaluation of straight-line set-up code.

Some functions are a decision tree over a handful of run-time facts followed by assignments (do_align: is child a / child b
a single sequence or a profile, which is longer).  Whether the tree is written as nested ifs, as a switch over a computed
kind, with a `swapped` flag, or with helpers does not matter to what it sets up.  `run` walks the flattened code
(kcheck/inline.py) once per *scenario* - an assignment of numbers to the atoms the decisions depend on - keeping a store of
the values assigned so far, and returns the trace of calls with a snapshot of the store at each.  Pointers stay symbolic (the
text of the expression); integers are computed.  This is constant propagation with the inputs fixed by the scenario, not an
execution of the program: no input is read, loops are not entered, calls are not followed except private helpers.

Unknown conditions are not guessed: the error tests of the RUN / MMALLOC / ASSERT macros are taken as "no error", anything else
that cannot be evaluated raises Undecided (the rule reports no verdict).
"""
from .build import AnalysisBroken
from .inline import flatten, render, resolve

ERROR_MACROS = ("RUN", "RUNP", "MMALLOC", "MREALLOC", "ASSERT", "ERROR_MSG", "MFREE", "galloc")


class Undecided(Exception):
    pass


class Sym(str):
    """a symbolic (pointer / unknown) value: the text of the expression that produced it"""


def _is_error_test(node):
    macs = set(node.mac or [])
    for x in node.walk():
        macs |= set(x.mac or [])
    return bool(macs & set(ERROR_MACROS))


class Run:
    def __init__(self, prog, F, atoms, also=(), stop_at=(), keep=(), fork=False):
        self.fork = fork              # an undecidable condition: follow both branches (may-trace) instead of giving up
        self.prog, self.F, self.atoms = prog, F, dict(atoms)
        self.store = {}
        self.trace = []          # ("call", name, [arg values], snapshot of the store)
        self.stop_at = set(stop_at)
        self.events = flatten(prog, F, [F.body], also=also, exclude=tuple(keep) + tuple(stop_at))   # keep: never inlined, stay call events
        self.stopped = False
        self.retvals = {}
        self.exits = []               # return / goto nodes of F itself that were executed
        self.maybe_returned = set()   # functions that may have returned from inside a loop that was not entered
        self.forks = []               # rendered conditions that could not be decided and were followed both ways

    # ---- values
    def lookup(self, text):
        if text in self.store:
            return self.store[text]
        if text in self.atoms:
            return self.atoms[text]
        return Sym(text)

    def ev(self, n, env):
        x = n
        while x.k in ("ParenExpr", "ImplicitCastExpr", "CStyleCastExpr") and x.kids:
            x = x.kids[0]
        if "NULL" in (x.mac or []) or "NULL" in (n.mac or []):
            return None
        if x.cv is not None and x.k != "DeclRefExpr":
            return x.cv
        k = x.k
        if k == "FloatingLiteral":
            return x.d.get("v")
        if k in ("DeclRefExpr", "MemberExpr", "ArraySubscriptExpr"):
            if k == "DeclRefExpr" and x.cv is not None and x.d.get("dk") not in ("Var", "Parm"):
                return x.cv
            b = env.get(x.d.get("did")) if (k == "DeclRefExpr" and env is not None) else None
            if b is not None:
                return self.ev(b[0], b[1])
            t = self.canon(x, env)
            v = self.lookup(t)
            if k == "DeclRefExpr" and isinstance(v, Sym) and (x.ty or "").replace("const ", "").strip() in ("int", "unsigned int", "long", "size_t", "uint32_t", "int32_t"):
                import re as _re
                if not _re.match(r"^[A-Za-z_]\w*$", str(v)):
                    return Sym(t)          # an integer variable holding an unknown value: the variable is its name (a = t->list[id]->a)
            return v
        if k == "UnaryOperator":
            op = x.d["op"]
            if op == "&":
                return Sym("&" + self.canon(x.kids[0], env))
            v = self.ev(x.kids[0], env)
            if op == "!":
                if isinstance(v, Sym):
                    return 0            # a symbolic pointer is an object: not NULL
                return int(not v) if v is not None else 1
            if op == "-" and isinstance(v, (int, float)) and not isinstance(v, Sym):
                return -v
            if op == "*":
                if isinstance(v, Sym) and str(v).startswith("&"):
                    return self.lookup(str(v)[1:])          # *&E is E
                return self.lookup(render(x, env))
            return Sym(render(x, env))
        if k == "BinaryOperator":
            op = x.d["op"]
            if op in ("&&", "||"):
                a = self.truth(x.kids[0], env)
                if op == "&&" and a is False:
                    return 0
                if op == "||" and a is True:
                    return 1
                b = self.truth(x.kids[1], env)
                if op == "&&" and b is False:
                    return 0
                if op == "||" and b is True:
                    return 1
                if a is None or b is None:
                    return Sym(render(x, env))
                return int((a and b) if op == "&&" else (a or b))
            a, b = self.ev(x.kids[0], env), self.ev(x.kids[1], env)
            num = lambda v: isinstance(v, (int, float)) and not isinstance(v, Sym)
            if op in ("==", "!="):
                if a is None or b is None:
                    if a is None and b is None:
                        r = True
                    elif isinstance(a, Sym) or isinstance(b, Sym):
                        # an object handed in through a parameter is there; anything else symbolic (a field, the result of a
                        # helper or a loop) may or may not be NULL
                        sv = str(a if isinstance(a, Sym) else b)
                        if sv not in {p_["name"] for p_ in self.F.params} and not sv.startswith("&"):
                            return Sym(render(x, env))
                        r = False
                    elif num(a) or num(b):
                        r = (a or b) == 0
                    else:
                        r = False
                    return int(r if op == "==" else not r)
                if num(a) and num(b):
                    return int((a == b) if op == "==" else (a != b))
                if isinstance(a, Sym) and isinstance(b, Sym):
                    if str(a) == str(b):
                        return int(op == "==")
                    return Sym(render(x, env))
                return Sym(render(x, env))
            if num(a) and num(b):
                try:
                    return {"+": a + b, "-": a - b, "*": a * b, "/": (a // b if isinstance(a, int) and isinstance(b, int) else a / b) if b else None,
                            "%": a % b if b else None, "<": int(a < b), ">": int(a > b), "<=": int(a <= b), ">=": int(a >= b),
                            "<<": a << b, ">>": a >> b, "|": a | b, "&": a & b, "^": a ^ b}[op]
                except Exception:
                    return Sym(render(x, env))
            return Sym(render(x, env))
        if k == "ConditionalOperator":
            c = self.truth(x.child("cond"), env)
            if c is None:
                return Sym(render(x, env))
            return self.ev(x.child("then") if c else x.child("else"), env)
        if k == "CallExpr":
            if x.callee in self.retvals:
                return self.retvals[x.callee]         # the value the inlined helper has just returned
            return Sym(render(x, env))
        return Sym(render(x, env))

    def truth(self, n, env):
        v = self.ev(n, env)
        if v is None:
            return False
        if isinstance(v, Sym):
            # a bare symbolic pointer used as a condition is an object; a symbolic comparison is unknown
            x = n.strip(casts=True)
            if x.k in ("DeclRefExpr", "MemberExpr", "ArraySubscriptExpr") and (x.ty or "").endswith("*"):
                return True
            return None
        return bool(v)

    def canon(self, x, env):
        """text of an lvalue; a subscript that is a local whose current value is known (an integer, or a plain symbol such as the
        node id `a`) is written with that value: msa->sequences[first] with first == a is msa->sequences[a]"""
        t = render(x, env)
        if "[" in t:
            import re as _re

            def sub(m_):
                k_ = m_.group(1)
                if k_ in self.store:
                    v = self.store[k_]
                    if isinstance(v, Sym):
                        return "[%s]" % v if _re.match(r"^[A-Za-z_]\w*$", str(v)) else m_.group(0)
                    if isinstance(v, int):
                        return "[%d]" % v
                return m_.group(0)
            t = _re.sub(r"\[([A-Za-z_][\w:]*)\]", sub, t)
        return t

    # ---- events
    def run(self):
        self._seq(self.events)
        return self.trace

    def _both(self, branches):
        """follow every branch from the same store; afterwards a location holds its value only where all branches agree.
        Returns the function whose return ended ALL branches, else None"""
        base = dict(self.store)
        outs, ends = [], []
        for b in branches:
            self.store = dict(base)
            ends.append(self._seq(b))
            outs.append(self.store)
            if self.stopped:
                self.stopped = False      # a stop inside one branch does not stop the sibling branches
                ends[-1] = ends[-1] or "<stop>"
        merged = {}
        for k_ in set().union(*[set(o) for o in outs]):
            vals = [o.get(k_, base.get(k_)) for o in outs]
            merged[k_] = vals[0] if all((v == vals[0]) and (type(v) is type(vals[0])) for v in vals) else Sym("<either:%s>" % k_)
        self.store = merged
        if all(e_ is not None for e_ in ends):
            real = [e_ for e_ in ends if e_ != "<stop>"]
            if not real:
                self.stopped = True
                return None
            return real[0]
        return None

    def _seq(self, events):
        skip_to = None
        for i, e in enumerate(events):
            if self.stopped:
                return None
            if skip_to is not None:
                if e[0] == "leave" and e[1] == skip_to:
                    skip_to = None
                continue
            ended = None
            k = e[0]
            if k == "store":
                lhs, rhs, env, node = e[1], e[2], e[3], e[4]
                if rhs is not None:
                    self.store[lhs] = self.ev(rhs, env)
                else:
                    cur = self.lookup(lhs)
                    op = node.d.get("op")
                    if isinstance(cur, int) and not isinstance(cur, Sym):
                        if op == "++":
                            self.store[lhs] = cur + 1
                        elif op == "--":
                            self.store[lhs] = cur - 1
                        else:
                            r = self.ev(node.kids[1], env) if len(node.kids) > 1 else None
                            if isinstance(r, int) and not isinstance(r, Sym) and op in ("+=", "-="):
                                self.store[lhs] = cur + r if op == "+=" else cur - r
                            else:
                                self.store[lhs] = Sym("%s %s" % (lhs, op))
                    else:
                        self.store[lhs] = Sym("%s %s" % (lhs, op))
            elif k == "call":
                name, c, env = e[1], e[2], e[3]
                args = [self.ev(a, env) for a in c.args]
                self.trace.append(("call", name, args, dict(self.store), c))
                if name in self.stop_at:
                    self.stopped = True
                    return None
            elif k == "if":
                t = self.truth(e[1], e[2])
                if t is None:
                    if _is_error_test(e[1]) or _is_error_test(e[5]):
                        exits_then = any(x[0] == "return" for x in e[3])
                        t = not exits_then if e[3] else False
                        if exits_then:
                            t = False
                    elif self.fork:
                        self.forks.append(render(e[1], e[2]))
                        ended = self._both([e[3], e[4]])
                        t = "forked"
                    else:
                        raise Undecided("condition %s cannot be evaluated in the scenario" % render(e[1], e[2]))
                if t != "forked":
                    ended = self._seq(e[3] if t else e[4])
            elif k == "switch":
                v = self.ev(e[1], e[2])
                if (not isinstance(v, int) or isinstance(v, Sym)) and self.fork:
                    self.forks.append("switch(%s)" % render(e[1], e[2]))
                    ended = self._both([b for _, b in e[3]] + [[]])
                    if ended is not None:
                        if any(x[0] == "leave" and x[1] == ended for x in events[i + 1:]):
                            skip_to = ended
                        else:
                            return ended
                    continue
                if not isinstance(v, int) or isinstance(v, Sym):
                    raise Undecided("switch on %s cannot be evaluated in the scenario" % render(e[1], e[2]))
                body = None
                for labels, b in e[3]:
                    if any(l[0] == "case" and l[1] == v for l in labels):
                        body = b
                if body is None:
                    for labels, b in e[3]:
                        if any(l[0] == "default" for l in labels):
                            body = b
                if body is not None:
                    ended = self._seq(body)
            elif k == "loop":
                self.trace.append(("loop", None, [], dict(self.store), e[1]))
                if "loop" in self.stop_at:
                    self.stopped = True
                    return None
                # loops are not entered: whatever they assign becomes unknown, and a return inside the loop makes the value the
                # function finally returns unknown as well (it may have returned from inside the loop)
                from .inline import walk_events
                for x in walk_events(e[3]):
                    if x[0] == "store":
                        self.store[x[1]] = Sym("<loop:%s>" % x[1])
                    elif x[0] == "return" and getattr(x[1], "fn", None) is not None:
                        if not self.fork and x[1].fn is not self.F:
                            raise Undecided("%s may return from inside a loop" % x[1].fn.name)
                        self.maybe_returned.add(x[1].fn.name)
            elif k == "return":
                ended = e[1].fn.name if getattr(e[1], "fn", None) is not None else "?"
                if e[1].k == "ReturnStmt" and e[1].kids:
                    self.retvals[ended] = self.ev(e[1].kids[0], e[2])
                    if ended in self.maybe_returned:
                        self.retvals[ended] = Sym("<value returned by %s>" % ended)
                if getattr(e[1], "fn", None) is self.F:
                    self.exits.append(e[1])
            if ended is not None:
                if any(x[0] == "leave" and x[1] == ended for x in events[i + 1:]):
                    skip_to = ended
                else:
                    return ended
        return None
