"""Helpers shared by the rule modules."""
from .build import AnalysisBroken
from .model import N


def site(prog, node_or_fn, extra=None):
    loc = node_or_fn.loc
    s = prog.rel(loc)
    if extra:
        s += ":" + extra
    return s


def guards(node, stop=None):
    """Enclosing structural guards of node: list of (cond N, polarity) from innermost outwards.
    polarity True = node executes only if cond was true (then-branch / loop body)."""
    out = []
    c = node
    p = node.parent
    while p is not None and p is not stop:
        if p.k == "IfStmt" and c.role in ("then", "else"):
            out.append((p.child("cond"), c.role == "then"))
        elif p.k in ("WhileStmt", "ForStmt") and c.role == "body" and p.child("cond") is not None:
            out.append((p.child("cond"), True))
        elif p.k == "ConditionalOperator" and c.role in ("then", "else"):
            out.append((p.child("cond"), c.role == "then"))
        elif p.k == "BinaryOperator" and p.d["op"] == "&&" and len(p.kids) == 2 and p.kids[1] is c:
            out.append((p.kids[0], True))
        elif p.k == "BinaryOperator" and p.d["op"] == "||" and len(p.kids) == 2 and p.kids[1] is c:
            out.append((p.kids[0], False))
        c, p = p, p.parent
    return out


def stores_to_field(root, rec, field):
    """(assign node, member node, rhs node) for every direct store X->field = rhs / X.field = rhs under root."""
    for n in root.walk():
        if n.k in ("BinaryOperator", "CompoundAssignOperator") and n.d["op"].endswith("=") and \
                n.d["op"] not in ("==", "!=", "<=", ">="):
            lhs = n.kids[0].strip()
            if lhs.k == "MemberExpr" and lhs.d.get("field") == field and lhs.d.get("rec") == rec:
                yield n, lhs, n.kids[1]


def member_accesses(root, rec, field):
    for n in root.find("MemberExpr"):
        if n.d.get("field") == field and n.d.get("rec") == rec:
            yield n


def const_value(n):
    """numeric value of a constant expression node (int via cv, float literal, unary minus)."""
    n = n.strip(casts=True)
    if n.cv is not None:
        return n.cv
    if n.k == "FloatingLiteral":
        return n.d["v"]
    if n.k == "UnaryOperator" and n.d["op"] in ("-", "+") and n.kids:
        v = const_value(n.kids[0])
        if v is None:
            return None
        return -v if n.d["op"] == "-" else v
    if n.k in ("ImplicitCastExpr", "CStyleCastExpr", "ParenExpr") and n.kids:
        return const_value(n.kids[0])
    return None


def macro_of_const(n):
    """Name of the object-like macro a constant came from (ALN_STATUS_FINAL rather than 3)."""
    m = n
    while m is not None:
        for name in m.mac:
            return name
        if not m.kids or m.k not in ("ParenExpr", "ImplicitCastExpr", "CStyleCastExpr"):
            break
        m = m.kids[0]
    return None


def switch_table(sw):
    """Map each case label of a SwitchStmt to the statements executed for it (fallthrough followed).

    returns list of (labels, stmts) where labels is a list of ('case', value, macro) / ('default',)
    and stmts the flattened statements up to the terminating break/return/goto."""
    body = sw.child("body")
    if body is None or body.k != "CompoundStmt":
        raise AnalysisBroken("switch at %s: body is not a compound statement" % sw.loc)
    flat = []     # sequence of ('label', info) / ('stmt', node)

    def unwrap(n):
        while n is not None and n.k in ("CaseStmt", "DefaultStmt"):
            if n.k == "CaseStmt":
                lhs = n.child("lhs")
                flat.append(("label", ("case", lhs.cv, macro_of_const(lhs), n)))
            else:
                flat.append(("label", ("default", None, None, n)))
            n = n.child("sub")
        if n is not None:
            flat.append(("stmt", n))

    for s in body.kids:
        unwrap(s)
    groups = []
    i = 0
    while i < len(flat):
        if flat[i][0] != "label":
            i += 1
            continue
        labels = []
        while i < len(flat) and flat[i][0] == "label":
            labels.append(flat[i][1])
            i += 1
        stmts = []
        j = i
        while j < len(flat):
            kind, x = flat[j]
            if kind == "stmt":
                stmts.append(x)
                if x.k in ("BreakStmt", "ReturnStmt", "GotoStmt") or ends_in_jump(x):
                    break
            j += 1
        groups.append((labels, stmts))
    return groups


def ends_in_jump(stmt):
    """statement certainly leaves the enclosing switch group (ERROR_MSG expands to do{..goto ERROR;}while(0))"""
    if stmt.k in ("BreakStmt", "ReturnStmt", "GotoStmt", "ContinueStmt"):
        return True
    if stmt.k == "DoStmt":
        b = stmt.child("body")
        return b is not None and ends_in_jump(b)
    if stmt.k == "CompoundStmt" and stmt.kids:
        return ends_in_jump(stmt.kids[-1])
    return False


def has_goto(stmts, label="ERROR"):
    for s in stmts:
        for g in s.find("GotoStmt"):
            if g.d["label"] == label:
                return True
    return False


def if_chain(ifstmt):
    """[(cond, then-node)] ... plus final else node (or None) of an if / else-if chain."""
    links = []
    n = ifstmt
    while n is not None and n.k == "IfStmt":
        links.append((n.child("cond"), n.child("then")))
        n = n.child("else")
    return links, n


def prior_exit_guards(node):
    """Guards established by earlier siblings of the form  if(cond){ ...; continue/break/return/goto }
    (no else) in the compound statements that enclose `node`, stopping at the function body or at the
    body of the innermost loop for 'continue'/'break' exits.  Yields (cond, False, if-stmt, between)
    where `between` are the sibling statements executed after the if and before the one holding node."""
    c = node
    p = node.parent
    out = []
    while p is not None:
        if p.k == "CompoundStmt":
            idx = None
            for i, s in enumerate(p.kids):
                if s is c:
                    idx = i
                    break
            if idx is not None:
                for i in range(idx - 1, -1, -1):
                    s = p.kids[i]
                    if s.k == "IfStmt" and s.child("else") is None and s.child("then") is not None \
                            and ends_in_jump(s.child("then")):
                        out.append((s.child("cond"), False, s, p.kids[i + 1:idx]))
        c, p = p, p.parent
    return out


def assigned_vars(stmts):
    """decl ids of variables assigned / incremented anywhere in the statements"""
    out = set()
    for s in stmts:
        for n in s.walk():
            tgt = None
            if n.k in ("BinaryOperator", "CompoundAssignOperator") and n.d["op"] in (
                    "=", "+=", "-=", "*=", "/=", "%=", "&=", "|=", "^=", "<<=", ">>="):
                tgt = n.kids[0].strip()
            elif n.k == "UnaryOperator" and n.d["op"] in ("++", "--"):
                tgt = n.kids[0].strip()
            if tgt is not None and tgt.k == "DeclRefExpr":
                out.add(tgt.d["did"])
    return out


def local_defs(fn, did):
    """All definitions (init or assignment RHS nodes) of local variable `did` in function fn.
    Returns list of (rhs node or None for ++/--/compound, defining node)."""
    defs = []
    for n in fn.body.walk():
        if n.k == "DeclStmt":
            for dd in n.d["decls"]:
                if dd.get("did") == did and dd.get("init"):
                    for kid in n.kids:
                        if kid.role == "declinit" and kid.decl is dd:
                            defs.append((kid, n))
        elif n.k == "BinaryOperator" and n.d["op"] == "=":
            l = n.kids[0].strip()
            if l.k == "DeclRefExpr" and l.d["did"] == did:
                defs.append((n.kids[1], n))
        elif n.k == "CompoundAssignOperator" or (n.k == "UnaryOperator" and n.d["op"] in ("++", "--")):
            l = n.kids[0].strip()
            if l.k == "DeclRefExpr" and l.d["did"] == did:
                defs.append((None, n))
        elif n.k == "UnaryOperator" and n.d["op"] == "&":
            l = n.kids[0].strip()
            if l.k == "DeclRefExpr" and l.d["did"] == did:
                defs.append((None, n))
    return defs


def array_bound(prog, base):
    """Constant element count of the array an (un-decayed) base expression denotes, or None."""
    import re
    b = base.strip()
    m = re.search(r"\[(\d+)\]$", b.ty or "")
    if m and b.k != "ArraySubscriptExpr":
        return int(m.group(1))
    if m:
        return int(m.group(1))
    return None


def comparator_spec(F):
    """Analyse a qsort comparator: returns list of dicts
         {field, op, sign, kind}   for every `if(A->f OP B->f) return c;`  (kind 'field')
         {call, ...}               for comparisons of a call result (strncmp) against 0
    where A derives from parameter 0 and B from parameter 1 (op is normalised to that orientation)."""
    pmap = {}
    for i, p in enumerate(F.params[:2]):
        pmap[p["did"]] = i
    # locals initialised from the parameters:  struct x* const *one = a;
    for n in F.body.find("DeclStmt"):
        for kid in n.kids:
            if kid.role == "declinit":
                r = kid.strip(casts=True)
                if r.k == "DeclRefExpr" and r.d["did"] in pmap:
                    pmap[kid.decl["did"]] = pmap[r.d["did"]]
                elif r.k == "UnaryOperator" and r.d["op"] == "*" and r.kids[0].strip(casts=True).k == "DeclRefExpr" and \
                        r.kids[0].strip(casts=True).d["did"] in pmap:
                    pmap[kid.decl["did"]] = pmap[r.kids[0].strip(casts=True).d["did"]]

    def side(e):
        ids = {pmap[r.d["did"]] for r in e.refs() if r.d["did"] in pmap}
        return ids.pop() if len(ids) == 1 else None

    def first_return_sign(stmt):
        for r in stmt.find("ReturnStmt"):
            v = const_value(r.kids[0]) if r.kids else None
            if v is None:
                return None
            return (v > 0) - (v < 0)
        return None

    out = []
    flip = {"<": ">", ">": "<", "<=": ">=", ">=": "<=", "==": "==", "!=": "!="}
    for ifs in F.body.find("IfStmt"):
        c = ifs.child("cond").strip()
        if c.k != "BinaryOperator" or c.d["op"] not in flip:
            continue
        l, r = c.kids
        ls, rs = side(l), side(r)
        lf = [m.d["field"] for m in l.find("MemberExpr")]
        rf = [m.d["field"] for m in r.find("MemberExpr")]
        then = ifs.child("then")
        sign = first_return_sign(then) if then is not None else None
        if ls is not None and rs is not None and ls != rs and lf and rf:
            op = c.d["op"] if ls == 0 else flip[c.d["op"]]
            out.append({"kind": "field", "field": lf[-1], "field_b": rf[-1], "op": op, "sign": sign, "node": ifs})
        else:
            out.append({"kind": "other", "text": c.text(), "sign": sign, "node": ifs})
    # return (A->f OP B->f) ? c1 : c2;
    for rs_ in F.body.find("ReturnStmt"):
        if not rs_.kids:
            continue
        e = rs_.kids[0].strip(casts=True)
        if e.k != "ConditionalOperator":
            continue
        c = e.child("cond").strip(casts=True)
        v1, v2 = const_value(e.child("then")), const_value(e.child("else"))
        if c.k != "BinaryOperator" or c.d["op"] not in flip or v1 is None or v2 is None:
            continue
        l, r = c.kids
        ls, rs = side(l), side(r)
        lf = [m.d["field"] for m in l.find("MemberExpr")]
        rf = [m.d["field"] for m in r.find("MemberExpr")]
        if ls is not None and rs is not None and ls != rs and lf and rf:
            op = c.d["op"] if ls == 0 else flip[c.d["op"]]
            out.append({"kind": "field", "field": lf[-1], "field_b": rf[-1], "op": op, "sign": (v1 > 0) - (v1 < 0), "node": rs_})
    return out


def printf_specs(fmt):
    """[(text before the spec since the previous one, conversion char, index of the value argument
    among the variadic arguments)] for a printf-style format string"""
    import re
    out = []
    argi = 0
    last = 0
    for m in re.finditer(r"%([-+ #0]*)(\*|\d+)?(?:\.(\*|\d+))?(hh|h|ll|l|L|z|j|t)?([diouxXeEfFgGaAcspn%])", fmt):
        if m.group(5) == "%":
            continue
        if m.group(2) == "*":
            argi += 1
        if m.group(3) == "*":
            argi += 1
        out.append((fmt[last:m.start()], m.group(5), argi))
        argi += 1
        last = m.end()
    return out


def reaching_sources(F, use, depth=0):
    """Set of source-expression texts a value use resolves to, following local variables through their
    reaching definitions (CFG-based) up to 3 levels.  A non-local / non-variable expression is its own source."""
    u = use.strip(casts=True)
    if u.k != "DeclRefExpr" or u.d.get("dk") != "Var" or u.d.get("g") or depth > 3:
        return {u.text()}
    did = u.d["did"]
    defs = local_defs(F, did)
    cfg = F.cfg
    upos = cfg.position(use)
    out = set()
    dpos = [(rhs, node, cfg.position(node)) for rhs, node in defs]
    for rhs, node, pos in dpos:
        if pos is None or upos is None:
            continue
        others = [p for r2, n2, p in dpos if n2 is not node and p is not None]
        if cfg.reaches(pos, upos, avoid=others):
            if rhs is None:
                out.add("<modified:%s>" % u.text())
            else:
                out |= reaching_sources(F, rhs, depth + 1)
    if not out:
        out.add("<undefined:%s>" % u.text())
    return out


def expand_aliases(F, node, depth=0, at=None):
    """text of an expression with local pointer aliases replaced by the one definition that reaches the use
    (struct msa_seq* s = msa->sequences[k]; ... s->gaps  ->  msa->sequences[k]->gaps)"""
    n = node.strip(casts=True)
    at = at if at is not None else node
    if n.k == "DeclRefExpr" and n.d.get("dk") == "Var" and not n.d.get("g") and depth < 3 and n.ty.endswith("*"):
        cfg = F.cfg
        upos = cfg.position(at)
        defs = [(r, d) for r, d in local_defs(F, n.d["did"])]
        live = []
        for r, d in defs:
            dp = cfg.position(d)
            if dp is None or upos is None:
                continue
            others = [cfg.position(d2) for r2, d2 in defs if d2 is not d]
            if cfg.reaches(dp, upos, avoid=[o for o in others if o is not None]):
                live.append(r)
        live = [r for r in live if r is None or not ("NULL" in r.mac or r.strip(casts=True).cv == 0)]
        if len(live) == 1 and live[0] is not None:
            return expand_aliases(F, live[0], depth + 1, at=live[0])
        return n.text()
    if n.k == "MemberExpr":
        return "%s%s%s" % (expand_aliases(F, n.kids[0], depth, at), "->" if n.d.get("arrow") else ".", n.d["field"])
    if n.k == "ArraySubscriptExpr":
        i0 = n.kids[1].strip(casts=True)
        itxt = expand_aliases(F, i0, depth, at) if i0.k in ("ArraySubscriptExpr", "MemberExpr") else i0.text()
        return "%s[%s]" % (expand_aliases(F, n.kids[0], depth, at), itxt)
    return n.text()
