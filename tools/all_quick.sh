#!/bin/bash
# runs every registered quick check on /repo; prints one line; non-zero exit if any check does not return 0
cd /verif; bad=0
for cmd in $(python3 -c "import json;[print(c['property_id']) for c in json.load(open('MANIFEST.json'))['checks']]"); do
  python3 kcheck.py $cmd >/tmp/aq.$cmd 2>&1; rc=$?; echo -n "$cmd=$rc "; [ $rc -ne 0 ] && bad=1
done; echo; exit $bad
