# -*- python -*-  table consumed by tools/mkmanifest.py
NA["C08"] = ("whether the diagonal strictly beats every gapped path depends on the numeric entries of the substitution "
             "matrices, the penalties and float rounding; no clause is visible in the shape of the code (DESIGN 3/C08)")
NA["C11"] = ("functional equivalence of Myers' bit-parallel recurrences with edit distance over all string pairs is an "
             "arithmetic statement; no shape-level clause exists and goto-analyzer could not bound the kernels (DESIGN 3/C11)")
NA["C12"] = ("follows only from computed distances and scores (C08, UPGMA choosing distance-0 pairs); the one shape-level "
             "fact would be a threshold-constant match (DESIGN 3/C12)")

CLAIMS["C09"] = dict(
    text=("Decides, for every path/entry of the code that selects scoring parameters, which constant reaches which field "
          "under which test: override triples (guard, source, field) in aln_param_init, the full (sequence kind x type "
          "constant) table of both switches, the ordered --type dispatch chain evaluated on every documented word, the "
          "option-table/case/field agreement (a float option is parsed with a floating-point parser) and by-name argument positions down to aln_param_init, and the documented DNA "
          "numbers; and the way from aln_param to the kernels: make_profile_n stores the negated penalty of the matching kind "
          "into every gap column, set_gap_penalties_n copies each base column into the column of the same kind the kernels "
          "read on every path to its return, and update_n charges in every branch the penalty kinds it counts, weighted by the "
          "same group size. This is the right level because the statement is about wiring, which is visible in the code's shape."),
    note=("Does not decide end-to-end equality of an explicit-default and a default run on all inputs. Trusts clang's "
          "front end, the README's --type list as the documented API, and the convention negative = not given."),
    technique="AST/CFG rules: guard-source-target agreement, switch-table exhaustiveness, ordered-dispatch shadowing",
    design_ref="DESIGN.md section 3, C09 (R09a-R09h)")

CLAIMS["C05"] = dict(
    text=("Decides structural clauses that are necessary for memory safety and failure reporting, on every call site / "
          "subscript / path of the current source: (R05a) every index computed from a plain char into a table of <= 256 "
          "entries stays in range for all 256 byte values the dominating guards admit (exact finite-domain evaluation); "
          "(R05b) the residue-code loop assigns a defined table entry on every path; (R05d) no status of a callee that can "
          "fail by input is dropped and main returns EXIT_FAILURE after ERROR; (R05e) NULL-tested cursors are not "
          "dereferenced untested in the same loop; (R05g) the API never reaches exit/abort; (R05i) a pointer published "
          "through an out-parameter is not released afterwards; further rules added from seeded changes: capacity tests of "
          "growable arrays before the next element access (R05j), borrowed field-owned pointers are not released (R05k), affine "
          "heap bounds (R05l), table dimensions by constant evaluation (R05f), resize_aln_mem sizes (R05n), infinite penalties "
          "rejected (R05o), gap-array zeroing from the old count to the new (R05s), single use of a va_list (R05t), no fclose "
          "of a possibly-NULL stream (R05u), fixed-size locals filled under a counter are large enough for the largest index the "
          "counter reaches (R05w), the label copied into a Clustal/MSF line is not measured with strlen when the line was sized from a "
          "capped strnlen (R05x = R15l), no local pointer is released twice on a path without an assignment in between (R05y = R16j). Each rule has must-fire / must-stay-silent controls or a floor of confirmed instances."),
    note=("Clauses only: termination, index safety inside the DP and bit-parallel kernels, integer overflow and malloc "
          "failure paths are NOT decided (goto-analyzer could not bound the kernels; DESIGN section 1). Assumes C-locale "
          "ctype semantics and 8-bit signed plain char."),
    technique="AST/CFG dataflow rules: byte-domain index evaluation, must-assign, error-status discipline, typestate on out-parameters, call-graph reachability",
    design_ref="DESIGN.md section 3, C05 (R05a-R05y)")

CLAIMS["C01"] = dict(
    text=("Decides four structural clauses that the anchors of the property name: (R01a) on every CFG path of kalign_run / "
          "kalign to a success return the pipeline stages run in order (input check, de-align, canonical sort, tree, merge, "
          "finalise, rank sort); (R01b) msa_seq.rank is written only by the input check / copies / constructors and read "
          "only by the ascending rank comparator; (R01c) every store into a row buffer and every residue print in the "
          "export functions is a residue copied from msa_seq.seq, '-' or NUL; (R01d) exporters are gated on "
          "ALN_STATUS_FINAL, assigned only after finalise_alignment's row loop, and the status values are pairwise distinct; "
          "every loop over gap slots covers len+1 slots and the writers emit exactly [0, alnlen) (R01e/f); make_seq's two new-gap "
          "vectors never overlap and all carriers of gap counts are int wide (R01g); no length-capped name copy between records "
          "is reachable from the API (R01h); finalise_alignment renders all numseq sequences and make_linear_sequence writes "
          "the gaps[j] dashes in front of residue j (R01i); nothing reachable from kalign_run stores into an element of "
          "msa_seq.seq before the rows are rendered (R01j) and no sorting call lies between kalign_run and the export in any API "
          "function (R01k); read_fasta copies the whole header line into the name (R01l)."),
    note=("Clauses only: the gap arithmetic (make_seq, update_gaps, add_gap_info_to_path_n, mirror_path_n), equal row "
          "lengths and absence of all-gap columns are sums over run-time arrays and are NOT decided."),
    technique="CFG must-pass-through, who-may-read/write table, store provenance, typestate gate",
    design_ref="DESIGN.md section 3, C01 (R01a-R01l)")

CLAIMS["C03"] = dict(
    text=("Decides non-interference of the caller's order with the computation: the canonical (len,name) sort dominates "
          "every positional consumer; its comparator reads len and name only, over the full name span; rank is write-only "
          "until the final ascending rank sort; nothing reachable from kalign_run draws random numbers, reads a clock into "
          "data, orders pointers or turns them into integers; only the input check and the two sorts permute sequences."),
    note=("Assumes distinct names (premise) and that the computation between the sorts is a deterministic function of "
          "memory contents (C02/C16 rules). Names sharing a 256-byte prefix are outside what is decided."),
    technique="information-flow by who-may-read + call-graph reachability + CFG dominance",
    design_ref="DESIGN.md section 3, C03 (R03a-R03e)")

CLAIMS["C04"] = dict(
    text=("Decides the structural clauses behind 'presentation does not matter': the three readers handle every one of the 128 "
          "byte values alike - the branch conditions are evaluated per byte (ctype calls, explicit ranges and constant lookup "
          "tables alike): letters are appended with a growth test right after len++, punctuation is counted into gaps[len], "
          "the histogram counts the same character; read_file_stdin keeps whole physical lines up to the first control "
          "character; read_msf's block loop starts on the line after the '//' divider; every loop that zeroes, totals or materialises gaps covers all "
          "len+1 slots of all numseq sequences, ALN_STATUS_UNALIGNED is assigned only where all gaps are zero and nothing "
          "before the merge phase reads gaps; kalign_read_input never resets or overwrites a non-NULL accumulator and "
          "merge_msa recomputes kind, status and profile tables on every success path; input positions are numbered once over "
          "the merged set (R04k = R01b); no failure exit of kalign_read_input - which runs once per input file - is taken for exactly "
          "one record read so far (guards evaluated at numseq = 1; the count is judged after the merge, R04l); merge_msa re-detects "
          "status and tables after the last record has been appended; no reader assigns block rows by a prefix comparison of names (R04m)."),
    note=("Clauses only: byte-identical output for two presentations needs the whole parser semantics over all byte strings "
          "and is NOT decided; the format-sniffing tokens are covered under C06, the kind decision under C13. Heuristics "
          "with numeric thresholds (is the file empty, first-100-lines sniffing) are not decided."),
    technique="sibling cross-check of reader chains, loop-span/coverage rule with affine bounds, who-may-write, must-call",
    design_ref="DESIGN.md section 3, C04 (R04a-R04m)")

CLAIMS["C06"] = dict(
    text=("Decides the lexical contract that any round trip needs: every token detect_alignment_format / read_msf / "
          "read_fasta search for is a substring of a literal the writer of the same format emits, no detection token of "
          "one format is emitted by another format's writer, the pointer skip after 'Name:' equals the token length; every "
          "store/copy into msa_seq.name is bounded by its buffer; no reader identifies a sequence by a prefix comparison; the "
          "writers emit exactly the columns [0, alnlen) of every row, for the loop shapes the rule can decide (counted "
          "per-column loop; cursor-controlled block loop) - any other shape is reported as 'no verdict' (exit 2); the test that "
          "makes a block line the next row is equivalent to 'first character is not a blank' for every byte value; "
          "kalign_write_msa's effect summary contains no store into the rows, names or gap counts it writes; every string "
          "write_msa_msf formats into a line is a literal, a sequence name, the strftime date or the base name from tlfilename, "
          "so that no caller-supplied path can put the reader's '//' divider into the header; every path to a call of kalign_write_msa "
          "runs something that can set ALN_STATUS_FINAL first (R06k: kalignfmt had none and could not write - F28); a reader that grows a "
          "record keeps the gap counts already counted (R06l = R05s); a scanf scanset used for a name accepts letters, digits and _ . | - "
          "(R06m); the output lines are ordered by block, then row (R06n = R15m)."),
    note=("One clause family only: equality of the re-read alignment (block arithmetic at multiples of 60, name "
          "extraction over all names) is NOT decided - it needs the loop semantics over run-time widths."),
    technique="reader/writer token-set agreement from string literals, bounded-copy rule, prefix-comparison rule",
    design_ref="DESIGN.md section 3, C06 (R06a-R06n)")

CLAIMS["C15"] = dict(
    text=("Decides agreement inside write_msa_msf between header and body: the integer printed after 'MSF:' and every "
          "'Len:' resolves (reaching definitions) to the same source as the bound that ends row emission; every GCG "
          "checksum is taken over that span of the row whose name is printed alongside, the overall check sums all numseq "
          "rows; banner and Type: choices, evaluated in the two (biotype, L) states kalign_run can leave behind, label "
          "protein as protein and nucleotide as nucleic; the checksum accumulators are reduced in every iteration (no 32-bit "
          "overflow for long rows); row emission covers exactly [0, alnlen) for the recognised loop shapes (else: no verdict); "
          "the checksum formula's weights and modulus, the line ordering keys, the retry of a header line that did not fit "
          "(size provably larger than needed), a precision on every %s of a name, the FINAL-status gate of the writers, and the "
          "label of a block row: the copy loop ends at strnlen/strlen of the name or at its NUL byte only (exit tests "
          "evaluated for all 256 byte values), so it is the string the header lines print, and it is measured no more generously than "
          "the strnlen(name, cap) the line was sized from; neither GCG checksum function accumulates under an OpenMP reduction "
          "without reducing the combined value again; the comparator of the output lines compares block and row key separately (or packs "
          "them with a factor >= 2^31), and no line is written or skipped depending on the line buffer's capacity."),
    note=("Wrapping at 60, presence of every sequence in every block and the numerical GCG formula are NOT decided; a "
          "restructured emission loop yields exit 2 (no verdict), not a pass."),
    technique="reaching-definition agreement between header fields and emission bound; two-state evaluation of the type predicate",
    design_ref="DESIGN.md section 3, C15 (R15a-R15n)")

CLAIMS["C02"] = dict(
    text=("Decides the argument 'structured fork-join + non-interfering siblings + no thread-identity/-count dataflow => "
          "every schedule computes what the serial elision computes' on the OpenMP AST (clang -fopenmp): from every omp "
          "task no path reaches the function exit, a call or a shared store before a taskwait; every pair of tasks that can "
          "be active together has disjoint field-level effect summaries on the objects they share (forward writes only "
          "m->f, backward only m->b, split2 only its own res[k]); recursive sibling merges write shared arrays only at "
          "their own node ids and use a private aln_mem; the parallel for stores only to dm[i][j]/private data, reads dm only at its own element (no loop-carried "
          "read) and has no reduction/atomic; no omp_get_thread_num/num_threads/wtime; the thread count reaches only omp_set_num_threads, "
          "the clamp, run_parallel and if() clauses; parallel and serial Hirschberg steps dispatch identically; thorough: "
          "OpenMP and non-OpenMP configurations make the same calls in every function."),
    note=("Assumes the two children of a guide-tree node are disjoint subtrees (run-time invariant of create_tasks), IEEE "
          "arithmetic deterministic per operation, libgomp's taskwait/barrier. Does not execute any schedule."),
    technique="OpenMP AST + CFG open-region analysis, interprocedural field-level effect summaries, sibling cross-check",
    design_ref="DESIGN.md section 3, C02 (R02a-R02h)")

CLAIMS["C10"] = dict(
    text=("Decides the ownership and uniformity facts that make 'only whole gap columns are inserted into a finished "
          "group' possible: the interprocedural effect summary of create_msa_tree writes nothing under msa->sequences "
          "except gap-count elements, and only via make_seq -> update_gaps; update_gaps only adds sums of new-vector "
          "entries (counts never shrink), vectors hold 0 / +1 increments; make_seq applies one vector, unmodified, to "
          "exactly the members [0, nsip) of each group with length and counts of the same member; do_align builds "
          "sip[c] from all members of both children and nsip[c] as the sum; the two new-gap vectors never overlap and are int "
          "wide; the accumulated counts are rendered for every sequence with slot j in front of residue j; every omp task of the "
          "merge recursion (child merges, gap weaving) is joined before the spawning function calls, stores shared data or "
          "returns, so a parent never merges a group whose own merge is still running; the cursor into the new-gap vector is "
          "advanced from the count as it was before the merge (R10h)."),
    note=("Does not decide that update_gaps distributes the vector over the right slots (index arithmetic over run-time "
          "arrays), nor the path encoding produced by the DP kernels."),
    technique="interprocedural effect summary (who-may-write), store-form rule, exact affine loop ranges, argument agreement",
    design_ref="DESIGN.md section 3, C10 (R10a-R10h)")

CLAIMS["C07"] = dict(
    text=("Decides the structural necessary conditions of the meet-in-the-middle recursion: the three meetup functions "
          "produce the same transition codes with the same (forward state, backward state) meaning, every candidate stores "
          "as maximum exactly the expression it compared, every producible code has a case in aln_continue, and the case of "
          "code k gives the two sub-problems exactly the boundary states k stands for (0 for the state, -FLT_MAX for the "
          "others) and restores the saved outer states; do_align sets seq1/seq2/prof1/prof2 to one of the three kernel "
          "shapes before every aln_runner call and mirrors the path (and swaps lengths) on exactly the swapped branches; "
          "parallel and serial Hirschberg steps dispatch identically; profile gap columns are scaled by the size of the "
          "other group on both sides; the three forward passes, the three backward passes and the three meetup functions "
          "implement one recurrence each: every straight-line piece leaves the same max-plus normal form (penalties "
          "mapped to open/extension/terminal classes, scores to S) in every DP cell, carried local and candidate, under "
          "each of the four border situations, each backward pass is the left-right mirror image of its forward pass, and the "
          "border tests select interior/terminal prices with the same polarity; the runners save the boundary states before a "
          "kernel has run (slot 0 of the f/b arrays is DP cell 0 as well); do_align's wiring is decided per scenario (sequence/profile x "
          "shorter/longer) on the evaluated set-up code; make_profile_n copies the substitution row of every protein code (R07i)."),
    note=("The optimality statement itself is numerical and is NOT decided: the recurrence comparison is relative (a slip "
          "made identically in all six passes is invisible), and profile row/column offsets, float rounding and "
          "tie-breaks are not examined."),
    technique="producer/consumer exhaustiveness table, sibling cross-check of three kernels by max-plus value numbering, guard/store agreement",
    design_ref="DESIGN.md section 3, C07 (R07a-R07g)")

CLAIMS["C13"] = dict(
    text=("Decides that the kind decision is a function of the residue-letter histogram only and is biased the right way on "
          "nucleotide letters: the effect summary of detect_alphabet reads only letter_freq/quiet; every writer of "
          "letter_freq adds or zeroes; the two letter models are reconstructed from their literals and constant log() "
          "expressions: the nucleotide set holds A C G T U N in both cases, both sets are case-closed, array sizes and loop "
          "ranges equal the literal lengths; the voting filter, evaluated for all 128 characters, lets exactly the letters "
          "vote; every nucleotide letter weighs strictly more under the nucleotide model (so all-nucleotide input is "
          "nucleotide for any gaps/order/names); the second premise is decided per letter: the totals are linear in the "
          "histogram, so for each protein-only letter of the documented protein alphabet the worst composition (a quarter of "
          "that letter, three quarters of the shared letter that pulls hardest towards nucleotide) is evaluated exactly; the "
          "larger total selects the matching biotype; msa.biotype is assigned a kind only by detect_alphabet; the kind gates the type; "
          "every increment of the histogram by an input character is executed for all 52 letters and under no budget that the counting "
          "itself uses up (R13g); merge_msa adds the histograms and re-runs the detection after the append (R13h); no variable narrower than the counters "
          "receives a value computed from them inside the decision (R13i)."),
    note=("Known finding F24 (recorded, not repaired): the second premise fails literally for the letters B, Z and X, which are not "
          "in the protein model (replay: findings/F24). Assumes C-locale isalpha."),
    technique="effect summary (read set), constant evaluation of the letter models, finite evaluation of the voting filter, who-may-write",
    design_ref="DESIGN.md section 3, C13 (R13a-R13i)")

CLAIMS["C14"] = dict(
    text=("Decides non-interference of case and T/U spelling: among everything kalign_run runs before finalise_alignment "
          "only the letter-to-code function reads msa_seq.seq and the letter only indexes the alphabet table; the tables of "
          "all alphabets kalign_run selects are computed by constant evaluation of create_alphabet (loops unrolled, calls "
          "inlined) and compared entry by entry: every upper-case letter and its lower-case twin share a code, only letters "
          "have codes, T/U/t/u share one code and A,C,G,T are distinct; the kind decision is blind to spelling exactly when "
          "each letter's margin (nucleotide weight - protein weight) equals that of its case twin and T's equals U's, which is "
          "evaluated from the reconstructed models; in each reader every letter and its case twin take the same branch of the "
          "character classification (all byte values evaluated); elements of msa.letter_freq are read only by the kind decision, "
          "the additive merge and diagnostics - no other code looks at the count of one particular spelling (R14g); every comparison of "
          "the raw residue letter with constants gives the same answer for both cases of a letter (all 26 pairs evaluated)."),
    note=("Known finding F23 (recorded, not repaired): T is a letter of the protein model and U is not, so nucleotide input with "
          "more than ~10% ambiguity letters is detected as protein in T spelling and nucleotide in U spelling (replay: "
          "findings/F23). Assumes C-locale isalpha."),
    technique="who-may-read over the call graph + constant evaluation of the alphabet constructors and letter models + finite evaluation of the readers' character tests",
    design_ref="DESIGN.md section 3, C14 (R14a-R14g)")

CLAIMS["C16"] = dict(
    text=("Decides that there is no channel from one library call to the next: every file-scope variable and function-local "
          "static of the library is const or only assigned compile-time constants; kalign_run re-establishes the OpenMP "
          "thread count from its own parameter before anything that opens a parallel region; every constructor sets every "
          "field that is read later (or a verified later phase does), gap counters are zeroed over exactly the allocated count and "
          "num_profiles changes only together with the arrays it counts, so no stale heap is read; objects acquired into locals "
          "by the API functions and their helpers are released or handed over on every CFG path to every exit (failure exits "
          "for the functions that own on failure; input-caused failure edges only); nothing reachable from any API function "
          "reads a clock, a random source, or pointer values as data; an owning local is not overwritten while live (R16g), errno is "
          "read only under a test of a call result (R16h), writing an msa does not change it (R16i = R06i), and no local pointer is "
          "released twice on a path without an assignment in between (R16j)."),
    note=("Does not decide allocator state / fragmentation effects; libgomp's thread pool is excluded by the statement. "
          "Failure edges that only an allocation failure or an argument precondition can take are outside the fault model."),
    technique="global/static write enumeration, constructor completeness, CFG typestate (acquire/release/hand-over), call-graph reachability",
    design_ref="DESIGN.md section 3, C16 (R16a-R16j)")

CLAIMS["C17"] = dict(
    text=("Decides two structural clauses: both alignments are sorted by the same (name, checksum) order before pairing, and "
          "compare_pair receives rows (i,j) of the reference with rows (i,j) of the test over exactly the pairs 0<=i<j<numseq, "
          "each with its own alignment length; the stored score is 100 * a / b where, by reaching definitions, a sums exactly "
          "the counters incremented in compare_pair's comparison loops and b exactly those incremented while scanning the "
          "first pair of rows - which the caller fills from the reference parameter - and no test-side counter; uniqueness "
          "check and matching order use one comparison function; every row-walking loop (also inside private helpers) is "
          "bounded by the length of the alignment its rows belong to; the score is computed without float operands and without any "
          "local or conversion narrower than the counter fields (R17h); kalign_sort_msa sorts on every success path or skips the sort "
          "only after a scan whose range covers all numseq-1 adjacent pairs (R17i); every test compare_pair makes on a row character is "
          "case-blind and tells letters from the gap symbol (R17j, evaluated per byte)."),
    note="Does not decide that the counters count the stated relations (index arithmetic in compare_pair) nor the 0..100 range.",
    technique="CFG dominance + argument pairing + reaching definitions + counter classification by scanned parameters",
    design_ref="DESIGN.md section 3, C17 (R17a-R17j)")
