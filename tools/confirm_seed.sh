#!/bin/bash
# usage: confirm_seed.sh <agentdir-name> <k> <seed-id>
# Confirms a candidate seeded change in a scratch worktree: applies, builds, runs the 12 tests,
# runs the demo on the changed tree (must fail) and on a clean tree (must pass).  Writes
# /verif/seeded/<seed-id>/{patch.diff,demo.sh,demo/,meta.json}.  Removes the worktree afterwards.
set -u
name=$1; k=$2; sid=$3
src=/tmp/mut/$name.out
wt=/tmp/cs/$sid
out=/verif/seeded/$sid
mkdir -p /tmp/cs "$out"
git -C /repo worktree add -q --detach "$wt" HEAD || exit 3
cp "$src/patch$k.diff" "$out/patch.diff"
cp "$src/demo$k.sh" "$out/demo.sh"; [ -d "$src/demo$k" ] && rm -rf "$out/demo$k" && cp -r "$src/demo$k" "$out/demo$k"
cp "$src/meta$k.json" "$out/agent_meta.json" 2>/dev/null
applied=no; built=no; tests=unknown; demo_changed=unknown; demo_clean=unknown
if git -C "$wt" apply "$out/patch.diff"; then applied=yes; fi
if [ $applied = yes ]; then
  if (cd "$wt" && cmake -G Ninja -S . -B build >/dev/null 2>&1 && cmake --build build >"$out/build.log" 2>&1); then built=yes; fi
  if [ $built = yes ]; then
    (cd "$wt" && ctest --test-dir build -j8 --timeout 900 >"$out/ctest.log" 2>&1); rc=$?
    tests=$(grep -c "Passed" "$out/ctest.log")/12; [ $rc -ne 0 ] && tests="FAILED($tests)"
  fi
  rm -rf "$wt/build"
  (cd "$out" && timeout 1500 bash ./demo.sh "$wt" >"$out/demo_changed.log" 2>&1); demo_changed=$?
fi
git -C "$wt" checkout -q -- . ; git -C "$wt" clean -fdqx
(cd "$out" && timeout 1500 bash ./demo.sh "$wt" >"$out/demo_clean.log" 2>&1); demo_clean=$?
git -C /repo worktree remove --force "$wt"
rm -f "$out/build.log"
python3 - "$out" "$applied" "$built" "$tests" "$demo_changed" "$demo_clean" "$name" "$k" <<'PY'
import json,sys,os
out,applied,built,tests,dc,dl,name,k=sys.argv[1:]
am={}
try: am=json.load(open(os.path.join(out,'agent_meta.json')))
except Exception: pass
meta={"property":am.get("property"),"summary":am.get("summary"),"needs_to_manifest":am.get("needs_to_manifest"),
 "files":am.get("files"),"origin":"sub-agent %s change %s (independent; saw only the property text)"%(name,k),
 "confirmed":{"applies":applied=="yes","builds":built=="yes","ctest":tests,"demo_exit_with_change":dc,"demo_exit_clean":dl},
 "ran":["git apply patch.diff in a scratch worktree of /repo HEAD","cmake -G Ninja -S . -B build && cmake --build build","ctest --test-dir build -j8 --timeout 900","bash demo.sh <changed tree>","bash demo.sh <clean tree>"]}
json.dump(meta,open(os.path.join(out,'meta.json'),'w'),indent=1)
print(name,k,json.dumps(meta["confirmed"]))
PY
