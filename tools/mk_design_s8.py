#!/usr/bin/env python3
"""Regenerates DESIGN.md section 8 (seeded changes / refactorings) from seeded/*/meta.json (written by seed_matrix.py)."""
import glob, json, os, re
V = os.path.dirname(os.path.dirname(os.path.abspath(__file__)))
rows = []
for d in sorted(glob.glob(os.path.join(V, "seeded", "C*"))):
    m = json.load(open(os.path.join(d, "meta.json")))
    rows.append((os.path.basename(d), m.get("property"), (m.get("summary") or "").replace("|", "/").replace("\n", " ")[:118],
                 m.get("detected_by") or [], m.get("detected_by_own_property_check"), m.get("origin", "")))
n = len(rows)
own = [r for r in rows if r[4]]
other = [r for r in rows if not r[4] and any("analysis-broken" not in x for x in r[3])]
nov = [r for r in rows if not r[4] and r[3] and all("analysis-broken" in x for x in r[3])]
missed = [r for r in rows if not r[3]]
nref = len(glob.glob(os.path.join(V, "refactors", "ref*", "refactor*.diff")))
nbatch = len(glob.glob(os.path.join(V, "refactors", "ref*")))

table = "| seed | property | change | detected by |\n|---|---|---|---|\n"
for sid, prop, summ, det, o, origin in rows:
    table += "| %s | %s | %s | %s |\n" % (sid, prop, summ, ", ".join(det) or "**missed**")

text = open(os.path.join(V, "tools", "design_s8.tmpl")).read()
text = (text.replace("@N@", str(n)).replace("@OWN@", str(len(own))).replace("@OTHER@", str(len(other)))
        .replace("@NOV@", str(len(nov))).replace("@MISSED@", str(len(missed)))
        .replace("@OTHER_LIST@", ", ".join("`%s` (%s)" % (r[0], ", ".join(x for x in r[3] if "analysis-broken" not in x)) for r in other) or "none")
        .replace("@NOV_LIST@", ", ".join("`%s`" % r[0] for r in nov) or "none")
        .replace("@MISSED_LIST@", ", ".join("`%s`" % r[0] for r in missed) or "none")
        .replace("@NREF@", str(nref)).replace("@NBATCH@", str(nbatch)).replace("@TABLE@", table))
p = os.path.join(V, "DESIGN.md")
s = open(p).read()
i = s.index("## 8. Seeded changes, refactorings, and which checks catch which")
open(p, "w").write(s[:i] + text)
print("section 8 rewritten: %d seeds, %d own, %d other, %d no-verdict, %d missed" % (n, len(own), len(other), len(nov), len(missed)))
with open(os.path.join(V, "seeded", "MATRIX.md"), "w") as f:
    f.write("# Seeded changes vs checks\n\nEach change was produced by an independent sub-agent that saw only the property text, then confirmed here "
            "(applies, builds, 12/12 tests pass, demo fails with / passes without the change).  `detected by` lists the quick checks that "
            "exit 1 with a VIOLATION line (or lose their anchor: analysis-broken) when the change is applied to /repo.  Regenerated from "
            "seeded/*/meta.json by tools/mk_design_s8.py.\n\n" + table)
