#!/usr/bin/env python3
"""Regenerates /verif/MANIFEST.json from the table below (kept in one place so the
claimed / not-applicable split always covers all 17 properties)."""
import json, os
V = os.path.dirname(os.path.dirname(os.path.abspath(__file__)))
props = [json.loads(l) for l in open(os.path.join(V, "properties.jsonl"))]
ids = [p["id"] for p in props]

CLAIMS = {}   # id -> dict(text, note, technique, design_ref)
NA = {}       # id -> reason
exec(open(os.path.join(V, "tools", "claims.py")).read())

checks = []
for i in ids:
    if i in CLAIMS:
        c = CLAIMS[i]
        checks.append({
            "property_id": i,
            "quick_cmd": "python3 kcheck.py %s --tier quick" % i,
            "thorough_cmd": "python3 kcheck.py %s --tier thorough" % i,
            "evidence_file": "/verif/evidence/%s.json" % i,
            "replay_cmd_template": "python3 kcheck.py --replay {path}",
            "engine": "kcheck",
            "level_claimed": {"category": "other", "text": c["text"], "design_ref": c["design_ref"]},
            "level_note": c["note"],
            "technique": c["technique"],
        })
na = [{"property_id": i, "reason": NA.get(i, "check under construction (DESIGN.md section 3); not claimed yet")}
      for i in ids if i not in CLAIMS]
m = {
    "version": 1,
    "setup_cmd": "make -C /verif/engine",
    "hooks": {
        "guard": "KALIGN_VERIF",
        "enable": "none needed: nothing is executed; every check analyses /repo's working tree as it stands (no hook commits)",
        "baseline_off_cmd": "cmake -G Ninja -S /repo -B /repo/_build && cmake --build /repo/_build && ctest --test-dir /repo/_build -j8 --timeout 900",
        "source_commits": [],
        "add_only": True,
    },
    "engines": [
        {"name": "kfacts", "path": "/verif/engine/kfacts.cc", "serves_properties": sorted(CLAIMS),
         "kind_free_text": "libTooling (clang 14) fact extractor: resolved AST with types, constant values, macro provenance, OpenMP directives and clang's CFG for every function of every unit CMake builds, per build configuration"},
        {"name": "kcheck", "path": "/verif/kcheck.py", "serves_properties": sorted(CLAIMS),
         "kind_free_text": "repository-specific static rules (Python) over the kfacts program model: must-pass-through / dominance on the CFG, who-may-read/write over interprocedural pointer flow, sibling cross-checks, exhaustiveness tables, index-domain rules"},
    ],
    "checks": checks,
    "not_applicable": na,
    "notes": "Static analysis only: no check runs kalign. Exit 0 = every rule instance holds, 1 = VIOLATION, 2 = analysis broken (slot/floor/control failure; never a pass). See DESIGN.md.",
}
json.dump(m, open(os.path.join(V, "MANIFEST.json"), "w"), indent=1)
print("claimed:", sorted(CLAIMS), "n/a:", [x["property_id"] for x in na])
