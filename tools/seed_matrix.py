#!/usr/bin/env python3
"""Applies every kept seeded change to /repo (git apply), runs every claimed quick check, undoes the change
(git checkout -- .) and records which checks report it.  Writes seeded/MATRIX.md and updates each meta.json."""
import json, os, subprocess, sys, glob
V = os.path.dirname(os.path.dirname(os.path.abspath(__file__)))
man = json.load(open(os.path.join(V, "MANIFEST.json")))
checks = [(c["property_id"], c["quick_cmd"]) for c in man["checks"]]
only = sys.argv[1:]
rows = []
assert subprocess.run(["git", "-C", "/repo", "status", "--porcelain", "--untracked-files=no"], capture_output=True, text=True).stdout.strip() == "", "/repo not clean"
for d in sorted(glob.glob(os.path.join(V, "seeded", "*"))):
    if not os.path.isdir(d):
        continue
    sid = os.path.basename(d)
    if only and sid not in only:
        continue
    patch = os.path.join(d, "patch.diff")
    meta = json.load(open(os.path.join(d, "meta.json")))
    r = subprocess.run(["git", "-C", "/repo", "apply", patch], capture_output=True, text=True)
    if r.returncode != 0:
        rows.append((sid, meta.get("property"), "PATCH DOES NOT APPLY", []))
        continue
    detected = []
    try:
        from concurrent.futures import ThreadPoolExecutor
        with ThreadPoolExecutor(max_workers=7) as ex:
            results = list(ex.map(lambda pc: (pc[0], subprocess.run(pc[1], shell=True, cwd=V, capture_output=True, text=True)), checks))
        for pid, p in results:
            if p.returncode == 1 and "VIOLATION property=%s" % pid in p.stdout:
                rules = sorted({l.split("replay=")[1].split("/")[-1].split("-")[1] for l in p.stdout.splitlines() if l.startswith("VIOLATION")})
                detected.append("%s(%s)" % (pid, ",".join(rules)))
            elif p.returncode == 2:
                detected.append("%s(analysis-broken)" % pid)
    finally:
        subprocess.run(["git", "-C", "/repo", "checkout", "--", "."])
    meta["detected_by"] = detected
    meta["detected_by_own_property_check"] = any(x.startswith(str(meta.get("property")) + "(") and "analysis-broken" not in x for x in detected)
    json.dump(meta, open(os.path.join(d, "meta.json"), "w"), indent=1)
    rows.append((sid, meta.get("property"), (meta.get("summary") or "")[:110], detected))
    print(sid, detected, flush=True)
# restore evidence from the clean tree
for pid, cmd in checks:
    subprocess.run(cmd, shell=True, cwd=V, capture_output=True)
if not only:
    with open(os.path.join(V, "seeded", "MATRIX.md"), "w") as f:
        f.write("# Seeded changes vs checks\n\nEach change was produced by an independent sub-agent that saw only the property text, then confirmed here "
                "(applies, builds, 12/12 tests pass, demo fails with / passes without the change).  `detected by` lists the quick checks that "
                "exit 1 with a VIOLATION line when the change is applied to /repo.\n\n| seed | property | change | detected by |\n|---|---|---|---|\n")
        for sid, prop, summ, det in rows:
            f.write("| %s | %s | %s | %s |\n" % (sid, prop, summ.replace("|", "/").replace("\n", " "), ", ".join(det) or "**missed**"))
