#!/bin/bash
# usage: try_edit.sh <file> <python-expr-transform s->s> <prop...>   dev helper: edit a scratch worktree and run checks
f=$1; expr=$2; shift 2
wt=/tmp/tryed.$$; trap "git -C /repo worktree remove --force $wt 2>/dev/null" EXIT
git -C /repo worktree add -q --detach $wt HEAD || exit 3
python3 - "$wt/$f" "$expr" <<'PY'
import sys
p,expr=sys.argv[1],sys.argv[2]
s=open(p).read(); t=eval(expr,{'s':s})
assert t!=s, "edit had no effect"
open(p,'w').write(t)
PY
[ $? -ne 0 ] && { git -C /repo worktree remove --force $wt; exit 3; }
(cd $wt && git diff --stat | tail -1)
for id in "$@"; do
  out=$(KALIGN_REPO=$wt python3 /verif/kcheck.py $id 2>&1); rc=$?
  echo "== $id exit=$rc"; echo "$out" | grep -B1 "VIOLATION\|ANALYSIS-BROKEN" | grep -v "^--" | cut -c1-330
done
git -C /repo worktree remove --force $wt
