#!/bin/bash
# every refactors/negatives/negN_<rules>.diff must make each rule named in its file name report (exit 1 of the owning property)
cd /verif; bad=0
for f in refactors/negatives/neg*.diff; do
  rules=$(basename $f .diff | cut -d_ -f2- | tr '_' ' ')
  for r in $rules; do
    prop=C${r:1:2}
    out=$(tools/try_patch.sh $f $prop 2>&1)
    if echo "$out" | grep -q "$r \["; then echo "$(basename $f): $r fires"; else echo "$(basename $f): $r SILENT"; bad=1; fi
  done
done
exit $bad
