#!/bin/bash
# usage: try_patch.sh <patch.diff> [prop ...]   — dev helper: run checks against a scratch worktree with the patch applied
set -u
p=$(realpath $1); shift
wt=/tmp/try.$$; trap "git -C /repo worktree remove --force $wt 2>/dev/null" EXIT
git -C /repo worktree add -q --detach $wt HEAD || exit 3
if ! git -C $wt apply "$p"; then echo "PATCH DOES NOT APPLY"; git -C /repo worktree remove --force $wt; exit 3; fi
props=${@:-$(python3 -c "import json;print(' '.join(c['property_id'] for c in json.load(open('/verif/MANIFEST.json'))['checks']))")}
for id in $props; do
  out=$(KALIGN_REPO=$wt python3 /verif/kcheck.py $id 2>&1); rc=$?
  echo "== $id exit=$rc"; echo "$out" | grep -B1 "VIOLATION\|ANALYSIS-BROKEN" | grep -v "^--" | cut -c1-400
done
git -C /repo worktree remove --force $wt
