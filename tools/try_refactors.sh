#!/bin/bash
# usage: try_refactors.sh <dir-with-refactorN.diff>  — every claimed quick check on every refactoring; prints non-zero exits
d=$(realpath $1)
props=$(python3 -c "import json;print(' '.join(c['property_id'] for c in json.load(open('/verif/MANIFEST.json'))['checks']))")
for f in $d/refactor*.diff; do
  wt=/tmp/tryrf.$$
  git -C /repo worktree add -q --detach $wt HEAD || exit 3
  if ! git -C $wt apply "$f"; then echo "$(basename $f): DOES NOT APPLY"; git -C /repo worktree remove --force $wt; continue; fi
  line="$(basename $f):"
  for id in $props; do
    out=$(KALIGN_REPO=$wt python3 /verif/kcheck.py $id 2>&1); rc=$?
    if [ $rc -ne 0 ]; then line="$line $id=$rc"; echo "$out" | grep -B1 "VIOLATION\|ANALYSIS-BROKEN" | grep -v "^--\|^VIOLATION" | cut -c1-260 | sed "s/^/      [$id] /"; fi
  done
  echo "$line"
  git -C /repo worktree remove --force $wt
done
